"""C14 — mission queries return exactly the matching flight instances.

The condition builders (Filter.to_sql and the Filter methods returning
(text, parameters) pairs) are read on an *expanded view*: a private copy of
the normalised function in which loops / comprehensions over a literal table
(tuple, list, dict literal, .items(), zip / enumerate of literals, or a local
bound once to one) are unrolled with the loop variables replaced by the row
elements; statement-calls of helpers that push onto a list of their caller
(nested closure, method, module function) are replaced by the helper's body;
`if c: continue` / `if c: return` guard clauses become if/else; and
getattr(x, '<literal>') (also getattr(self, '<declared field>', default)),
f-strings with literal fields, 'a' + 'b', 'abc'[1:], {'k': f, ..}['k'],
comparisons of literals and the `if` / `match` / conditional expressions they
decide are folded; `C(text, params)` / `C._make((text, params))` of a
two-field record class (NamedTuple, plain dataclass) is the pair
(text, params), `.field` of an element reads that component and a
one-expression method or property of the class is read through.  A builder
that to_sql calls with literal arguments (`self._region_condition(table,
'airport')`, also out of an unrolled loop) is read once per argument tuple
with the literal in the parameter's place.  Locals are followed to their
single or reaching definition; a call through a local, a module-level table
of functions (`TABLE['key']`, `.get`), a module alias or a star re-export
is followed to the repository function it runs, a module-level text constant
(own, imported, `alias.NAME`) to its text.
Four closure calls, four `if` blocks, one table-driven loop and one
parametrised helper called three times are therefore the same thing to R3
and R7.

The rules "by evaluation" run the code in the checker's interpreter
(c13._Interp + _c14_interp below) on each module's own text: names are
resolved as Python resolves them (definitions, imports from other repository
modules - functions, classes, constants, modules, star imports, re-exports),
NamedTuple / namedtuple instances are tuples with named fields, dataclass
instances their fields (defaults, factories, __post_init__), plain classes
what __init__ stores; bound methods, static methods and class attributes are
values.  An input the documentation allows on which the code *fails*
(TypeError, KeyError, IndexError, AttributeError, ... raised by an operation
on plain values) is a violation like a refusal; a failure of an operation on
a stand-in for a repository object is "cannot decide".  A generator function that changes
nothing but its own locals is run to its end at the call and hands out what it
yields as a sequence (as generator expressions do).  The rule groups run
independently: one group's analysis error does not keep another group's
violation from being established.

R1  to_sql is pure.  Effects: every attribute of `self` mutated in code reachable from `to_sql` is
    re-initialised before its first mutation in that call - a reset (or a call of a helper that always resets)
    dominates the mutation, or the mutation sits in a helper every call site of which is covered in the same sense
    (interprocedural; a to_sql that writes nothing at all to the query object - conditions kept in locals or in a helper
    object made in the call - has nothing to re-initialise and is left to the evaluation).  One named exception: Filter._normalize rewrites str attributes to one-element lists under
    an isinstance(..., str) guard.  By evaluation: each query class's to_sql run twice on the same object gives the
    same statement and parameters, and the parameter list handed out by one call is not changed by a later call
    made after a setting was changed (queries run lazily).
R2  empty-collection unpack (T-GUARD), conditional: IF a collection is unpacked with `a, b = …zip(*xs)` THEN xs is
    known to be non-empty there: it is a display with at least one element (inline, or bound on every path and not
    emptied since), the site is evaluated under a guard that implies it, or on every CFG path to it a test sends
    the empty case elsewhere and xs is not re-bound after that test.  Positive control on embedded examples.
R3  placeholders = parameters.  Symbolic count on the expanded view (see above) for every pair entering the list
    the WHERE text is joined from, and the flatten step by abstract evaluation.  Parameters handed out by a helper,
    method or property of the repository are counted in its return(s) (all agreeing; a list grown by unconditional
    append / extend counts its pieces; a comprehension counts the collection it iterates; astuple(x) the fields of
    x's class; a module-level table its rows; a str parameter that the function re-binds in terms of itself -
    `table = f'{table}.' if table is not None else ''` - carries no placeholder when no re-binding adds one; an integer parameter of a text helper - `placeholders(n)` - is the
    count its caller passes, in whatever module the helper lives).  Condition builders are the Filter methods and the
    module-level functions of the filter module reached from to_sql that return lists of pairs, and those returning
    one pair (or None) whose result is put into a list of conditions; each must reach the list the WHERE text is
    joined from - directly, through another function of the module that returns its result, or through another local
    list that is added to / re-wrapped into that list.  Every numeric bound is carried by some pair (as the value or
    as a one-element group) and min_<c> / max_<c> goes with `<c> >= ?` / `<c> <= ?`: a builder that receives value and
    text as arguments is read once per call with the caller's arguments in the parameters' places.  The flatten step
    may iterate each pair's parameters when every pair holds a list; when some pair holds the bare value it must wrap
    first.  Query level (every method of the query module reachable from a query class's to_sql): per block, the placeholders appended to _conditions = the parameters pushed onto _params; the
    text and parameters Filter.to_sql returned (unpacked, read by index or by field) count as one matching group;
    a block that pushes the method's own parameters (a helper handed a condition with its values, `*values` included)
    is counted at each of its calls - the placeholders of the text argument = the values passed with it - and left to
    R6 where a call spreads (`*pair`) or the method is used other than by a resolved call;
    what cannot be followed is decided by R6.  By evaluation: Filter.to_sql is run
    by the checker's interpreter on a table of filters (every attribute alone with ordinary and zero values, single
    strings and lists, every region type in every position, legal mixes) and must return exactly the documented
    conditions, each with its own parameters in placeholder order (conjuncts compared as a multiset: AND commutes),
    ('', []) for a filter without conditions, the same answer when asked twice; a legal filter is never refused.
    Query-level blocks whose counts cannot be followed symbolically are decided by R6's evaluated statements.
R4  what the database is asked, by evaluation of Query / CountQuery / FrequentFlightQuery.to_sql on a grid of
    settings: select list, joins (either orientation of `x = y`), ORDER BY departure time for every setting, the
    count query over the same joins and conditions, frequent routes counted per od_pair in descending order with
    LIMIT (default 20); SQL compared as token sequences clause by clause (case and layout do not matter).
    from_row is run on a row of column tokens: every field comes from the column of its own name, departure and
    arrival through a from-epoch-seconds-as-UTC conversion.
R5  spatial compatibility rule, by evaluation: Filter._normalize run on filters with every count pattern (0 / 1 / 2
    and a few 3 / 4) of region types per position, unset written as None or [], set as list or single string: it
    refuses exactly the combinations the documentation refuses, and leaves single strings as one-element lists.
R6  by the same evaluation: one WHERE conjunct per condition with its own parameters - start date inclusive from
    00:00 UTC, end date strictly before 00:00 UTC of the following day (the interpreter models the process's local
    zone as UTC+05:45, so a bound that depends on it shows), the sampling fraction, every n-th day counted from the
    start day or from the first day in the data, the filter's conditions; LIMIT / OFFSET after ORDER BY in that
    order; legal boundary settings accepted, the documented illegal ones refused.  A WHERE clause that differs is
    reported (R4 and R6) as the documented conditions it lacks - named: start date, end date, sampling, every n-th
    day, filter - and the conjuncts it has instead.
R7  is-set tests of optional numerics (`int | None`, `float | None` fields of Filter and the query classes) are
    made against None itself, never by truthiness (expanded view; through locals and helper parameters).
    Bounding-box bounds reach the SQL parameters exactly as given, by evaluation: for each probe box (legal boxes:
    every edge of -90..90 / -180..180 in every position, 0 as lower and as upper bound, many digits, integers) a
    BoundingBox is constructed (its __post_init__ runs), placed in each box attribute of Filter, and Filter.to_sql
    is run by the checker's interpreter.  The constructed box holds the four numbers given; the parameter bound to
    `<column> >= ?` / `<column> <= ?` of the location sub-select is the box attribute of the column's name,
    unchanged in value (whatever helper, method, property, astuple() or loop carries it there); no legal box is
    refused.  The four numbers are traced values: when a parameter differs, the expression that computed something
    from the bound (arithmetic, comparison, truth test, rounding, min/max, math.*) is named with its function.
R8  each query iterates a cursor created in the call that runs it: the receiver of every `.execute(...)` in the code
    of the database module reachable from Database.__call__ is followed (locals, `with closing(..) as c`, parameters
    through every call site) to `<connection>.cursor()` - or is the connection itself, whose execute() makes a cursor
    per statement; an attribute of the Database object bound once to `<connection>.cursor()` is one cursor shared by
    every query (a second query replaces the result set an unfinished one is reading).  SQL and parameters of the
    execute are the two results of one to_sql() call of the query (through locals, indices, parameters).  What
    Database.__call__ hands out is followed per query class as a stream (generator functions with one unguarded
    `for .. yield`, `yield from`, comprehensions, helper methods of the database and of the query class, a function
    kept as class attribute, `if <class attribute> is (not) None` decided per class): <RESULT_TYPE>.from_row(row) for
    every row of the execute, in order; the first column of the first row (next(rows)[0], list(rows)[0][0],
    rows.fetchone()[0]) for the query whose result type is a plain number.
"""

from __future__ import annotations

import ast
import re
from collections import Counter

from ..astutil import first_stmt, last_stmt  # noqa: F401
from ..astutil import (MUTATING_METHODS, ancestors, assigned_names, call_name, calls_in, conjuncts, const_value,
                       guards_of, local_defs, norm, real_body, single_def_value, stmt_of, stores_to,
                       tuple_def_component, walk_no_nested)
from ..cfg import CFG
from ..loader import dotted_name
from ..resolve import closure, expr_class, resolve_call

Q = 'missions/query.py'
F = 'missions/filter.py'


# ---------------------------------------------------------------- R1 -----
def _mutations(fi):
    """[(attr, node, how)] mutations of self.<attr> in fi (not plain re-binding)"""
    out = []
    for t, st, how in stores_to(fi.node):
        b = t
        elem = False
        while isinstance(b, ast.Subscript):
            b, elem = b.value, True
        if isinstance(b, ast.Attribute) and norm(b.value) == 'self':
            if how == 'aug' or elem:
                out.append((b.attr, st, how if not elem else 'elem-' + how))
    for c in calls_in(fi.node):
        if isinstance(c.func, ast.Attribute) and c.func.attr in MUTATING_METHODS:
            b = c.func.value
            while isinstance(b, ast.Subscript):
                b = b.value
            if isinstance(b, ast.Attribute) and norm(b.value) == 'self':
                out.append((b.attr, stmt_of(c), 'call-' + c.func.attr))
        if call_name(c) == 'setattr' and c.args and norm(c.args[0]) == 'self':
            out.append(('<dynamic>', stmt_of(c), 'setattr'))
    return out


def _resets(fi):
    out = []
    for t, st, how in stores_to(fi.node):
        if how == 'assign' and isinstance(t, ast.Attribute) and norm(t.value) == 'self':
            v = st.value
            fresh = isinstance(v, (ast.List, ast.Dict, ast.Set, ast.Tuple, ast.Constant)) or \
                (isinstance(v, ast.Call) and call_name(v) in ('list', 'dict', 'set'))
            if fresh:
                out.append((t.attr, st))
    return out


def rule_pure(ctx):
    prog = ctx.prog
    classes = [c for c in prog.subclasses_of('QueryBase') if c.name != 'QueryBase']
    classes.append(prog.cls(F, 'Filter'))
    ctx.floor('C14-R1', len(classes), 4, 'query classes and Filter')
    for cls in classes:
        ts = cls.find_method('to_sql')
        if ts is None:
            continue
        reach = [f for f in closure(prog, [ts]) if f.cls is not None and f.cls in cls.mro() or f is ts]
        reach = [f for f in reach if f.cls is not None and (f.cls in cls.mro())]
        cfgs = {f.qualname: CFG(f.node) for f in reach}
        resets = {}
        for f in reach:
            for a, st in _resets(f):
                resets.setdefault(a, []).append((f, st))
        doms = {}

        def dom_of(f):
            if f.qualname not in doms:
                doms[f.qualname] = cfgs[f.qualname].dominators(edge_ok=lambda a, b, lab: lab != 'e')
            return doms[f.qualname]

        def call_nodes(f, callee):
            return [n for n in cfgs[f.qualname].nodes if n.stmt is not None and n.kind == 'stmt'
                    and any(resolve_call(prog, f, c) == callee for c in calls_in(n.stmt))]

        def must_reset(f, attr, depth=0):
            """a reason why self.<attr> is re-bound to a fresh value on every normal path through f, or None"""
            g, dom = cfgs[f.qualname], dom_of(f)
            at_exit = dom.get(g.exit, set())
            for rf, rst in resets.get(attr, []):
                if rf == f:
                    rn = g.nodes_of(rst)
                    if rn and rn[0] in at_exit:
                        return f'`{norm(rst)}`'
            if depth < 4:
                for h in reach:
                    if h is not f and any(n.id in at_exit for n in call_nodes(f, h)):
                        r = must_reset(h, attr, depth + 1)
                        if r:
                            return r
            return None

        def covered(f, mn, attr, depth):
            """a reason why self.<attr> has been re-initialised in this to_sql() call whenever the CFG nodes `mn` of f
            run: a reset (or a call of a helper that always resets) dominates them in f, or f is a helper and every one
            of its call sites in the code reachable from to_sql is covered in the same sense"""
            if not mn:
                return None
            g, dom = cfgs[f.qualname], dom_of(f)
            for rf, rst in resets.get(attr, []):
                if rf == f:
                    rn = g.nodes_of(rst)
                    if rn and all(rn[0] in dom[x] for x in mn):
                        return f'reset `{norm(rst)}` dominates the mutation'
            for h in reach:
                if h is f:
                    continue
                for n in call_nodes(f, h):
                    if all(n.id in dom[x] for x in mn):
                        r = must_reset(h, attr)
                        if r:
                            return f'`{n.text()[:40]}` dominates the mutation and always runs {r}'
            if f is ts or depth >= 4:
                return None
            sites = [(h, n) for h in reach if h is not f for n in call_nodes(h, f)]
            if not sites:
                return None
            whys = [covered(h, [n.id], attr, depth + 1) for h, n in sites]
            if all(whys):
                return f'every call of {f.name} ({len(sites)}) comes after the reset: {whys[0]}'
            return None

        found = 0
        for f in reach:
            for attr, st, how in _mutations(f):
                found += 1
                if attr == '<dynamic>':
                    gs = [norm(t) for t, pol, _ in guards_of(st) if pol]
                    c = st.value if isinstance(st, ast.Expr) else None
                    idem = any(g.startswith('isinstance(getattr(self, ') and g.endswith(', str)') for g in gs) and \
                        isinstance(c, ast.Call) and len(c.args) == 3 and isinstance(c.args[2], ast.List) \
                        and len(c.args[2].elts) == 1 and norm(c.args[2].elts[0]).startswith('getattr(self, ')
                    ctx.ob('C14-R1', f, f'{cls.name}.to_sql: {norm(st)[:60]}', idem,
                           'idempotent normalisation (str → one-element list, only while it is still a str)' if idem
                           else 'to_sql rewrites attributes of the query object: a second call sees different state',
                           line=st.lineno)
                    continue
                why = (f'self.{attr} is mutated ({how}) during to_sql but never re-initialised in that call: '
                       'building the SQL twice accumulates conditions/parameters')
                g = cfgs[f.qualname]
                got = covered(f, g.nodes_of(st), attr, 0)
                ok = got is not None
                if ok:
                    why = got
                ctx.ob('C14-R1', f, f'{cls.name}.to_sql: self.{attr} {how} at `{norm(st)[:50]}`', ok, why,
                       line=st.lineno)
        if cls.name != 'Filter':
            writes = [norm(st)[:50] for f in reach for t, st, how in stores_to(f.node)
                      if any(isinstance(x, ast.Name) and x.id == 'self' for x in ast.walk(t))]
            if found == 0 and not writes and not resets:
                # the conditions are collected in values local to the call (a list, a helper object made afresh):
                # nothing of the query object is written, so there is nothing a second call could see
                ctx.ob('C14-R1', ts, f'{cls.name}.to_sql writes nothing to the query object', True,
                       f'no store to / mutating call on an attribute of self in the {len(reach)} methods reachable from to_sql; '
                       'the run-twice evaluation (R1 by evaluation) decides the rest', nontrivial=False)
            else:
                ctx.floor(f'C14-R1/{cls.name}', found, 2, f'mutations reachable from {cls.name}.to_sql')


# ------------------------------------------------------ expanded view -----
# The condition builders are analysed on an *expanded view* of each function: a private copy of the (already
# normalised) function in which
#   * a `for` loop or comprehension over a literal table (tuple / list / dict literal, `.items()`, `zip(...)`,
#     `enumerate(...)` of literals, or a never-mutated local bound once to one) is unrolled, the loop variables
#     replaced by the elements of each row,
#   * a statement-call of a helper that pushes onto a list of its caller (a nested closure, a method or a module
#     function that appends to a parameter / free variable and returns nothing) is replaced by the helper's body,
#   * guard clauses `if c: continue` / `if c: return` inside those become `if c: ... else: <rest>`,
#   * `getattr(x, '<literal>')`, f-strings with literal fields and `'a' + 'b'` are folded.
# Every rule below that asks "which value is tested / pushed with which text" reads the view, so that a table-driven
# loop, four closure calls and four hand-written `if` blocks are one and the same thing to it.
_SINGLETONS = (ast.expr_context, ast.operator, ast.unaryop, ast.cmpop, ast.boolop)
_DEFS = (ast.FunctionDef, ast.AsyncFunctionDef, ast.ClassDef, ast.Lambda)
_COMPS = (ast.ListComp, ast.SetComp, ast.GeneratorExp, ast.DictComp)
_MAX_ROWS = 64


def _clone(n, env=None):
    """structural copy without the loader's parent links; loads of names bound in env become copies of the
    bound expression"""
    if isinstance(n, list):
        return [_clone(x, env) for x in n]
    if not isinstance(n, ast.AST) or isinstance(n, _SINGLETONS):
        return n
    if env and isinstance(n, ast.Name) and isinstance(n.ctx, ast.Load) and n.id in env:
        return _clone(env[n.id])
    if env:
        bound = set()
        if isinstance(n, (ast.Lambda, ast.FunctionDef, ast.AsyncFunctionDef)):
            a = n.args
            bound = {x.arg for x in a.posonlyargs + a.args + a.kwonlyargs}
            bound |= {x.arg for x in (a.vararg, a.kwarg) if x is not None}
        elif isinstance(n, _COMPS):
            bound = {x for g in n.generators for x in assigned_names(g.target)}
        if bound & set(env):
            env = {k: v for k, v in env.items() if k not in bound}
    new = type(n)()
    for f in n._fields:
        if hasattr(n, f):
            setattr(new, f, _clone(getattr(n, f), env))
    for a in n._attributes:
        if hasattr(n, a):
            setattr(new, a, getattr(n, a))
    return new


def _set_parents(root):
    for p in ast.walk(root):
        for ch in ast.iter_child_nodes(p):
            if not isinstance(ch, _SINGLETONS):
                ch._parent = p  # type: ignore[attr-defined]
    return root


def _is_str(e):
    return isinstance(e, ast.Constant) and isinstance(e.value, str)


def _is_num(e):
    return isinstance(e, ast.Constant) and isinstance(e.value, (int, float)) and not isinstance(e.value, bool)


class _Fold(ast.NodeTransformer):
    """constant folding of what a reader folds at sight: literal fields of f-strings (strings, and numbers written
    with no format spec: str(v) is what the f-string inserts), nested f-strings, 'a' + 'b', integer arithmetic over
    literals (2 ** 63, 2 ** 64 - 1), slices of literals, getattr(x, '<literal>')"""

    def visit_JoinedStr(self, n):
        self.generic_visit(n)
        parts = []
        for v in n.values:
            if isinstance(v, ast.FormattedValue) and v.conversion == -1 and v.format_spec is None and _is_str(v.value):
                v = v.value
            elif isinstance(v, ast.FormattedValue) and v.conversion == -1 and v.format_spec is None and _is_num(v.value):
                v = ast.copy_location(ast.Constant(str(v.value.value)), v)
            if _is_str(v) and parts and _is_str(parts[-1]):
                parts[-1] = ast.copy_location(ast.Constant(parts[-1].value + v.value), parts[-1])
            else:
                parts.append(v)
        if all(_is_str(v) for v in parts):
            return ast.copy_location(ast.Constant(''.join(v.value for v in parts)), n)
        n.values = parts
        return n

    def visit_BinOp(self, n):
        self.generic_visit(n)
        if isinstance(n.op, ast.Add) and _is_str(n.left) and _is_str(n.right):
            return ast.copy_location(ast.Constant(n.left.value + n.right.value), n)
        if _is_num(n.left) and _is_num(n.right) and isinstance(n.left.value, int) and isinstance(n.right.value, int):
            a, b = n.left.value, n.right.value
            v = None
            if isinstance(n.op, ast.Add):
                v = a + b
            elif isinstance(n.op, ast.Sub):
                v = a - b
            elif isinstance(n.op, ast.Mult) and abs(a) < 2 ** 70 and abs(b) < 2 ** 70:
                v = a * b
            elif isinstance(n.op, ast.Pow) and 0 <= b <= 128 and abs(a) <= 16:
                v = a ** b
            elif isinstance(n.op, ast.LShift) and 0 <= b <= 128 and abs(a) < 2 ** 16:
                v = a << b
            elif isinstance(n.op, ast.FloorDiv) and b != 0:
                v = a // b
            if v is not None and v >= 0:
                return ast.copy_location(ast.Constant(v), n)
        return n

    def visit_Compare(self, n):
        self.generic_visit(n)
        if len(n.ops) == 1 and isinstance(n.left, ast.Constant) and isinstance(n.ops[0], (ast.Eq, ast.NotEq, ast.Is, ast.IsNot)):
            r = n.comparators[0]
            a = n.left.value
            if isinstance(r, ast.Constant) and (type(a) is type(r.value)) and isinstance(a, (str, int, bool, type(None))):
                same = a == r.value
                return ast.copy_location(ast.Constant(same if isinstance(n.ops[0], (ast.Eq, ast.Is)) else not same), n)
        if len(n.ops) == 1 and _is_str(n.left) and isinstance(n.ops[0], (ast.In, ast.NotIn)) \
                and isinstance(n.comparators[0], (ast.Tuple, ast.List, ast.Set)) and all(_is_str(x) for x in n.comparators[0].elts):
            inside = n.left.value in [x.value for x in n.comparators[0].elts]
            return ast.copy_location(ast.Constant(inside if isinstance(n.ops[0], ast.In) else not inside), n)
        return n

    def visit_IfExp(self, n):
        self.generic_visit(n)
        if isinstance(n.test, ast.Constant) and isinstance(n.test.value, bool):
            return n.body if n.test.value else n.orelse
        return n

    def visit_Subscript(self, n):
        self.generic_visit(n)
        if isinstance(n.value, ast.Dict) and isinstance(n.ctx, ast.Load) and isinstance(n.slice, ast.Constant) \
                and all(isinstance(k, ast.Constant) for k in n.value.keys) \
                and all(isinstance(v, (ast.Name, ast.Constant, ast.Attribute, ast.Lambda)) for v in n.value.values):
            # {'a': f, 'b': g}['a']: the display's values are names, so building it has no effect of its own
            hit = [v for k, v in zip(n.value.keys, n.value.values) if type(k.value) is type(n.slice.value) and k.value == n.slice.value]
            if hit:
                return hit[-1]
        if _is_str(n.value) and isinstance(n.ctx, ast.Load):
            sl = n.slice
            try:
                if isinstance(sl, ast.Slice):
                    b = [None if x is None else const_value(x) for x in (sl.lower, sl.upper, sl.step)]
                    if all(x is None or isinstance(x, int) for x in b) and \
                            all((x is None) == (y is None) for x, y in zip(b, (sl.lower, sl.upper, sl.step))):
                        return ast.copy_location(ast.Constant(n.value.value[slice(*b)]), n)
                elif isinstance(const_value(sl), int):
                    return ast.copy_location(ast.Constant(n.value.value[const_value(sl)]), n)
            except (IndexError, ValueError):
                pass
        return n

    def visit_Call(self, n):
        self.generic_visit(n)
        if isinstance(n.func, ast.Name) and n.func.id == 'getattr' and len(n.args) == 2 and not n.keywords \
                and _is_str(n.args[1]) and n.args[1].value.isidentifier():
            return ast.copy_location(ast.Attribute(value=n.args[0], attr=n.args[1].value, ctx=ast.Load()), n)
        return n


def _jumps(stmts, kinds, loop_scoped=True):
    """does the block contain a break/continue of *its own* loop (or, loop_scoped=False, any return/yield)?"""
    st = list(stmts)
    while st:
        x = st.pop()
        if isinstance(x, kinds):
            return True
        if isinstance(x, _DEFS):
            continue
        if loop_scoped and isinstance(x, (ast.For, ast.AsyncFor, ast.While)):
            st.extend(x.orelse)
            continue
        st.extend(ast.iter_child_nodes(x))
    return False


def _guard_to_else(stmts, kind):
    """`if c: ...; continue` followed by rest  ==>  `if c: ... else: rest` (kind=Return: a bare `return` of a helper)"""
    out = []
    for i, s in enumerate(stmts):
        last = s.body[-1] if isinstance(s, ast.If) and s.body else None
        if isinstance(last, kind) and getattr(last, 'value', None) is None:
            new = ast.If(test=s.test, body=list(s.body[:-1]) or [ast.copy_location(ast.Pass(), s)],
                         orelse=_guard_to_else(list(s.orelse) + list(stmts[i + 1:]), kind))
            out.append(ast.copy_location(new, s))
            return out
        if isinstance(s, kind) and getattr(s, 'value', None) is None:
            return out  # what follows is dead
        out.append(s)
    return out


def _stable_value(fn, e):
    """e itself, or for a local bound exactly once and never mutated in place, the expression it is bound to"""
    if not isinstance(e, ast.Name):
        return e
    v = single_def_value(fn, e.id)
    if v is None:
        return None
    for x in ast.walk(fn):
        if isinstance(x, ast.Call) and isinstance(x.func, ast.Attribute) and x.func.attr in MUTATING_METHODS \
                and isinstance(x.func.value, ast.Name) and x.func.value.id == e.id:
            return None
        if isinstance(x, ast.Subscript) and isinstance(x.ctx, (ast.Store, ast.Del)) and isinstance(x.value, ast.Name) \
                and x.value.id == e.id:
            return None
    return v


def _tuple_of(elts, at):
    return ast.copy_location(ast.Tuple(elts=list(elts), ctx=ast.Load()), at)


def _rows(fn, it, depth=0):
    """the rows of a literal table, in iteration order, or None"""
    it = _stable_value(fn, it)
    if it is None or depth > 3:
        return None
    if isinstance(it, (ast.Tuple, ast.List)):
        return None if any(isinstance(x, ast.Starred) for x in it.elts) else list(it.elts)
    if isinstance(it, ast.Dict):
        return None if any(k is None for k in it.keys) else list(it.keys)
    if isinstance(it, ast.Call) and not it.keywords and not any(isinstance(a, ast.Starred) for a in it.args):
        f = it.func
        if isinstance(f, ast.Attribute) and not it.args and f.attr in ('items', 'keys', 'values'):
            d = _stable_value(fn, f.value)
            if isinstance(d, ast.Dict) and all(k is not None for k in d.keys):
                if f.attr == 'keys':
                    return list(d.keys)
                if f.attr == 'values':
                    return list(d.values)
                return [_tuple_of([k, v], k) for k, v in zip(d.keys, d.values)]
            return None
        if isinstance(f, ast.Name) and f.id in ('list', 'tuple', 'iter') and len(it.args) == 1:
            return _rows(fn, it.args[0], depth + 1)
        if isinstance(f, ast.Name) and f.id == 'reversed' and len(it.args) == 1:
            r = _rows(fn, it.args[0], depth + 1)
            return None if r is None else list(reversed(r))
        if isinstance(f, ast.Name) and f.id == 'zip' and it.args:
            cols = [_rows(fn, a, depth + 1) for a in it.args]
            if any(c is None for c in cols):
                return None
            return [_tuple_of(r, it) for r in zip(*cols)]
        if isinstance(f, ast.Name) and f.id == 'enumerate' and 1 <= len(it.args) <= 2:
            r = _rows(fn, it.args[0], depth + 1)
            start = 0
            if len(it.args) == 2:
                start = const_value(it.args[1])
                if not isinstance(start, int):
                    return None
            if r is None:
                return None
            return [_tuple_of([ast.copy_location(ast.Constant(start + i), x), x], x) for i, x in enumerate(r)]
    return None


def _bind(target, row, env) -> bool:
    if isinstance(target, ast.Name):
        env[target.id] = row
        return True
    if isinstance(target, (ast.Tuple, ast.List)) and isinstance(row, (ast.Tuple, ast.List)) \
            and len(target.elts) == len(row.elts) \
            and not any(isinstance(x, ast.Starred) for x in list(target.elts) + list(row.elts)):
        return all(_bind(t, r, env) for t, r in zip(target.elts, row.elts))
    return False


def _root_name(e):
    while isinstance(e, (ast.Attribute, ast.Subscript)):
        e = e.value
    return e.id if isinstance(e, ast.Name) else None


def _pushes_to_caller(fnode, params) -> bool:
    """the function appends to a list that is not its own: a parameter or a variable of the enclosing scope"""
    for x in walk_no_nested(fnode):
        r = None
        if isinstance(x, ast.Call) and isinstance(x.func, ast.Attribute) and x.func.attr in ('append', 'extend', 'insert'):
            r = _root_name(x.func.value)
        elif isinstance(x, ast.AugAssign) and isinstance(x.op, ast.Add):
            r = _root_name(x.target)
        if r is None or r in ('self', 'cls'):
            continue
        if r in params or not local_defs(fnode, r):
            return True
    return False


def _live_arm(s):
    """the statements that run for an `if` / `match` whose test is a constant after folding, else None"""
    if isinstance(s, ast.If) and isinstance(s.test, ast.Constant) and isinstance(s.test.value, bool):
        return list(s.body if s.test.value else s.orelse) or [ast.copy_location(ast.Pass(), s)]
    if isinstance(s, ast.Match) and isinstance(s.subject, ast.Constant):
        v = s.subject.value
        for c in s.cases:
            pats = c.pattern.patterns if isinstance(c.pattern, ast.MatchOr) else [c.pattern]
            if c.guard is None and all(isinstance(p, ast.MatchValue) and isinstance(p.value, ast.Constant) for p in pats):
                if any(type(p.value.value) is type(v) and p.value.value == v for p in pats):
                    return list(c.body)
                continue
            if c.guard is None and isinstance(c.pattern, ast.MatchAs) and c.pattern.pattern is None and c.pattern.name is None:
                return list(c.body)
            return None
        return [ast.copy_location(ast.Pass(), s)]
    return None


class _Expander:
    def __init__(self, prog, fi, spec=None):
        self.prog = prog
        self.fi = fi
        self.fn = _clone(fi.node)
        if spec:
            # the function as it runs when these parameters hold these literals (one call site's arguments)
            self.fn.body = [_Fold().visit(_clone(s_, dict(spec))) for s_ in fi.node.body]
        self.budget = 800

    def run(self):
        fn = self.fn
        fn.body = self.block(fn.body)
        fn = self.fn = _Fold().visit(fn)
        if self.fi.cls is not None and self.fi.params[:1] == ['self'] and not local_defs(fn, 'self'):
            # getattr(self, '<declared field>', <default>): the field exists on every instance, the default is never used
            declared = set(self.fi.cls.all_fields())
            for x in ast.walk(fn):
                if isinstance(x, ast.Call) and isinstance(x.func, ast.Name) and x.func.id == 'getattr' and len(x.args) == 3 \
                        and not x.keywords and isinstance(x.args[0], ast.Name) and x.args[0].id == 'self' and _is_str(x.args[1]) \
                        and x.args[1].value in declared and isinstance(x.args[2], (ast.Constant, ast.Name)):
                    x.args = x.args[:2]
            fn = self.fn = _Fold().visit(fn)
        _CompUnroll(fn).visit(fn)
        _PairLower(self.prog, self.fi.module).visit(fn)
        ast.fix_missing_locations(fn)
        _set_parents(fn)
        from ..loader import FunctionInfo
        return FunctionInfo(self.fi.qualname, fn, self.fi.module, self.fi.cls)

    def block(self, stmts, depth=0):
        out = []
        for s in stmts:
            u = _live_arm(s) if depth < 5 else None
            if u is not None:
                pass
            elif depth < 5 and isinstance(s, ast.For):
                u = self.unroll(s)
            elif depth < 5 and isinstance(s, ast.Expr) and isinstance(s.value, ast.Call):
                u = self.inline(s)
            if u is not None:
                out += self.block(u, depth + 1)
                continue
            if not isinstance(s, _DEFS):
                for f in ('body', 'orelse', 'finalbody'):
                    v = getattr(s, f, None)
                    if isinstance(v, list) and v and isinstance(v[0], ast.stmt):
                        setattr(s, f, self.block(v, depth))
                for h in getattr(s, 'handlers', None) or []:
                    h.body = self.block(h.body, depth)
                for c in getattr(s, 'cases', None) or []:
                    c.body = self.block(c.body, depth)
            out.append(s)
        return out

    def _read_elsewhere(self, loop, names) -> bool:
        """is a loop variable read outside its loop (where it would hold the value of the last row)?  Readers that
        bind the name themselves — a comprehension, another loop, a nested function's parameter — do not count."""
        st = [(self.fn, names)]
        while st:
            x, live = st.pop()
            if x is loop:
                continue
            if isinstance(x, ast.Name) and isinstance(x.ctx, ast.Load) and x.id in live:
                return True
            if isinstance(x, _COMPS):
                live = live - {n for g in x.generators for n in assigned_names(g.target)}
            elif isinstance(x, (ast.For, ast.AsyncFor)):
                live = live - set(assigned_names(x.target))
            elif isinstance(x, (ast.FunctionDef, ast.AsyncFunctionDef, ast.Lambda)) and x is not self.fn:
                a = x.args
                live = live - {y.arg for y in a.posonlyargs + a.args + a.kwonlyargs}
            if live:
                st.extend((ch, live) for ch in ast.iter_child_nodes(x))
        return False

    def unroll(self, s):
        rows = _rows(self.fn, s.iter)
        if rows is None or len(rows) > _MAX_ROWS:
            return None
        body = _guard_to_else(list(s.body), ast.Continue)
        if _jumps(body, (ast.Break, ast.Continue)):
            return None
        names = assigned_names(s.target)
        if not names or any(local_defs(b, n) for b in body for n in names):
            return None
        # the loop variables must not be read after the loop (their last value is not represented)
        if self._read_elsewhere(s, set(names)):
            return None
        out = []
        for r in rows:
            env = {}
            if not _bind(s.target, r, env):
                return None
            out += [_Fold().visit(_clone(b, env)) for b in body]
        out += [_clone(b) for b in s.orelse]
        self.budget -= len(out)
        if self.budget < 0:
            return None
        return out or [ast.copy_location(ast.Pass(), s)]

    def inline(self, s):
        c = s.value
        if any(isinstance(a, ast.Starred) for a in c.args) or any(k.arg is None for k in c.keywords):
            return None
        callee = resolve_call(self.prog, self.fi, c)
        if callee is None or callee.module is not self.fi.module or callee == self.fi:
            return None
        fnode = callee.node
        a = fnode.args
        if isinstance(fnode, ast.AsyncFunctionDef) or a.vararg or a.kwarg or a.kwonlyargs or fnode.decorator_list:
            return None
        params = [x.arg for x in a.posonlyargs + a.args]
        env = {}
        rest = list(params)
        if callee.cls is not None and callee.qualname == f'{callee.cls.name}.{fnode.name}' and params[:1] in (['self'], ['cls']):
            if not isinstance(c.func, ast.Attribute):
                return None
            env[params[0]] = c.func.value
            rest = params[1:]
        if len(c.args) > len(rest):
            return None
        for p, v in zip(rest, c.args):
            env[p] = v
        for k in c.keywords:
            if k.arg not in rest or k.arg in env:
                return None
            env[k.arg] = k.value
        for p, d in zip(params[len(params) - len(a.defaults):], a.defaults):
            env.setdefault(p, d)
        if any(p not in env for p in params):
            return None
        if not _pushes_to_caller(fnode, set(params) - {'self', 'cls'}) or any(local_defs(fnode, p) for p in params):
            return None
        body = list(fnode.body)
        if body and isinstance(body[0], ast.Expr) and _is_str(body[0].value):
            body = body[1:]
        body = _guard_to_else(body, ast.Return)
        if _jumps(body, (ast.Return, ast.Yield, ast.YieldFrom, ast.Await, ast.Global, ast.Nonlocal), loop_scoped=False):
            return None
        out = [_Fold().visit(_clone(b, env)) for b in body]
        self.budget -= len(out)
        if self.budget < 0:
            return None
        return out or [ast.copy_location(ast.Pass(), s)]


class _CompUnroll(ast.NodeTransformer):
    """[elt for row in <literal table> if c]  ==>  [*([elt_1] if c_1 else []), *([elt_2] if c_2 else []), ...]"""

    def __init__(self, fn):
        self.fn = fn

    def _comp(self, n):
        g0 = n.generators[0]
        rows = None if g0.is_async else _rows(self.fn, g0.iter)
        if rows is None or len(rows) > _MAX_ROWS:
            return self.generic_visit(n)
        elts = []
        for r in rows:
            env = {}
            if not _bind(g0.target, r, env):
                return self.generic_visit(n)
            if len(n.generators) > 1:
                item = ast.ListComp(elt=_clone(n.elt, env), generators=_clone(n.generators[1:], env))
            else:
                item = ast.List(elts=[_clone(n.elt, env)], ctx=ast.Load())
            tests = [_clone(t, env) for t in g0.ifs]
            if tests:
                test = tests[0] if len(tests) == 1 else ast.BoolOp(op=ast.And(), values=tests)
                e = ast.Starred(value=ast.IfExp(test=test, body=item, orelse=ast.List(elts=[], ctx=ast.Load())),
                                ctx=ast.Load())
            elif len(n.generators) > 1:
                e = ast.Starred(value=item, ctx=ast.Load())
            else:
                e = item.elts[0]
            elts.append(e)
        new = ast.copy_location(ast.List(elts=elts, ctx=ast.Load()), n)
        for x in ast.walk(new):
            if not hasattr(x, 'lineno') and isinstance(x, (ast.expr, ast.stmt)):
                ast.copy_location(x, n)
        return self.generic_visit(_Fold().visit(new))

    visit_ListComp = _comp
    visit_GeneratorExp = _comp


def _pair_classes(prog, module):
    """{id of class node: [field, field]} for the two-field record classes of the program (NamedTuple; a dataclass
    without bases, __init__ or __post_init__): `C(a, b)` holds the pair (a, b) and `.field` reads one of its
    components (whether such an object can also be unpacked or zipped is the evaluator's question, not the view's)"""
    cache = prog.__dict__.setdefault('_c14_pair_classes', {})
    if module.relpath not in cache:
        out = {}
        for ci in prog.all_classes(src_only=False):
            record = any(b.split('.')[-1] == 'NamedTuple' for b in ci.base_exprs) or \
                (not ci.bases and '__init__' not in ci.methods and '__post_init__' not in ci.methods and
                 any(norm(d.func if isinstance(d, ast.Call) else d).split('.')[-1] == 'dataclass' for d in ci.node.decorator_list))
            if record:
                fields = [f for f, ann in ci.annotated_fields().items() if 'ClassVar' not in norm(ann)]
                if len(fields) == 2:
                    out[id(ci.node)] = fields
        cache[module.relpath] = out
    return cache[module.relpath]


def _pair_fields(prog, module):
    out = {}
    for fields in _pair_classes(prog, module).values():
        for i, f in enumerate(fields):
            if out.setdefault(f, i) != i:
                out[f] = None
    return {f: i for f, i in out.items() if i is not None}


def _pair_methods(prog, module):
    """{name: (is property, returned expression)} for the methods of the pair classes that take only `self` and
    consist of one `return <expr>` (a name two classes define differently is left out)"""
    out = {}
    ids = _pair_classes(prog, module)
    for ci in prog.all_classes(src_only=False):
        if id(ci.node) not in ids:
            continue
        for name, m in ci.methods.items():
            body = [b for b in m.node.body if not (isinstance(b, ast.Expr) and _is_str(b.value))]
            decs = [norm(d) for d in m.node.decorator_list]
            if m.params == ['self'] and len(body) == 1 and isinstance(body[0], ast.Return) and body[0].value is not None \
                    and decs in ([], ['property']) and not isinstance(m.node, ast.AsyncFunctionDef):
                new = (decs == ['property'], body[0].value)
                if name in out and (out[name] is None or norm(out[name][1]) != norm(new[1]) or out[name][0] != new[0]):
                    out[name] = None
                else:
                    out[name] = new
    return {k: v for k, v in out.items() if v is not None}


class _PairLower(ast.NodeTransformer):
    """Cond(text, params) / Cond(sql=text, params=params) of a two-field NamedTuple  ==>  (text, params)"""

    def __init__(self, prog, module):
        self.prog, self.module = prog, module
        self.classes = _pair_classes(prog, module)

    def visit_Call(self, n):
        self.generic_visit(n)
        if not self.classes or any(isinstance(a, ast.Starred) for a in n.args) or any(k.arg is None for k in n.keywords):
            return n
        if isinstance(n.func, ast.Attribute) and n.func.attr == '_make' and len(n.args) == 1 and not n.keywords \
                and isinstance(n.args[0], (ast.Tuple, ast.List)) and len(n.args[0].elts) == 2 \
                and not any(isinstance(x, ast.Starred) for x in n.args[0].elts):
            ci = self.prog.resolve_class_expr(self.module, n.func.value)       # C._make((text, params))
            if ci is not None and id(ci.node) in self.classes and any(b.split('.')[-1] == 'NamedTuple' for b in ci.base_exprs):
                return ast.copy_location(ast.Tuple(elts=list(n.args[0].elts), ctx=ast.Load()), n)
            return n
        ci = self.prog.resolve_class_expr(self.module, n.func)
        fields = self.classes.get(id(ci.node)) if ci is not None else None
        if fields is None:
            return n
        vals = dict(zip(fields, n.args))
        for k in n.keywords:
            if k.arg not in fields or k.arg in vals:
                return n
            vals[k.arg] = k.value
        if len(vals) != 2 or len(n.args) > 2:
            return n
        return ast.copy_location(ast.Tuple(elts=[vals[f] for f in fields], ctx=ast.Load()), n)


def _view(prog, fi, spec=None):
    cache = prog.__dict__.setdefault('_c14_views', {})
    k = (fi.file, fi.qualname, id(fi.node), tuple(sorted((p, repr(v.value)) for p, v in (spec or {}).items())))
    if k not in cache:
        cache[k] = _Expander(prog, fi, spec).run()
    return cache[k]


def _literal_args(callee, c):
    """{parameter: literal} for the arguments of call c that are literals (str / number / bool / None) and whose
    parameter the callee never rebinds: the callee can be read with the literal in the parameter's place"""
    a = callee.node.args
    if a.vararg or a.kwarg or any(isinstance(x, ast.Starred) for x in c.args) or any(k.arg is None for k in c.keywords):
        return {}
    ps = [x.arg for x in a.posonlyargs + a.args]
    if callee.cls is not None and ps[:1] in (['self'], ['cls']) and isinstance(c.func, ast.Attribute):
        ps = ps[1:]
    given = dict(zip(ps, c.args))
    given.update({k.arg: k.value for k in c.keywords if k.arg in ps[len(c.args):] + [x.arg for x in a.kwonlyargs]})
    out = {}
    for p_, v in given.items():
        if isinstance(v, ast.Constant) and isinstance(v.value, (str, int, float, bool, type(None))) \
                and not local_defs(callee.node, p_):
            out[p_] = v
    return out


def _module_name(prog, m, e):
    """what a name or dotted name of module m denotes in the program model (function, class, ('const', module, name),
    module), or None: `NAME`, `alias.NAME`, `pkg.mod.NAME`"""
    def dotted(d, depth=0):
        r = prog.resolve_dotted(d)
        if r is None and depth < 4:
            # `from <module> import *` on the way (the program model follows named re-exports only)
            mod, _, name = d.rpartition('.')
            m2 = prog.by_modname.get(mod)
            if m2 is not None and name in m2.imports and m2.imports[name] != d:
                return dotted(m2.imports[name], depth + 1)
            if m2 is not None and not name.startswith('_'):
                for star in _raw_view(m2)['stars']:
                    r = dotted(f'{star}.{name}', depth + 1)
                    if r is not None:
                        return r
        return r

    if isinstance(e, ast.Name):
        r = prog.resolve_name(m, e.id)
        if r is None and e.id in m.imports:
            r = dotted(m.imports[e.id])
        if r is None and e.id not in m.imports and not e.id.startswith('_'):
            for star in _raw_view(m)['stars']:
                r = r or dotted(f'{star}.{e.id}')
        return r
    d = dotted_name(e) if isinstance(e, ast.Attribute) else None
    if d:
        head, _, rest = d.partition('.')
        if head in m.imports and head not in m.constants and head not in m.functions:
            return dotted(m.imports[head] + '.' + rest)
        ci = m.classes.get(head) or (prog.resolve_name(m, head) if head in m.imports else None)
        if hasattr(ci, 'methods') and rest in ci.methods and \
                [norm(x) for x in ci.methods[rest].node.decorator_list] == ['staticmethod']:
            return ci.methods[rest]            # Class.static_method
    return None


def _const_text(prog, m, e, depth=0):
    """the string a module-level expression of module m denotes (literals, f-strings and sums of those, names of
    module-level constants bound once - own, imported by name or reached through a module alias), or None"""
    if depth > 6 or e is None:
        return None
    if _is_str(e):
        return e.value
    if isinstance(e, ast.JoinedStr):
        parts = [_const_text(prog, m, v.value if isinstance(v, ast.FormattedValue) and v.conversion == -1 and v.format_spec is None else v, depth + 1)
                 for v in e.values]
        return None if any(x is None for x in parts) else ''.join(parts)
    if isinstance(e, ast.BinOp) and isinstance(e.op, ast.Add):
        a, b = _const_text(prog, m, e.left, depth + 1), _const_text(prog, m, e.right, depth + 1)
        return None if a is None or b is None else a + b
    if isinstance(e, (ast.Name, ast.Attribute)):
        r = _module_name(prog, m, e)
        if isinstance(r, tuple) and r[0] == 'const':
            return _const_text(prog, r[1], _module_once(r[1], r[2]), depth + 1)
    return None


def _function_value(prog, m, e, depth=0):
    """the repository function an expression of module m denotes without running anything: a function's name (own
    or imported), a module-level name bound once to one, an entry `TABLE['key']` / `TABLE.get('key'[, default])` of a
    module-level dict display (own or imported, bound once, never stored into) whose values are such names"""
    if depth > 4 or e is None:
        return None
    if isinstance(e, ast.Lambda) and depth > 0:
        from ..loader import FunctionInfo
        node = ast.FunctionDef(name='<lambda>', args=e.args, body=[ast.copy_location(ast.Return(value=e.body), e)], decorator_list=[])
        return FunctionInfo('<lambda>', ast.fix_missing_locations(ast.copy_location(node, e)), m, None)    # a table entry
    if isinstance(e, (ast.Name, ast.Attribute)):
        r = _module_name(prog, m, e)
        if hasattr(r, 'qualname'):
            return r
        if isinstance(r, tuple) and r[0] == 'const':
            return _function_value(prog, r[1], _module_once(r[1], r[2]), depth + 1)
        return None
    key = tbl = None
    if isinstance(e, ast.Subscript):
        key, tbl = e.slice, e.value
    elif isinstance(e, ast.Call) and isinstance(e.func, ast.Attribute) and e.func.attr == 'get' and len(e.args) in (1, 2) and not e.keywords:
        key, tbl = e.args[0], e.func.value
    if not isinstance(key, ast.Constant) or not isinstance(tbl, (ast.Name, ast.Attribute)):
        return None
    r = _module_name(prog, m, tbl)
    if not (isinstance(r, tuple) and r[0] == 'const'):
        return None
    d = _module_once(r[1], r[2])
    if not isinstance(d, ast.Dict) or any(not isinstance(k, ast.Constant) for k in d.keys):
        return None
    hit = [v for k, v in zip(d.keys, d.values) if type(k.value) is type(key.value) and k.value == key.value]
    if not hit and isinstance(e, ast.Call) and len(e.args) == 2:
        return _function_value(prog, m, e.args[1], depth + 1)        # TABLE.get('key', <default>) without such a key
    return _function_value(prog, r[1], hit[-1], depth + 1) if hit else None


def _module_once(m, name):
    """the expression a module-level name is bound to, when it is bound exactly once at module level and the module
    never stores into it or calls a mutating method on it; else None"""
    n = 0
    for st in m.tree.body:
        for t, _, _ in stores_to(st):
            if isinstance(t, ast.Name) and t.id == name:
                n += 1
    if n != 1:
        return None
    for x in ast.walk(m.tree):
        if isinstance(x, ast.Subscript) and isinstance(x.ctx, (ast.Store, ast.Del)) and isinstance(x.value, ast.Name) and x.value.id == name:
            return None
        if isinstance(x, ast.Call) and isinstance(x.func, ast.Attribute) and x.func.attr in MUTATING_METHODS \
                and isinstance(x.func.value, ast.Name) and x.func.value.id == name:
            return None
    return m.constants.get(name)


def _callee(prog, fi, c):
    """the repository function a call runs: the resolver's answer, or - for a call through a local or a table entry -
    the function the expression denotes (see _function_value)"""
    r = resolve_call(prog, fi, c)
    if r is not None:
        return r
    f = c.func
    if isinstance(f, ast.Name) and (local_defs(fi.node, f.id) or f.id in fi.params):
        d = _resolve(fi, f)
        if d is f:
            return None
        f = d
    return _function_value(prog, fi.module, f)


def _block_of(st):
    p = getattr(st, '_parent', None)
    if p is None:
        return None, None
    for _, v in ast.iter_fields(p):
        if isinstance(v, list) and any(x is st for x in v):
            return p, v
    return p, None


def _reaching_def(fn, use, component=False):
    """the value of the one plain assignment `name = value` that reaches this load of a local, or None when some
    other binding of the name may reach it; component=True: (value, index) of the one unpacking `.., name, .. = value`
    that reaches it"""
    name = use.id

    def unpacked(prev):
        if isinstance(prev, ast.Assign) and len(prev.targets) == 1 and isinstance(prev.targets[0], (ast.Tuple, ast.List)):
            for i, t in enumerate(prev.targets[0].elts):
                if isinstance(t, ast.Starred):
                    return None
                if isinstance(t, ast.Name) and t.id == name:
                    return prev.value, i
        return None

    for a in ancestors(use):
        if isinstance(a, _COMPS) and any(name in assigned_names(g.target) for g in a.generators):
            return None
        if isinstance(a, ast.Lambda) or a is fn:
            break
    st = stmt_of(use)
    while st is not None and st is not fn:
        p, blk = _block_of(st)
        if blk is None:
            return None
        i = next(j for j, x in enumerate(blk) if x is st)
        for prev in reversed(blk[:i]):
            if component:
                if unpacked(prev) is not None:
                    return unpacked(prev)
                if local_defs(prev, name):
                    return None
                continue
            if isinstance(prev, ast.Assign) and len(prev.targets) == 1 and isinstance(prev.targets[0], ast.Name) \
                    and prev.targets[0].id == name:
                return prev.value
            if isinstance(prev, ast.AnnAssign) and isinstance(prev.target, ast.Name) and prev.target.id == name \
                    and prev.value is not None:
                return prev.value
            if local_defs(prev, name):
                return None
        if isinstance(p, (ast.For, ast.AsyncFor, ast.While)) and local_defs(p, name):
            return None
        if isinstance(p, (ast.With, ast.AsyncWith)) and local_defs(p, name) and not any(local_defs(b, name) for b in p.body):
            return None
        if isinstance(p, _DEFS):
            break
        st = p if isinstance(p, ast.stmt) else stmt_of(p)
    return None


def _resolve(fi, e):
    """follow a local through its (single or reaching) plain definitions"""
    for _ in range(6):
        if not isinstance(e, ast.Name):
            break
        d = single_def_value(fi.node, e.id)
        if d is None and getattr(e, '_parent', None) is not None:
            d = _reaching_def(fi.node, e)
        if d is None:
            break
        e = d
    return e


# ---------------------------------------------------------------- R2 -----
_R2_CONTROL = '''
def bare(xs):
    a, b = zip(*xs)
    return a, b
def early(xs):
    if len(xs) == 0:
        return (), ()
    a, b = map(list, zip(*xs))
    return a, b
def rebound(xs, ys):
    if not xs:
        return (), ()
    xs = ys
    a, b = zip(*xs)
    return a, b
def display(p, q):
    xs = [p, q]
    a, b = (sum(c) for c in zip(*xs))
    return a, b
def emptied(p, q):
    xs = [p, q]
    xs.clear()
    a, b = zip(*xs)
    return a, b
'''


def _emptiness_fact(e, pol, xs) -> int:
    """+1: `e` having truth value pol implies xs is non-empty; -1: implies xs is empty; 0: says nothing"""
    s = 0
    if norm(e) in (xs, f'len({xs})', f'bool({xs})'):
        s = 1
    elif isinstance(e, ast.Compare) and len(e.ops) == 1:
        left, op, right = norm(e.left), type(e.ops[0]), norm(e.comparators[0])
        flip = {ast.Lt: ast.Gt, ast.Gt: ast.Lt, ast.LtE: ast.GtE, ast.GtE: ast.LtE}
        if right in (f'len({xs})', xs) and left not in (f'len({xs})', xs):
            left, right, op = right, left, flip.get(op, op)
        if left == f'len({xs})':
            s = {(ast.Gt, '0'): 1, (ast.GtE, '1'): 1, (ast.NotEq, '0'): 1,
                 (ast.Eq, '0'): -1, (ast.Lt, '1'): -1, (ast.LtE, '0'): -1}.get((op, right), 0)
        elif left == xs and right in ('[]', '()', 'list()', 'tuple()'):
            s = {ast.NotEq: 1, ast.Eq: -1}.get(op, 0)
    return s if pol else -s


def _zip_unpack_sites(fn):
    """[(assignment, zip call, text of xs)] for `a, b = ...zip(*xs)...`"""
    out = []
    for x in walk_no_nested(fn):
        if isinstance(x, ast.Assign) and any(isinstance(t, (ast.Tuple, ast.List)) for t in x.targets):
            for c in ast.walk(x.value):
                if isinstance(c, ast.Call) and call_name(c) == 'zip' and len(c.args) == 1 \
                        and isinstance(c.args[0], ast.Starred):
                    out.append((x, c, norm(c.args[0].value)))
                    break
    return out


def _rebinds(node, xs) -> bool:
    """does executing this CFG node possibly change (the emptiness of) xs?"""
    st = node.stmt
    if st is None:
        return False
    root = xs.split('.')[0].split('[')[0]
    if node.kind == 'iter':
        return any(norm(t) in (xs, root) for t in _flat_targets(st.target))
    if node.kind == 'with':
        return any(it.optional_vars is not None and norm(t) in (xs, root)
                   for it in st.items for t in _flat_targets(it.optional_vars))
    if node.kind != 'stmt' or isinstance(st, _DEFS):
        return False
    for t, _, _ in stores_to(st):
        if norm(t) in (xs, root) or (isinstance(t, ast.Subscript) and norm(t.value) == xs):
            return True
    for c in calls_in(st):
        if isinstance(c.func, ast.Attribute) and norm(c.func.value) == xs and c.func.attr in ('clear', 'pop', 'remove', 'popitem'):
            return True
    return False


def _flat_targets(t):
    if isinstance(t, (ast.Tuple, ast.List)):
        return [y for e in t.elts for y in _flat_targets(e)]
    if isinstance(t, ast.Starred):
        return _flat_targets(t.value)
    return [t]


def _nonempty_display(v) -> bool:
    """a list / tuple / set display (or list(...) / tuple(...) / sorted(...) of one) with at least one plain element"""
    while isinstance(v, ast.Call) and isinstance(v.func, ast.Name) and v.func.id in ('list', 'tuple', 'sorted') \
            and len(v.args) == 1 and not any(k.arg != 'key' and k.arg != 'reverse' for k in v.keywords):
        v = v.args[0]
    return isinstance(v, (ast.List, ast.Tuple, ast.Set)) and any(not isinstance(e, ast.Starred) for e in v.elts)


def _establishes(node, xs) -> bool:
    """does executing this CFG node bind xs to a collection that is non-empty by construction?"""
    st = node.stmt
    if node.kind != 'stmt' or st is None:
        return False
    if isinstance(st, ast.Assign) and len(st.targets) == 1 and norm(st.targets[0]) == xs:
        return _nonempty_display(st.value)
    if isinstance(st, ast.AnnAssign) and st.value is not None and norm(st.target) == xs:
        return _nonempty_display(st.value)
    return False


def _nonempty_on_every_path(fn, site, zc, xs):
    """a reason why xs is known to be non-empty whenever the unpack runs, or None"""
    if _nonempty_display(zc.args[0].value):
        return 'the unpacked collection is a display with at least one element'
    for t, pol, _ in guards_of(zc):
        if any(_emptiness_fact(a, p, xs) > 0 for a, p in conjuncts(t, pol)):
            return f'evaluated only under `{norm(t)}`' if pol else f'evaluated only when `{norm(t)}` is false'
    g = CFG(fn)
    nodes = {n.id: n for n in g.nodes}
    target = set(g.nodes_of(site))
    if not target:
        return None
    # search over (node, is xs known to be non-empty); the site must be unreachable in the state "not known"
    seen = {(g.entry, False)}
    work = [(g.entry, False)]
    why = None
    while work:
        a, known = work.pop()
        if a in target and not known:
            return None
        n = nodes[a]
        if _establishes(n, xs):
            known = True
            why = why or n.text()
        elif known and _rebinds(n, xs):
            known = False
        for b, lab in g.succ[a]:
            k = known
            if not k and n.kind == 'test' and lab in ('t', 'f') and hasattr(n.stmt, 'test') and \
                    any(_emptiness_fact(at, p, xs) > 0 for at, p in conjuncts(n.stmt.test, lab == 't')):
                k = True
                why = n.text()
            if (b, k) not in seen:
                seen.add((b, k))
                work.append((b, k))
    return f'`{why}` makes the collection non-empty (or sends the empty case elsewhere) on every path to the unpack' if why else None


def rule_unpack(ctx):
    prog = ctx.prog
    # positive control: the matcher and the path search on embedded examples (the obligation is conditional —
    # IF a collection is unpacked with zip(*xs) THEN it is known to be non-empty — so the tree may contain no site)
    tree = _set_parents(ast.parse(_R2_CONTROL))
    got = {}
    for f in tree.body:
        sites = _zip_unpack_sites(f)
        got[f.name] = [(_nonempty_on_every_path(f, s, zc, xs) is not None) for s, zc, xs in sites]
    ctx.control('C14-R2', got == {'bare': [False], 'early': [True], 'rebound': [False], 'display': [True], 'emptied': [False]},
                'embedded zip(*xs) unpack examples: unguarded, guarded by an early return, guard invalidated by a re-binding, '
                'bound to a non-empty display, display emptied before the unpack')
    fns = prog.all_functions() if ctx.tier == 'thorough' else \
        [f for f in prog.all_functions() if f.file.endswith((Q, F))]
    n = 0
    for fi in fns:
        for x, zc, xs in _zip_unpack_sites(fi.node):
            n += 1
            why = _nonempty_on_every_path(fi.node, x, zc, xs)
            ctx.ob('C14-R2', fi, f'{norm(x.targets[0])} = …zip(*{xs})', why is not None,
                   why if why is not None else
                   f'unpacking zip(*{xs}) fails with "not enough values to unpack" when {xs} is empty: '
                   'a filter with no conditions must select everything', line=x.lineno)
    ctx.rules_run.setdefault('C14-R2', {})['found'] = n


# ---------------------------------------------------------------- R3 -----
def _scale(c: Counter, k: int) -> Counter:
    return Counter({s: v * k for s, v in c.items() if v * k})


class _Count:
    """symbolic counting of `?` placeholders in a text expression and of the parameters pushed with it, as linear
    forms over len(<collection>)"""

    def __init__(self, prog, scalars=()):
        self.prog = prog
        self.scalars = set(scalars)  # names of fields of `self` that hold one scalar (not a list)

    # -- helpers
    def sym(self, fi, e, env):
        s = norm(_resolve(fi, e))
        return env.get('@' + s, s)

    def count_of(self, fi, e, env, depth=0) -> Counter | None:
        """an integer expression"""
        if isinstance(e, ast.Name) and '#' + e.id in env and not local_defs(fi.node, e.id):
            return env['#' + e.id]        # an integer parameter of a helper: the count its caller passes
        e = _resolve(fi, e)
        if depth > 6:
            return None
        v = const_value(e)
        if isinstance(v, int) and not isinstance(v, bool) and v >= 0:
            return Counter({'1': v}) if v else Counter()
        if isinstance(e, ast.Call) and call_name(e) == 'len' and len(e.args) == 1:
            return Counter({f'len({self.sym(fi, e.args[0], env)})': 1})
        if isinstance(e, ast.BinOp) and isinstance(e.op, ast.Add):
            a, b = self.count_of(fi, e.left, env, depth + 1), self.count_of(fi, e.right, env, depth + 1)
            return None if a is None or b is None else a + b
        if isinstance(e, ast.BinOp) and isinstance(e.op, ast.Mult):
            for k, o in ((e.left, e.right), (e.right, e.left)):
                kv = const_value(k)
                if isinstance(kv, int) and not isinstance(kv, bool) and kv >= 0:
                    c = self.count_of(fi, o, env, depth + 1)
                    return None if c is None else _scale(c, kv)
        return None

    def marks(self, fi, a, env, depth=0) -> Counter | None:
        """number of `?` contributed by the items of iterable a (the argument of str.join)"""
        a = _resolve(fi, a)
        if depth > 6:
            return None
        if _is_str(a):
            return Counter({'1': a.value.count('?')}) if '?' in a.value else Counter()
        if isinstance(a, (ast.List, ast.Tuple)) and all(_is_str(x) for x in a.elts):
            k = sum(x.value.count('?') for x in a.elts)
            return Counter({'1': k}) if k else Counter()
        if isinstance(a, ast.BinOp) and isinstance(a.op, ast.Mult):
            for seq, cnt in ((a.left, a.right), (a.right, a.left)):
                seq = _resolve(fi, seq)
                if _is_str(seq) or isinstance(seq, (ast.List, ast.Tuple)):
                    base = self.marks(fi, seq, env, depth + 1)
                    c = self.count_of(fi, cnt, env)
                    if base is None or c is None or set(base) - {'1'}:
                        return None
                    return _scale(c, base.get('1', 0))
            return None
        if isinstance(a, (ast.ListComp, ast.GeneratorExp)) and len(a.generators) == 1 and not a.generators[0].ifs \
                and _is_str(a.elt):
            it = a.generators[0].iter
            if isinstance(it, ast.Call) and call_name(it) == 'range' and len(it.args) == 1:
                c = self.count_of(fi, it.args[0], env)
            else:
                c = Counter({f'len({self.sym(fi, it, env)})': 1})
            return None if c is None else _scale(c, a.elt.value.count('?'))
        if isinstance(a, ast.Call) and call_name(a) in ('list', 'tuple') and len(a.args) == 1:
            return self.marks(fi, a.args[0], env, depth + 1)
        return None

    def _param_ok(self, fi, name, env, depth):
        """a str parameter (the table prefix) is taken to carry no placeholder; its local re-bindings must not
        add one"""
        for d in local_defs(fi.node, name):
            v = getattr(d, 'value', None)
            if not isinstance(d, (ast.Assign, ast.AugAssign, ast.AnnAssign)) or v is None:
                return False
            if not (isinstance(d, ast.AugAssign) or norm(getattr(d, 'target', None) or d.targets[0]) == name):
                return False
            # (inductive: the parameter carries none, so a re-binding written in terms of the parameter itself -
            # `table = f'{table}.' if table is not None else ''` - adds none when the rest of it adds none)
            c = self.q(fi, v, {**env, name: Counter()}, depth + 1)
            if c is None or +c:
                return False
        return True

    # -- placeholders in a text expression
    def q(self, fi, e, env=None, depth=0) -> Counter | None:
        env = env or {}
        if depth > 8:
            return None
        if isinstance(e, ast.Constant):
            return Counter({'1': e.value.count('?')}) if isinstance(e.value, str) and '?' in e.value else Counter()
        if isinstance(e, ast.JoinedStr):
            tot = Counter()
            for v in e.values:
                c = self.q(fi, v, env, depth + 1)
                if c is None:
                    return None
                tot += c
            return tot
        if isinstance(e, ast.FormattedValue):
            return self.q(fi, e.value, env, depth + 1)
        if isinstance(e, ast.BinOp) and isinstance(e.op, ast.Add):
            a, b = self.q(fi, e.left, env, depth + 1), self.q(fi, e.right, env, depth + 1)
            return None if a is None or b is None else a + b
        if isinstance(e, ast.BinOp) and isinstance(e.op, ast.Mult):
            for s, cnt in ((e.left, e.right), (e.right, e.left)):
                s = _resolve(fi, s)
                if _is_str(s):
                    c = self.count_of(fi, cnt, env)
                    return None if c is None else _scale(c, s.value.count('?'))
            return None
        if isinstance(e, ast.IfExp):
            a, b = self.q(fi, e.body, env, depth + 1), self.q(fi, e.orelse, env, depth + 1)
            return a if a is not None and b is not None and +a == +b else None
        if isinstance(e, ast.Name):
            if e.id in env:
                return env[e.id]
            if e.id in fi.params and local_defs(fi.node, e.id):
                # a parameter that the function re-binds: every value it may hold (the caller's, each re-binding)
                return Counter() if self._param_ok(fi, e.id, env, depth) else None
            r = _resolve(fi, e)
            if r is not e:
                return self.q(fi, r, env, depth + 1)
            f2 = fi
            while f2 is not None:
                if e.id in f2.params:
                    return Counter() if self._param_ok(f2, e.id, env, depth) else None
                if '.<locals>.' not in f2.qualname:
                    break
                f2 = f2.module.functions.get(f2.qualname.rsplit('.<locals>.', 1)[0])
                if f2 is not None:
                    d = single_def_value(f2.node, e.id)
                    if d is not None:
                        return self.q(f2, d, env, depth + 1)
            shadowed = any(local_defs(g.node, e.id) or e.id in g.params for q_, g in fi.module.functions.items()
                           if fi.qualname == q_ or fi.qualname.startswith(q_ + '.<locals>.'))
            t = None if shadowed else _const_text(self.prog, fi.module, e)   # a module-level text constant (own or imported)
            if t is not None:
                return Counter({'1': t.count('?')}) if '?' in t else Counter()
            return None
        if isinstance(e, ast.Call):
            if isinstance(e.func, ast.Attribute) and e.func.attr == 'join' and len(e.args) == 1 and not e.keywords:
                sep = _resolve(fi, e.func.value)
                if not _is_str(sep) or '?' in sep.value:
                    return None
                return self.marks(fi, e.args[0], env)
            if call_name(e) == 'str' and len(e.args) == 1:
                return self.q(fi, e.args[0], env, depth + 1)
            # a helper of the repository that returns the text: count in its single return, with the lengths
            # expressed in the caller's collections
            callee = _callee(self.prog, fi, e)
            if callee is not None and not e.keywords and not any(isinstance(a, ast.Starred) for a in e.args) \
                    and not isinstance(callee.node, ast.AsyncFunctionDef) \
                    and all(norm(d) in ('staticmethod', 'classmethod') for d in callee.node.decorator_list):
                ps = callee.params
                if callee.cls is not None and ps[:1] in (['self'], ['cls']) and isinstance(e.func, ast.Attribute):
                    ps = ps[1:]
                rets = [n for n in walk_no_nested(callee.node) if isinstance(n, ast.Return)]
                if len(rets) == 1 and rets[0].value is not None and len(e.args) == len(ps):
                    env2 = {'@' + p: self.sym(fi, a, env) for p, a in zip(ps, e.args)}
                    for p, a in zip(ps, e.args):
                        c = self.count_of(fi, a, env)
                        if c is not None:
                            env2['#' + p] = c
                    return self.q(callee, rets[0].value, env2, depth + 1)
            return None
        if isinstance(e, ast.Attribute) and norm(e) in ('self._where_clause',):
            return Counter()
        if isinstance(e, ast.Attribute) and _root_name(e) not in fi.params and not local_defs(fi.node, _root_name(e) or ''):
            t = _const_text(self.prog, fi.module, e)      # alias.CONSTANT of another module
            if t is not None:
                return Counter({'1': t.count('?')}) if '?' in t else Counter()
        return None

    # -- parameters pushed with it
    def _grown(self, fi, name, env, depth):
        """a local list that is changed in place after it is bound: (is it?, its length when every change is an
        unconditional append / extend / += in the function's own statement list, else None)"""
        pushes = []
        for x in walk_no_nested(fi.node):
            if isinstance(x, ast.Call) and isinstance(x.func, ast.Attribute) and x.func.attr in MUTATING_METHODS \
                    and isinstance(x.func.value, ast.Name) and x.func.value.id == name:
                pushes.append(stmt_of(x))
            elif isinstance(x, ast.AugAssign) and isinstance(x.target, ast.Name) and x.target.id == name:
                pushes.append(x)
            elif isinstance(x, ast.Subscript) and isinstance(x.ctx, (ast.Store, ast.Del)) and isinstance(x.value, ast.Name) \
                    and x.value.id == name:
                pushes.append(None)
        if not pushes:
            return False, None
        init = single_def_value(fi.node, name)
        tot = self.p(fi, init, env, depth + 1) if isinstance(init, (ast.List, ast.Tuple, ast.Call)) else None
        if tot is None:
            return True, None
        for st in pushes:
            if st is None or not any(st is b for b in fi.node.body):
                return True, None
            if isinstance(st, ast.AugAssign) and isinstance(st.op, ast.Add):
                c = self.p(fi, st.value, env, depth + 1)
            elif isinstance(st, ast.Expr) and isinstance(st.value, ast.Call) and len(st.value.args) == 1 and not st.value.keywords \
                    and st.value.func.attr in ('append', 'extend'):
                c = Counter({'1': 1}) if st.value.func.attr == 'append' else self.p(fi, st.value.args[0], env, depth + 1)
            else:
                c = None
            if c is None:
                return True, None
            tot = tot + c
        return True, tot

    def p(self, fi, e, env=None, depth=0) -> Counter | None:
        env = env or {}
        if depth > 6:
            return None
        if isinstance(e, ast.Name) and local_defs(fi.node, e.id):
            grown, tot = self._grown(fi, e.id, env, depth)
            if grown:
                return tot
        e = _resolve(fi, e)
        if isinstance(e, (ast.List, ast.Tuple)):
            tot = Counter()
            for x in e.elts:
                c = self.p(fi, x.value, env, depth + 1) if isinstance(x, ast.Starred) else Counter({'1': 1})
                if c is None:
                    return None
                tot += c
            return tot
        if isinstance(e, ast.BinOp) and isinstance(e.op, ast.Add):
            a, b = self.p(fi, e.left, env, depth + 1), self.p(fi, e.right, env, depth + 1)
            return None if a is None or b is None else a + b
        if isinstance(e, ast.BinOp) and isinstance(e.op, ast.Mult):
            for k, o in ((e.left, e.right), (e.right, e.left)):
                kv = const_value(k)
                if isinstance(kv, int) and not isinstance(kv, bool) and kv >= 0:
                    c = self.p(fi, o, env, depth + 1)
                    return None if c is None else _scale(c, kv)
            return None
        if isinstance(e, ast.IfExp):
            a, b = self.p(fi, e.body, env, depth + 1), self.p(fi, e.orelse, env, depth + 1)
            return a if a is not None and b is not None and +a == +b else None
        if isinstance(e, ast.Call) and call_name(e) in ('list', 'tuple', 'sorted') and len(e.args) == 1:
            return self.p(fi, e.args[0], env, depth + 1)
        if isinstance(e, ast.Call) and call_name(e) in ('list', 'tuple') and not e.args and not e.keywords:
            return Counter()
        if isinstance(e, ast.Call) and isinstance(e.func, ast.Attribute) and e.func.attr == 'copy' and not e.args:
            return self.p(fi, e.func.value, env, depth + 1)
        if isinstance(e, ast.Subscript) and isinstance(e.slice, ast.Slice) and e.slice.lower is None \
                and e.slice.upper is None and e.slice.step is None:
            return self.p(fi, e.value, env, depth + 1)
        if isinstance(e, ast.Constant) and not isinstance(e.value, (str, bytes)) and e.value is not None:
            return Counter({'1': 1})
        if isinstance(e, ast.Attribute) and norm(e.value) == 'self' and e.attr in self.scalars:
            return Counter({'1': 1})
        if isinstance(e, (ast.ListComp, ast.GeneratorExp)) and len(e.generators) == 1 and not e.generators[0].ifs \
                and not e.generators[0].is_async and not isinstance(e.elt, ast.Starred):
            # one parameter per item of the collection iterated
            return self.p(fi, e.generators[0].iter, env, depth + 1)
        # a helper / method / property of the repository that returns the parameters: what every one of its returns
        # hands out, with the lengths expressed in the caller's collections
        callee, bound = None, {}
        if isinstance(e, ast.Call) and not any(isinstance(a, ast.Starred) for a in e.args) and all(k.arg for k in e.keywords):
            if call_name(e).split('.')[-1] == 'astuple' and len(e.args) == 1 and not e.keywords and \
                    fi.module.imports.get(call_name(e).split('.')[0]) in ('dataclasses', 'dataclasses.astuple'):
                ci = expr_class(self.prog, fi, e.args[0])
                return Counter({'1': len(ci.all_fields())}) if ci is not None and ci.all_fields() else None
            callee = resolve_call(self.prog, fi, e)
            if callee is not None:
                ps = list(callee.params)
                if callee.cls is not None and ps[:1] in (['self'], ['cls']) and isinstance(e.func, ast.Attribute):
                    bound['@' + ps[0]] = self.sym(fi, e.func.value, env)
                    ps = ps[1:]
                if len(e.args) > len(ps) or any(k.arg not in ps[len(e.args):] for k in e.keywords):
                    return None
                bound.update({'@' + q: self.sym(fi, a, env) for q, a in zip(ps, e.args)})
                bound.update({'@' + k.arg: self.sym(fi, k.value, env) for k in e.keywords})
        elif isinstance(e, ast.Attribute):
            owner = expr_class(self.prog, fi, e.value)
            meth = owner.find_method(e.attr) if owner is not None and e.attr not in owner.all_fields() else None
            if meth is not None and any('property' in d for d in meth.decorators()) and meth.params[:1] == ['self']:
                callee, bound = meth, {'@self': self.sym(fi, e.value, env)}
        if callee is not None:
            if isinstance(callee.node, ast.AsyncFunctionDef) or \
                    any(isinstance(n, (ast.Yield, ast.YieldFrom)) for n in walk_no_nested(callee.node)):
                return None
            rets = [n for n in walk_no_nested(callee.node) if isinstance(n, ast.Return)]
            got = [self.p(callee, r.value, bound, depth + 1) if r.value is not None else None for r in rets]
            if not got or any(g is None for g in got) or any(+g != +got[0] for g in got):
                return None
            return got[0]
        if isinstance(e, ast.Call):
            return None
        if isinstance(e, ast.Name) and '@' + e.id not in env and e.id not in fi.params and not local_defs(fi.node, e.id):
            # a module-level table (bound once to a display): as many parameters as it has rows
            v = _module_values(fi).get(e.id)
            if isinstance(v, (ast.List, ast.Tuple)) and not any(isinstance(x, ast.Starred) for x in v.elts):
                return Counter({'1': len(v.elts)}) if v.elts else Counter()
        if isinstance(e, (ast.Attribute, ast.Name)):
            return Counter({f'len({self.sym(fi, e, env)})': 1})
        return None


def _sink_of(t):
    """how a tuple enters a list of conditions: ('push', <receiver>), ('bind', <name>), ('ret', None) or None;
    ('ret1', None) when the tuple itself (or None instead of it) is what the function returns"""
    p = getattr(t, '_parent', None)
    x = t
    while isinstance(p, ast.IfExp) and x is not p.test:
        x, p = p, getattr(p, '_parent', None)
    if isinstance(p, ast.Return):
        return 'ret1', None
    p = getattr(t, '_parent', None)
    if isinstance(p, ast.Call) and isinstance(p.func, ast.Attribute) and p.func.attr in ('append', 'insert') \
            and p.args and p.args[-1] is t:
        return 'push', norm(p.func.value)
    if not isinstance(p, ast.List):
        return None
    x = p
    while True:
        q = getattr(x, '_parent', None)
        if isinstance(q, (ast.List, ast.Starred)) or (isinstance(q, ast.IfExp) and x is not q.test) or \
                (isinstance(q, ast.BinOp) and isinstance(q.op, ast.Add)) or \
                (isinstance(q, ast.Call) and call_name(q) in ('list', 'tuple') and x in q.args):
            x = q
            continue
        break
    if isinstance(q, ast.Return):
        return 'ret', None
    if isinstance(q, ast.Assign) and len(q.targets) == 1 and isinstance(q.targets[0], ast.Name) and q.value is x:
        return 'bind', q.targets[0].id
    if isinstance(q, ast.AnnAssign) and isinstance(q.target, ast.Name) and q.value is x:
        return 'bind', q.target.id
    if isinstance(q, ast.AugAssign) and isinstance(q.op, ast.Add) and q.value is x:
        return 'push', norm(q.target)
    if isinstance(q, ast.Call) and isinstance(q.func, ast.Attribute) and q.func.attr == 'extend' and x in q.args:
        return 'push', norm(q.func.value)
    return None


def _pairs_into(view, lists=None, single=False):
    """2-tuples that enter a list of conditions of this function: a returned list, or one of the named lists;
    single=True: the 2-tuples the function returns as such (a builder of one condition, or of None)"""
    if lists is None:
        lists = set()
        for r in walk_no_nested(view.node):
            if isinstance(r, ast.Return) and r.value is not None:
                lists |= {x.id for x in ast.walk(r.value) if isinstance(x, ast.Name)}
    out = []
    for t in walk_no_nested(view.node):
        if isinstance(t, ast.Tuple) and len(t.elts) == 2 and isinstance(t.ctx, ast.Load):
            s = _sink_of(t)
            if s is not None and (s[0] == 'ret1') == single and (s[0] in ('ret', 'ret1') or s[1] in lists):
                out.append(t)
    out.sort(key=lambda t: (t.lineno, t.col_offset))
    return out


def _list_inflows(view):
    """(receiver name, expression) for every statement that adds to / binds a local list"""
    for x in walk_no_nested(view.node):
        if isinstance(x, ast.Assign) and len(x.targets) == 1 and isinstance(x.targets[0], ast.Name):
            yield x.targets[0].id, x.value
        elif isinstance(x, ast.AugAssign) and isinstance(x.op, ast.Add) and isinstance(x.target, ast.Name):
            yield x.target.id, x.value
        elif isinstance(x, ast.Call) and isinstance(x.func, ast.Attribute) and isinstance(x.func.value, ast.Name) \
                and x.func.attr in ('append', 'extend', 'insert') and x.args:
            yield x.func.value.id, x.args[-1]


def _listify_subject(e):
    """X for `X if isinstance(X, list) else [X]` (either polarity), else None"""
    if not isinstance(e, ast.IfExp):
        return None
    t, a, b = e.test, e.body, e.orelse
    if isinstance(t, ast.UnaryOp) and isinstance(t.op, ast.Not):
        t, a, b = t.operand, b, a
    x = _isinstance_list(t)
    if x is not None and norm(a) == norm(x) and isinstance(b, (ast.List, ast.Tuple)) and len(b.elts) == 1 \
            and norm(b.elts[0]) == norm(x):
        return x
    return None


def _isinstance_list(t):
    """X for the test `isinstance(X, list)`"""
    if isinstance(t, ast.Call) and call_name(t) == 'isinstance' and len(t.args) == 2 \
            and norm(t.args[1]) in ('list', '(list, tuple)', '(tuple, list)', 'list | tuple', 'tuple | list'):
        return t.args[0]
    return None


class _Flatten:
    """abstract evaluation of the step that turns the list of (text, parameters) pairs into the WHERE text and one
    flat parameter list.  Values: 'conds' (the pair list), 'firsts' / 'seconds' (its components, in order),
    'listified' (seconds, each wrapped into a list unless it is one), 'flat' (seconds flattened in order),
    ('pair', a, b), ('join', sep, v), ('str', s), 'empty', ('bad', why), None (unknown)."""

    def __init__(self, view, conds: str, fields=None, methods=None, kinds=None):
        self.fn = view.node
        self.C = conds
        self.bound = {}
        # how the pairs entering the list hold their parameters: {'list' | 'scalar' | '?': an example}; not given: the
        # range bounds are known to be pushed as scalars
        self.kinds = {'scalar': 'a range bound'} if kinds is None else kinds
        self.fields = fields or {}  # component names of pair classes: {'sql': 0, 'params': 1}
        self.methods = methods or {}  # one-expression methods / properties of pair classes: {'flat': (False, <expr>)}

    def elem(self, e):
        """what one loop / comprehension element expression denotes"""
        if isinstance(e, ast.Name):
            return self.bound.get(e.id)
        if isinstance(e, ast.Subscript) and isinstance(e.value, ast.Name) and self.bound.get(e.value.id) == 'e12':
            i = const_value(e.slice)
            return {0: 'e1', 1: 'e2', -2: 'e1', -1: 'e2'}.get(i)
        if isinstance(e, ast.Attribute) and isinstance(e.value, ast.Name) and self.bound.get(e.value.id) == 'e12':
            if e.attr not in self.fields and self.methods.get(e.attr, (False,))[0]:
                return self._through(self.methods[e.attr][1])
            return {0: 'e1', 1: 'e2'}.get(self.fields.get(e.attr))
        if isinstance(e, ast.Call) and not e.args and not e.keywords and isinstance(e.func, ast.Attribute) \
                and isinstance(e.func.value, ast.Name) and self.bound.get(e.func.value.id) == 'e12' \
                and e.func.attr in self.methods and not self.methods[e.func.attr][0]:
            return self._through(self.methods[e.func.attr][1])
        x = _listify_subject(e)
        if x is not None and self.elem(x) == 'e2':
            return 'eL'
        return None

    def _through(self, expr):
        """what a method / property of the element's class returns: its expression read with `self` = the element"""
        if getattr(self, '_nest', 0) > 2:
            return None
        saved = self.bound.get('self')
        self.bound['self'] = 'e12'
        self._nest = getattr(self, '_nest', 0) + 1
        try:
            return self.elem(expr)
        finally:
            self._nest -= 1
            if saved is None:
                self.bound.pop('self', None)
            else:
                self.bound['self'] = saved

    def bind(self, target, it):
        """bind loop targets for iteration over abstract value it; False if not understood"""
        if it == 'conds':
            if isinstance(target, (ast.Tuple, ast.List)) and len(target.elts) == 2 and \
                    all(isinstance(x, ast.Name) for x in target.elts):
                self.bound[target.elts[0].id] = 'e1'
                self.bound[target.elts[1].id] = 'e2'
                return True
            if isinstance(target, ast.Name):
                self.bound[target.id] = 'e12'
                return True
            return False
        tag = {'firsts': 'e1', 'seconds': 'e2', 'listified': 'eL'}.get(it)
        if tag and isinstance(target, ast.Name):
            self.bound[target.id] = tag
            return True
        return False

    def comp(self, c, depth):
        gens = c.generators
        if any(g.ifs or g.is_async for g in gens) or len(gens) > 2:
            return None
        if not self.bind(gens[0].target, self.val(gens[0].iter, depth + 1)):
            return None
        if len(gens) == 1:
            return {'e1': 'firsts', 'e2': 'seconds', 'eL': 'listified', 'e12': 'conds'}.get(self.elem(c.elt))
        inner = self.elem(gens[1].iter)
        if not isinstance(gens[1].target, ast.Name) or not isinstance(c.elt, ast.Name) or c.elt.id != gens[1].target.id:
            return None
        if inner == 'eL':
            return 'flat'
        if inner == 'e2':
            return self.as_lists('each parameter entry is iterated as if it were a list')
        return None

    def as_lists(self, what):
        """the parameter entries are used as lists: right when every pair holds a list, wrong when one holds a scalar"""
        if 'scalar' in self.kinds:
            return 'bad', f'{what}, but {self.kinds["scalar"]} is pushed as a scalar'
        return 'flat' if set(self.kinds) == {'list'} else None

    def accumulated(self, name, depth):
        """a local initialised to an empty list and filled inside one loop over the pairs"""
        defs = local_defs(self.fn, name)
        init = [d for d in defs if isinstance(d, (ast.Assign, ast.AnnAssign))]
        if len(init) != 1 or any(not isinstance(d, (ast.Assign, ast.AnnAssign, ast.AugAssign)) for d in defs):
            return None
        iv = init[0].value
        if not ((isinstance(iv, ast.List) and not iv.elts) or (isinstance(iv, ast.Call) and call_name(iv) == 'list' and not iv.args)):
            return None
        muts = [d for d in defs if isinstance(d, ast.AugAssign)]
        for x in walk_no_nested(self.fn):
            if isinstance(x, ast.Call) and isinstance(x.func, ast.Attribute) and x.func.attr in MUTATING_METHODS \
                    and isinstance(x.func.value, ast.Name) and x.func.value.id == name:
                muts.append(stmt_of(x))
        if not muts:
            return None
        loops = {id(a): a for m in muts for a in ancestors(m) if isinstance(a, (ast.For, ast.While, ast.AsyncFor))}
        if len(loops) != 1:
            return None
        loop = next(iter(loops.values()))
        if not isinstance(loop, ast.For) or loop.orelse or _jumps(loop.body, (ast.Break, ast.Continue)) \
                or any(x is loop for x in ancestors(init[0])):
            return None
        if not self.bind(loop.target, self.val(loop.iter, depth + 1)):
            return None
        units = [s for s in loop.body if any(m is s or any(a is s for a in ancestors(m)) for m in muts)]
        if len(units) != 1:
            return None
        u = units[0]

        def push(st):
            """('append' | 'extend', element expression) of a single statement pushing onto `name`"""
            if isinstance(st, ast.AugAssign) and isinstance(st.op, ast.Add) and norm(st.target) == name:
                v = st.value
                if isinstance(v, (ast.List, ast.Tuple)) and len(v.elts) == 1 and not isinstance(v.elts[0], ast.Starred):
                    return 'append', v.elts[0]
                return 'extend', v
            if isinstance(st, ast.Expr) and isinstance(st.value, ast.Call) and isinstance(st.value.func, ast.Attribute) \
                    and norm(st.value.func.value) == name and len(st.value.args) == 1 and not st.value.keywords:
                if st.value.func.attr in ('append', 'extend'):
                    return st.value.func.attr, st.value.args[0]
            return None

        pu = push(u)
        if pu is not None:
            how, e = pu
            tag = self.elem(e)
            if how == 'append':
                return {'e1': 'firsts', 'e2': 'seconds', 'eL': 'listified', 'e12': 'conds'}.get(tag)
            if tag == 'eL':
                return 'flat'
            if tag == 'e2':
                return self.as_lists('each parameter entry is extended as if it were a list')
            return None
        if isinstance(u, ast.If) and len(real_body(u.body)) == 1 and len(real_body(u.orelse)) == 1:
            t, a, b = u.test, real_body(u.body)[0], real_body(u.orelse)[0]
            if isinstance(t, ast.UnaryOp) and isinstance(t.op, ast.Not):
                t, a, b = t.operand, b, a
            x = _isinstance_list(t)
            pa, pb = push(a), push(b)
            if x is not None and self.elem(x) == 'e2' and pa is not None and pb is not None \
                    and pa[0] == 'extend' and pb[0] == 'append' and norm(pa[1]) == norm(x) and norm(pb[1]) == norm(x):
                return 'flat'
        return None

    def val(self, e, depth=0):
        if e is None or depth > 10:
            return None
        if isinstance(e, ast.Name):
            if e.id == self.C:
                return 'conds'
            tc = tuple_def_component(self.fn, e.id)
            if tc is not None:
                v = self.val(tc[0], depth + 1)
                if isinstance(v, tuple) and v[0] == 'pair' and tc[1] < 2:
                    return v[1 + tc[1]]
                return None
            acc = self.accumulated(e.id, depth)
            if acc is not None:
                return acc
            d = single_def_value(self.fn, e.id)
            return self.val(d, depth + 1) if d is not None else None
        if isinstance(e, ast.Constant) and isinstance(e.value, str):
            return 'str', e.value
        if isinstance(e, (ast.List, ast.Tuple)) and not e.elts:
            return 'empty'
        if isinstance(e, (ast.ListComp, ast.GeneratorExp)):
            return self.comp(e, depth)
        if isinstance(e, ast.Subscript):
            v = self.val(e.value, depth + 1)
            i = const_value(e.slice)
            if isinstance(v, tuple) and v[0] == 'pair' and i in (0, 1):
                return v[1 + i]
            return None
        if isinstance(e, ast.Call):
            cn = call_name(e)
            if cn in ('list', 'tuple', 'iter') and len(e.args) == 1 and not e.keywords:
                return self.val(e.args[0], depth + 1)
            if cn == 'list' and not e.args:
                return 'empty'
            if cn == 'zip' and len(e.args) == 1 and isinstance(e.args[0], ast.Starred):
                return ('pair', 'firsts', 'seconds') if self.val(e.args[0].value, depth + 1) == 'conds' else None
            if cn == 'map' and len(e.args) == 2 and norm(e.args[0]) in ('list', 'tuple'):
                v = self.val(e.args[1], depth + 1)
                return v if isinstance(v, tuple) and v[0] == 'pair' else None
            if isinstance(e.func, ast.Attribute) and e.func.attr == 'join' and len(e.args) == 1 and _is_str(e.func.value):
                return 'join', e.func.value.value, self.val(e.args[0], depth + 1)
            flat_of = None
            if cn.endswith('chain.from_iterable') and len(e.args) == 1:
                flat_of = e.args[0]
            elif cn.split('.')[-1] == 'chain' and len(e.args) == 1 and isinstance(e.args[0], ast.Starred):
                flat_of = e.args[0].value
            elif cn == 'sum' and len(e.args) == 2 and self.val(e.args[1], depth + 1) == 'empty':
                flat_of = e.args[0]
            if flat_of is not None:
                v = self.val(flat_of, depth + 1)
                if v == 'listified':
                    return 'flat'
                if v == 'seconds':
                    return self.as_lists('the parameter entries are chained as if each were a list')
            return None
        return None


def _text_constant(fi, e, depth=0) -> str:
    """the literal part of a text expression, in source order, locals followed to their definitions"""
    if depth > 4:
        return ''
    if isinstance(e, ast.Name):
        r = _resolve(fi, e)
        return '' if r is e else _text_constant(fi, r, depth + 1)
    if _is_str(e):
        return e.value
    if isinstance(e, ast.Call) and not (isinstance(e.func, ast.Attribute) and e.func.attr == 'format'):
        return ''
    return ''.join(_text_constant(fi, ch, depth) for ch in ast.iter_child_nodes(e))


def _argument_env(callee, c, caller):
    """{parameter: the caller's argument expression (locals of the caller followed)} for call c of callee, for the
    parameters the callee never rebinds; {} when the call cannot be matched to the signature"""
    a = callee.node.args
    if a.vararg or a.kwarg or any(isinstance(x, ast.Starred) for x in c.args) or any(k.arg is None for k in c.keywords):
        return {}
    ps = [x.arg for x in a.posonlyargs + a.args]
    if callee.cls is not None and ps[:1] in (['self'], ['cls']) and isinstance(c.func, ast.Attribute):
        ps = ps[1:]
    if len(c.args) > len(ps):
        return {}
    given = dict(zip(ps, c.args))
    for k in c.keywords:
        if k.arg in given or k.arg not in ps + [x.arg for x in a.kwonlyargs]:
            return {}
        given[k.arg] = k.value
    return {p_: _resolve(caller, v) for p_, v in given.items() if not local_defs(callee.node, p_)}


def _sole_parameter(fi, e):
    """the parameters of a pair, locals followed; a group of exactly one (`[x]`, `(x,)`, `list((x,))`) is that one"""
    e = _resolve(fi, e)
    for _ in range(3):
        if isinstance(e, ast.Call) and call_name(e) in ('list', 'tuple') and len(e.args) == 1 and not e.keywords:
            e = _resolve(fi, e.args[0])
        elif isinstance(e, (ast.List, ast.Tuple)) and len(e.elts) == 1 and not isinstance(e.elts[0], ast.Starred):
            return _resolve(fi, e.elts[0])
        else:
            break
    return e


def _param_kind(fi, e, scalars, depth=0) -> str:
    """how the second component of a (text, parameters) pair holds its values: 'list' (a list of them), 'scalar' (the one
    value itself) or '?'"""
    e = _resolve(fi, e)
    if depth > 4:
        return '?'
    if isinstance(e, (ast.List, ast.ListComp)):
        return 'list'
    if isinstance(e, ast.Call) and call_name(e) in ('list', 'sorted') and len(e.args) <= 1:
        return 'list'
    if isinstance(e, ast.Call) and call_name(e) in ('int', 'float', 'str', 'round', 'abs'):
        return 'scalar'
    if isinstance(e, ast.Call) and isinstance(e.func, ast.Attribute) and e.func.attr == 'copy' and not e.args:
        return _param_kind(fi, e.func.value, scalars, depth + 1)
    if isinstance(e, ast.Subscript) and isinstance(e.slice, ast.Slice):
        return _param_kind(fi, e.value, scalars, depth + 1)
    if isinstance(e, ast.BinOp) and isinstance(e.op, (ast.Add, ast.Mult)):
        ks = {_param_kind(fi, e.left, scalars, depth + 1), _param_kind(fi, e.right, scalars, depth + 1)}
        return 'list' if 'list' in ks and isinstance(e.op, ast.Add) or ks == {'list', 'scalar'} else '?'
    if isinstance(e, ast.IfExp):
        ks = {_param_kind(fi, e.body, scalars, depth + 1), _param_kind(fi, e.orelse, scalars, depth + 1)}
        return ks.pop() if len(ks) == 1 else '?'
    if isinstance(e, ast.Constant) and isinstance(e.value, (int, float, str)):
        return 'scalar'
    if isinstance(e, ast.Attribute) and norm(e.value) == 'self' and fi.cls is not None:
        if e.attr in scalars:
            return 'scalar'
        ann = fi.cls.all_fields().get(e.attr)
        if ann is not None and 'list' in norm(ann):
            return 'list'       # `str | list[str] | None`, a list once the filter is normalised (R5)
    return '?'


def _pair_component(prog, fi, e, fields):
    """what an expression that reads one component of a (text, parameters) pair denotes: `n`, bound by the unpacking
    `.., n, .. = <pair>` that reaches the use, `n[<0 | 1>]`, or `n.<field>` of a pair class.  ('filter', i) when the
    pair is what Filter.to_sql returned, the component's expression when the pair is a display; e itself when it
    is not such a read; ('?', i) when the pair is something else"""
    src = None
    if isinstance(e, ast.Name):
        src = tuple_def_component(fi.node, e.id)
        if src is None and getattr(e, '_parent', None) is not None and local_defs(fi.node, e.id):
            src = _reaching_def(fi.node, e, component=True)
            if src is None and _resolve(fi, e) is e:
                return '?', -1              # a loop variable, a name bound in several places: not followed
        if src is None:
            return e
    elif isinstance(e, ast.Attribute) and isinstance(e.value, ast.Name) and e.attr in fields \
            and local_defs(fi.node, e.value.id):
        src = e.value, fields[e.attr]
    elif isinstance(e, ast.Subscript) and isinstance(e.value, ast.Name) and const_value(e.slice) in (0, 1) \
            and local_defs(fi.node, e.value.id):
        src = e.value, const_value(e.slice)
    if src is None:
        return e
    pair, i = _resolve(fi, src[0]), src[1]
    if isinstance(pair, ast.Tuple) and len(pair.elts) == 2 and i < 2 and not any(isinstance(x, ast.Starred) for x in pair.elts):
        return pair.elts[i]
    if isinstance(pair, ast.Call):
        callee = resolve_call(prog, fi, pair)
        if callee is not None and callee.module is prog.module(F) and callee.qualname == 'Filter.to_sql':
            return 'filter', i
    return '?', i


def rule_placeholders(ctx):
    prog = ctx.prog
    fm = prog.module(F)
    fcls = prog.cls(F, 'Filter')
    numeric = _numeric_optionals(fcls)
    cnt = _Count(prog, numeric)
    ts = fcls.find_method('to_sql')
    tv = _view(prog, ts)
    pfields = _pair_fields(prog, fm)
    pmeths = _pair_methods(prog, fm)
    # condition builders: the other methods of Filter that return (text, parameters) pairs
    # ... and the module-level functions of the filter module that to_sql reaches and that return such pairs
    # (`_membership(column, values)` called once per IN-list attribute)
    generic = {}
    single = {}
    helpers = [f for f in closure(prog, [ts]) if f.module is fm and f.cls is None and '.<locals>.' not in f.qualname]
    for m in list(fcls.methods.values()) + sorted(helpers, key=lambda f: f.qualname):
        if m is ts or m.qualname == ts.qualname or m.qualname in generic:
            continue
        v = _view(prog, m)
        pairs = _pairs_into(v)
        if pairs:
            generic[m.qualname] = (m, v, pairs)
        elif _pairs_into(v, single=True):
            # returns one pair (or None): a builder where its result is put into a list of conditions (found below)
            single[m.qualname] = (m, v, _pairs_into(v, single=True))
    # the list of pairs in to_sql: the local that receives the builders' results / pushed pairs.  A builder that
    # to_sql calls with literal arguments (`self._region_condition(table, 'airport')`, also from an unrolled loop over a
    # literal table) is read once per argument tuple, with the literal in the parameter's place: three calls of one
    # parametrised method are three builders, exactly as three methods are
    # The result of a builder also arrives when it comes through another function of the filter module that returns
    # it (`self._spatial_conditions(prefix)` returning the sum of the four region builders' lists), or through another
    # local list of to_sql that is added to / re-wrapped into this one (`[Condition(s, list(p)) for s, p in spatial]`).
    builders = {}
    into = {}
    returned = {}
    calls = {}

    def taken_in(view, e, depth=0):
        """labels of the builders whose result the expression e of `view` takes in"""
        out = set()
        for c in [x for x in ast.walk(e) if isinstance(x, ast.Call)]:
            callee = resolve_call(prog, view, c)
            if callee is None or callee.module is not fm or callee.qualname == ts.qualname:
                continue
            if callee.qualname in single and callee.qualname not in generic:
                generic[callee.qualname] = single[callee.qualname]
            if callee.qualname in generic:
                spec = _literal_args(callee, c)
                label = callee.qualname + ('[' + ', '.join(f'{k}={v.value!r}' for k, v in sorted(spec.items())) + ']' if spec else '')
                if label not in builders:
                    v = _view(prog, generic[callee.qualname][0], spec) if spec else generic[callee.qualname][1]
                    builders[label] = (v, _pairs_into(v, single=callee.qualname in single))
                calls.setdefault(label, []).append((view, c, callee))
                out.add(label)
            if depth < 4 and '.<locals>.' not in callee.qualname:
                out |= handed_on(callee, depth + 1)
        return out

    def handed_on(g, depth):
        """labels of the builders whose result function g returns as (part of) its own"""
        if g.qualname not in returned:
            returned[g.qualname] = set()          # (recursion: nothing new on the way round)
            v = _view(prog, g)
            out, names = set(), set()
            for r in walk_no_nested(v.node):
                if isinstance(r, ast.Return) and r.value is not None:
                    out |= taken_in(v, r.value, depth)
                    names |= {x.id for x in ast.walk(r.value) if isinstance(x, ast.Name)}
            for name, e in _list_inflows(v):
                if name in names:
                    out |= taken_in(v, e, depth)
            returned[g.qualname] = out
        return returned[g.qualname]

    mentions = {}
    for name, e in _list_inflows(tv):
        got = taken_in(tv, e)
        if got:
            into.setdefault(name, set()).update(got)
        mentions.setdefault(name, set()).update(x.id for x in ast.walk(e) if isinstance(x, ast.Name) and isinstance(x.ctx, ast.Load))
    for _ in range(len(mentions)):
        grew = False
        for name, ms in mentions.items():
            for m_ in ms:
                if m_ != name and into.get(m_) and not into[m_] <= into.get(name, set()):
                    into.setdefault(name, set()).update(into[m_])
                    grew = True
        if not grew:
            break
    for q, (m, v, pairs) in generic.items():
        # (a Filter method returning a list of pairs is a builder whether or not to_sql uses it - its conditions may have
        # been forgotten; a module-level function is one when its result is put into a list of conditions somewhere)
        if not any(lb == q or lb.startswith(q + '[') for lb in builders) and m.cls is not None and q not in single:
            builders[q] = (v, pairs)
    ctx.floor('C14-R3/builders', len(builders), 4, 'condition builders of Filter (methods returning (text, parameters) pairs, '
              'counted once per tuple of literal arguments to_sql calls them with)')
    cands = set(into)
    for t in walk_no_nested(tv.node):
        if isinstance(t, ast.Tuple) and len(t.elts) == 2 and isinstance(t.ctx, ast.Load):
            s = _sink_of(t)
            if s is not None and s[0] in ('push', 'bind') and s[1].isidentifier():
                cands.add(s[1])
    rets = []
    for r in walk_no_nested(tv.node):
        if isinstance(r, ast.Return) and r.value is not None:
            v = _resolve(tv, r.value)
            if isinstance(v, ast.Tuple) and len(v.elts) == 2:
                rets.append((r, v))
    # … is the one the returned text is joined from
    shaped = []
    for c in sorted(cands):
        for r, v in rets:
            tvv = _Flatten(tv, c, pfields, pmeths).val(v.elts[0])
            if isinstance(tvv, tuple) and tvv[0] == 'join' and tvv[2] == 'firsts':
                shaped.append(c)
                break
    if len(shaped) != 1:
        ctx.undecided('C14-R3', tv, 'to_sql return value',
                      f'cannot identify the list of (text, parameters) pairs the WHERE text is joined from (candidates: {sorted(cands)})')
    conds = shaped[0]
    for q, (v, _) in sorted(builders.items()):
        ok = q in into.get(conds, ())
        ctx.ob('C14-R3', tv, f'conditions of {q} are part of the WHERE clause', ok,
               f'its result is added to `{conds}`' if ok else
               f'{q} builds conditions that never reach the list the WHERE clause is built from: those filters are ignored')
    # closures that push pairs but could not be merged into their caller
    for v in [tv] + [b[0] for b in builders.values()]:
        pref = v.qualname + '.<locals>.'
        for q, g in fm.functions.items():
            if q.startswith(pref) and '.<locals>.' not in q[len(pref):] and _pushes_to_caller(g.node, set(g.params)):
                if any(isinstance(x, ast.Name) and x.id == g.name and isinstance(x.ctx, ast.Load) for x in walk_no_nested(v.node)):
                    ctx.undecided('C14-R3', g, g.name, 'a local helper pushes conditions but is not (only) called as a plain statement')
    n = 0
    sites = [(tv, t) for t in _pairs_into(tv, {conds})] + [(v, t) for v, ps in builders.values() for t in ps]
    for fi, t in sites:
        text, params = t.elts
        qc = cnt.q(fi, text)
        pc = cnt.p(fi, params)
        n += 1
        if qc is None or pc is None:
            ctx.undecided('C14-R3', fi, norm(t)[:80], 'cannot count placeholders / parameters symbolically')
        ok = +qc == +pc
        ctx.ob('C14-R3', fi, f'condition `{norm(text)[:50]}` with params `{norm(params)[:50]}`', ok,
               f'placeholders {dict(+qc)} = parameters {dict(+pc)}' if ok else
               f'{dict(+qc)} placeholders but {dict(+pc)} parameters: the statement cannot bind '
               '(or binds values to the wrong placeholders)', line=t.lineno)
    # which value goes with which text: a builder that receives them as arguments (`_comparison(column, op, value)`, one
    # call per bound) is read once per call, with the caller's arguments in the parameters' places
    placed = [(tv, t.elts[0], t.elts[1], tv, t) for t in _pairs_into(tv, {conds})]
    for label, (v, ps) in builders.items():
        for t in ps:
            envs = [(cv, _argument_env(callee, c, cv)) for cv, c, callee in calls.get(label, [])]
            envs = [(cv, env) for cv, env in envs if env]
            for cv, env in envs:
                t2 = _Fold().visit(_clone(t, env))
                placed.append((cv, t2.elts[0], t2.elts[1], v, t))
            if not envs:
                placed.append((v, t.elts[0], t.elts[1], v, t))
    for fi, text, params, at, t in placed:
        # a scalar bound min_<c> / max_<c> constrains column <c> from the right side
        pr = _sole_parameter(fi, params)
        if isinstance(pr, ast.Attribute) and norm(pr.value) == 'self' and pr.attr in numeric:
            attr = pr.attr
            col = re.search(r'(\w+)\s*(<=|>=|<|>|=|!=|<>)\s*\?', _text_constant(fi, text))
            okr = col is not None and ((attr.startswith('min_') and col.group(2) == '>=') or
                                       (attr.startswith('max_') and col.group(2) == '<=')) and attr[4:] == col.group(1)
            ctx.ob('C14-R3', at, f'{attr} ↔ {col.group(1) if col else "?"} {col.group(2) if col else ""}', bool(okr),
                   'min → >=, max → <= on the column of the same name' if okr else
                   'range bound compares the wrong column or in the wrong direction', line=t.lineno)
    ctx.floor('C14-R3', max(n, len(placed)), 15, 'filter conditions')
    # every numeric bound of the filter is turned into a condition
    pushed = {norm(_sole_parameter(fi, params)) for fi, _, params, _, _ in placed}
    for a in sorted(numeric):
        ok = f'self.{a}' in pushed
        ctx.ob('C14-R3', tv, f'bound {a} becomes a condition', ok, 'pushed with its own placeholder' if ok else
               f'no condition carries self.{a}: the bound is ignored', nontrivial=False)
    # flatten step in to_sql
    # (whether each pair holds its parameters as a list or as the one value itself decides what the step has to do)
    general = 0
    kinds = {}
    for fi, t in sites:
        k = _param_kind(fi, t.elts[1], numeric)
        kinds.setdefault(k, ('the range bound ' if k == 'scalar' and norm(_resolve(fi, t.elts[1])).startswith('self.') else '')
                         + f'`{norm(_resolve(fi, t.elts[1]))[:40]}`')
    for r, v in rets:
        a, b = _Flatten(tv, conds, pfields, pmeths, kinds).val(v.elts[0]), _Flatten(tv, conds, pfields, pmeths, kinds).val(v.elts[1])
        what = f'return {norm(v)[:90]}'
        if a == ('str', '') and b == 'empty':
            facts = [f for t, pol, _ in guards_of(r) for at, p in conjuncts(t, pol) for f in [_emptiness_fact(at, p, conds)]]
            ok = any(f < 0 for f in facts)
            ctx.ob('C14-R3', tv, what, ok, f'only when `{conds}` is empty: no condition, no parameter' if ok else
                   f'returns "no condition" although `{conds}` may hold conditions', line=r.lineno, nontrivial=False)
            continue
        bad = None
        if isinstance(a, tuple) and a[0] == 'join' and a[2] == 'firsts':
            if a[1].strip().upper() != 'AND' or a[1] == a[1].strip() or not a[1][0].isspace() or not a[1][-1].isspace():
                bad = f'the condition texts are joined with {a[1]!r}, not with AND'
        elif isinstance(a, tuple) and a[0] == 'bad':
            bad = a[1]
        else:
            a = None
        if isinstance(b, tuple) and b[0] == 'bad':
            bad = bad or b[1]
        elif b == 'seconds' or b == 'listified':
            bad = bad or 'the per-condition parameter groups are returned without being flattened into one list'
        elif b != 'flat':
            b = None
        if bad is None and (a is None or b is None):
            ctx.undecided('C14-R3', tv, what, 'cannot decide that the texts are AND-ed and the parameters flattened in condition order')
        general += 1
        ctx.ob('C14-R3', tv, 'conditions AND-ed, parameters flattened in condition order', bad is None,
               what if bad is None else bad, line=r.lineno)
    ctx.floor('C14-R3/flatten', general, 1, 'return of (joined text, flat parameters)')
    # origin/destination column roles in the spatial helpers
    for q, (f2, pairs) in sorted(builders.items()):
        for t in pairs:
            txt, par = norm(t.elts[0]), norm(_resolve(f2, t.elts[1]))
            for role in ('origin', 'destination'):
                if f'self.{role}_' in par:
                    other = 'destination' if role == 'origin' else 'origin'
                    ok = f'{{table}}{role} IN' in txt and f'{{table}}{other} IN' not in txt
                    ctx.ob('C14-R3', f2, f'{role} filter constrains the {role} column', ok,
                           'column matches the filter attribute' if ok else
                           f'the {role}_* filter is applied to the {other} column', line=t.lineno)
    # query-level conditions: per block, '?' appended == params pushed
    qcnt = _Count(prog)
    qm = prog.module(Q)
    pending = []
    # (the methods of the query module reachable from the to_sql of a query class, whatever they are called)
    qfns = {}
    for qc_ in prog.subclasses_of('QueryBase'):
        t_ = qc_.find_method('to_sql')
        for f_ in closure(prog, [t_]) if t_ is not None else []:
            if f_.module is qm and f_.cls is not None and '.<locals>.' not in f_.qualname:
                qfns.setdefault(f_.qualname, f_)
    nblocks = 0
    qviews = {qn: _view(prog, qfns[qn]) for qn in sorted(qfns)}   # expanded and constant-folded: the text is what the database sees

    def piece(x):
        """one push as (kind, argument): 'cond' (a text appended), 'append' / 'extend' (parameters); (None, None) when
        the statement is not one of these plain forms"""
        if isinstance(x, ast.AugAssign):
            return ('extend', x.value) if isinstance(x.op, ast.Add) else (None, None)
        c = x.value
        if len(c.args) != 1 or c.keywords or isinstance(c.args[0], ast.Starred):
            return None, None
        cn = call_name(c)
        return ('cond' if cn.endswith('_conditions.append') else 'append' if cn.endswith('_params.append') else 'extend'), c.args[0]

    def count_piece(fi, kind, e):
        """(placeholders, parameters, undecided?) that one push contributes, its argument e read in function fi"""
        arg = _pair_component(prog, fi, e, pfields)
        filt = isinstance(arg, tuple) and arg[0] == 'filter'
        if kind == 'cond':
            if filt:
                # the text Filter.to_sql returned ...
                return Counter({'filter' if arg[1] == 0 else "the filter's parameters, as text": 1}), Counter(), False
            qc = None if isinstance(arg, tuple) else qcnt.q(fi, arg)
            return qc or Counter(), Counter(), qc is None
        if kind == 'append':
            return Counter(), Counter({'1': 1}), isinstance(arg, tuple)
        if filt:
            # ... and the parameters it returned with it (R3 above: as many)
            return Counter(), Counter({'filter' if arg[1] == 1 else "the filter's text, as parameters": 1}), False
        pc = None if isinstance(arg, tuple) else qcnt.p(fi, arg)
        return Counter(), pc or Counter(), pc is None

    def call_sites(fq):
        """(calls of method fq from the query methods as (caller, call), is every use of it such a resolved call?)"""
        sites, closed = [], True
        for g in qviews.values():
            for x in ast.walk(g.node):
                if not (isinstance(x, ast.Attribute) and x.attr == fq.node.name and isinstance(x.ctx, ast.Load)):
                    continue
                c = getattr(x, '_parent', None)
                if not (isinstance(c, ast.Call) and c.func is x):
                    closed = False          # handed on as a value (a callback): its arguments are not visible
                    continue
                callee = _callee(prog, g, c)
                if callee is None or not any(c is y for y in walk_no_nested(g.node)):
                    closed = False
                elif callee.module is fq.module and callee.qualname == fq.qualname:
                    sites.append((g, c))
        return sites, closed

    for qn, fq in qviews.items():
        blocks = {}
        for x in walk_no_nested(fq.node):
            if isinstance(x, ast.Expr) and isinstance(x.value, ast.Call):
                cn = call_name(x.value)
                if cn in ('self._conditions.append', 'self._params.append', 'self._params.extend'):
                    blocks.setdefault(id(getattr(x, '_parent', None)), []).append(x)
            if isinstance(x, ast.AugAssign) and norm(x.target) == 'self._params':
                blocks.setdefault(id(getattr(x, '_parent', None)), []).append(x)
        nblocks += len(blocks)
        a_ = fq.node.args
        own = [y.arg for y in a_.posonlyargs + a_.args]
        own = own[1:] if own[:1] in (['self'], ['cls']) else own
        var = a_.vararg.arg if a_.vararg else None
        for blk in blocks.values():
            pieces = [piece(x) for x in blk]
            # a push whose argument is a parameter of the method itself: the method is a helper that is handed a condition
            # together with its parameters, so the text and the values to count are those of each call, not the method's
            handed = [isinstance(e, ast.Name) and e.id in own + [var] and not local_defs(fq.node, e.id) for _, e in pieces]
            if any(handed) and all(k for k, _ in pieces):
                sites, closed = call_sites(fq)
                if not closed:
                    pending.append((fq, norm(blk[0])[:60]))
                for g, c in sites:
                    what = f'{norm(c)[:60]} [{fq.qualname}]'
                    if c.keywords or any(isinstance(y, ast.Starred) for y in c.args) or len(c.args) < len(own) \
                            or (len(c.args) > len(own) and var is None) or a_.kwonlyargs or a_.kwarg:
                        pending.append((g, what))
                        continue
                    q, p, und = Counter(), Counter(), False
                    for (kind, e), h in zip(pieces, handed):
                        if h and e.id == var:
                            # *values: one parameter for every further argument of the call
                            und = und or kind != 'extend'
                            p += Counter({'1': len(c.args) - len(own)})
                            continue
                        q1, p1, u1 = count_piece(g, kind, c.args[own.index(e.id)]) if h else count_piece(fq, kind, e)
                        q, p, und = q + q1, p + p1, und or u1
                    if und:
                        pending.append((g, what))
                        continue
                    ok = +q == +p
                    ctx.ob('C14-R3', g, f'call `{norm(c)[:50]}` of {fq.qualname}', ok,
                           f'{dict(+q)} placeholders = {dict(+p)} parameters' if ok else
                           (f'{dict(+q)} placeholders in the condition but {dict(+p)} parameters handed over with it: the helper '
                            'pushes both, so the parameters of the conditions that follow are bound one position off'),
                           line=c.lineno)
                continue
            q = Counter()
            p = Counter()
            und = False
            for kind, e in pieces:
                if kind is None:
                    und = True
                    continue
                q1, p1, u1 = count_piece(fq, kind, e)
                q, p, und = q + q1, p + p1, und or u1
            if und:
                pending.append((fq, norm(blk[0])[:60]))
                continue
            ok = +q == +p
            ctx.ob('C14-R3', fq, f'block at `{norm(blk[0])[:50]}`', ok,
                   f'{dict(+q)} placeholders = {dict(+p)} parameters' if ok else
                   (f'{dict(+q)} placeholders but {dict(+p)} parameters pushed in the same block: the condition list and the '
                    'parameter list are built in parallel, so a condition whose text is appended elsewhere binds the values of '
                    'its neighbours (e.g. the sample fraction to the day modulus)'), line=blk[0].lineno)
    if not nblocks:
        # the queries do not keep parallel lists of texts and parameters on the object (a local list of pairs, a helper
        # object that takes a condition together with its parameters): nothing to count block by block here
        ctx.note('C14-R3 query level: no parallel self._conditions / self._params lists; each condition with its own parameters is '
                 'decided by the evaluated statements (C14-R6)')
    for fq, what in pending:
        # not countable symbolically (text or parameters reach the lists through something the counter does not follow):
        # the evaluated statements of R6 ("each condition with its own parameters") decide these blocks
        ctx.note(f'C14-R3 {fq.qualname}: block at `{what}` not counted symbolically; decided by the evaluated statements (C14-R6)')


def _numeric_optionals(cls):
    """fields annotated `int | None` / `float | None` (Optional[...]): one scalar or unset"""
    out = set()
    for f, ann in cls.all_fields().items():
        a = norm(ann)
        if 'None' in a and any(k in a for k in ('float', 'int')) and 'list' not in a and 'str' not in a:
            out.add(f)
    return out


# ---------------------------------------------------------------- R4..R6 ---
def _module_values(fi):
    """module-level names bound exactly once to a literal or to a constructor call with literal arguments
    (`_EPOCH = date(1970, 1, 1)`), not shadowed in fi: reading the name is reading that value"""
    out = {}
    seen = Counter()
    for st in fi.module.tree.body:
        for t, _, _ in stores_to(st):
            if isinstance(t, ast.Name):
                seen[t.id] += 1
    for name, v in fi.module.constants.items():
        if seen[name] != 1 or name in fi.params or local_defs(fi.node, name):
            continue
        args = list(v.args) + [k.value for k in v.keywords] if isinstance(v, ast.Call) else None
        if const_value(v) is not None or (args is not None and dotted_name(v.func) and
                                          all(const_value(a) is not None for a in args)):
            out[name] = v
    return out


def _body_text(fi) -> str:
    """normalised text of the function's statements, module-level constant values written out"""
    env = _module_values(fi)
    return ' '.join(norm(_Fold().visit(_clone(s_, env))) for s_ in fi.node.body)


def _sql_text(fi, name='sql'):
    d = [st for t, st, how in stores_to(fi.node) if isinstance(t, ast.Name) and t.id == name and how in ('assign',)]
    if not d:
        return None, None
    v = _Fold().visit(_clone(d[0].value, _module_values(fi)))

    def text(x):
        """the literal part of the statement text, in order (computed fields contribute nothing)"""
        if _is_str(x):
            return x.value
        if isinstance(x, ast.JoinedStr):
            return ''.join(text(y) for y in x.values)
        if isinstance(x, ast.BinOp) and isinstance(x.op, ast.Add):
            return text(x.left) + text(x.right)
        return ''
    return text(v), d[0]


# ---------------------------------------------------------------- R4..R6 by evaluation ---
_SPATIAL_KINDS = ('airport', 'country', 'continent', 'bounding_box')
_POSITIONS = ('', 'origin_', 'destination_')


class _Mod:
    """a repository module as a value of the interpreter (`from . import helpers`, `import AEIC.x.y as z`)"""
    def __init__(self, m):
        self.m = m


def _raw_view(m):
    """classes and imports of a module *as written* (its own text, before the loader's passes; the companion of
    c13._raw_index, which has the functions and constants): {'classes': name -> ClassDef, 'imports': name -> dotted,
    'stars': [modules imported with *]}"""
    v = m.__dict__.get('_c14_raw')
    if v is not None:
        return v
    classes, imports = {}, {}
    try:
        tree = ast.parse(m.source)
    except SyntaxError:
        tree = None
    parts = m.modname.split('.')
    is_pkg = m.relpath.endswith('__init__.py')

    def walk(body):
        for s in body:
            if isinstance(s, ast.ClassDef):
                classes.setdefault(s.name, s)
            elif isinstance(s, ast.Import):
                for a in s.names:
                    imports[a.asname or a.name.split('.')[0]] = a.name if a.asname else a.name.split('.')[0]
            elif isinstance(s, ast.ImportFrom):
                if s.level:
                    base = parts if is_pkg else parts[:-1]
                    base = base[:len(base) - (s.level - 1)]
                    mod = '.'.join(base + ([s.module] if s.module else []))
                else:
                    mod = s.module or ''
                for a in s.names:
                    if a.name == '*':
                        stars.append(mod)
                    else:
                        imports[a.asname or a.name] = f'{mod}.{a.name}'
            elif isinstance(s, (ast.If, ast.Try, ast.With)):
                walk(s.body)
                walk(getattr(s, 'orelse', []))
    stars = []
    if tree is not None:
        walk(tree.body)
    v = {'classes': classes, 'imports': imports, 'stars': stars}
    m.__dict__['_c14_raw'] = v
    return v


def _c14_interp(prog):
    """The checker's interpreter of extracted functions (sa/rules/c13.py: explicit values, nothing of the repository
    is imported or run) with what the query code needs on top: reflection on a record's own fields (getattr / setattr /
    hasattr), map, in-place `+=` on lists and on attributes, typing.cast, and a model of the three library values the
    date bounds are made of - datetime.UTC, pd.Timestamp(<date>, tzinfo=/tz=) and datetime's timestamp() /
    astimezone().  A naive datetime has no zone of its own: where the library would read the *process's* local zone the
    model uses UTC+05:45, so anything that depends on it shows up as a wrong instant instead of passing by accident.

    The interpreter reads every module's *own text*.  So the names of a module are resolved on that text as Python
    resolves them: a class the module defines (whether or not the loader's structural passes kept it), a name
    imported from another repository module - function, class, constant (evaluated once, in the module that defines
    it: a dict display of functions is a dict of those functions), a module itself (`mod.f(x)`, `mod.CONST`),
    re-exports followed.  Record classes: an instance of a NamedTuple class (or of `collections.namedtuple(...)`) is
    a tuple with named fields - unpacking, indexing, zip(*rows), equality with a plain tuple, `.field`, `_replace`,
    `_asdict`, `_make`, `_fields`, defaults, methods and properties of the class; a dataclass instance is its fields
    (defaults and default factories filled in, then __post_init__; dataclasses.replace builds a new one); a plain
    class is what its __init__ stores.  isinstance() against repository classes is answered from the class's bases."""
    import collections as _collections
    import datetime as _dt
    from ..astutil import LOG_CALLS
    from ..loader import ClassInfo, FunctionInfo
    from .c13 import _Interp, _Rec, _Fn, _ClassRef, _Undecidable, _Raised, _BINOPS, _Ctx, _raw_index, _is_enum

    import math as _math
    _held = iter(range(1, 1 << 62))
    LOCAL = _dt.timezone(_dt.timedelta(hours=5, minutes=45))
    MATH_FUNCS = {'floor', 'ceil', 'trunc', 'fabs', 'fmod', 'remainder', 'copysign', 'isclose', 'isfinite', 'isnan', 'isinf',
                  'radians', 'degrees', 'sqrt', 'modf', 'sin', 'cos', 'tan', 'asin', 'acos', 'atan', 'atan2', 'hypot', 'pow'}
    MATH_CONSTS = {'pi', 'tau', 'inf', 'nan', 'e'}
    OPNODES = (ast.BinOp, ast.Compare, ast.UnaryOp, ast.BoolOp, ast.IfExp, ast.Call, ast.JoinedStr)

    class _Drained(list):
        """what a generator function yields, in order; like the generator object it stands for it is true even when
        empty"""
        def __bool__(self):
            return True

    class QueryInterp(_Interp):
        def __init__(self, prog):
            super().__init__(prog)
            # (module, node) of the operations / statements being evaluated, innermost last: what a traced value
            # (rule R7) reads to say *where* something was computed from it
            self.nodes = []
            self._rawcls = {}     # (id(module), class name) -> ClassInfo built from the module's own text
            self._nt = {}         # id(ClassInfo) -> the tuple type standing for a NamedTuple class
            self._nt_types = {}   # that type (or one made by collections.namedtuple) -> ClassInfo | None
            self._depth = 0
            self._is_gen = {}     # id(function node) -> (is a generator function, changes only its own locals)
            self._yields = []     # values yielded so far by the generator functions being run, innermost last

        def _method_node(self, ci, name):
            for c in ci.mro():
                node = _raw_index(c.module)['functions'].get(f'{c.name}.{name}')
                if node is None and name in c.methods:
                    node = c.methods[name].node
                if node is not None:
                    return c, node
            return None, None

        @staticmethod
        def guard(f, args, kwargs=None):
            """a builtin operation on plain values does what Python does, exceptions included; when it *fails* on a
            value that stands for a repository object (which may define the protocol the operation asks for: __len__,
            __lt__, __str__ of a str-enum, ...) the model does not know what Python would do"""
            try:
                return f(*args, **(kwargs or {}))
            except (_Undecidable, _Raised):
                raise
            except Exception as ex:
                def repo(v, d=0):
                    if isinstance(v, (_Rec, _Fn, _ClassRef, _Mod)):
                        return True
                    if d < 3 and isinstance(v, (list, tuple, set, frozenset)):
                        return any(repo(x, d + 1) for x in list(v)[:64])
                    if d < 3 and isinstance(v, dict):
                        return any(repo(x, d + 1) for kv in list(v.items())[:64] for x in kv)
                    return False
                if any(repo(a) for a in list(args) + list((kwargs or {}).values())):
                    raise _Undecidable(f'{getattr(f, "__name__", "operation")} on a repository object: {type(ex).__name__}({ex})') from None
                raise _Raised(ex) from None

        # ---- names of a module, resolved on its own text ------------------------------------------------
        def imports_of(self, m):
            return {**m.imports, **_raw_view(m)['imports']}

        def class_of(self, m, name):
            """ClassInfo of a class the module's text defines: the program model's when it (still) has the class,
            otherwise one built from the text (a record class the structural passes erased, a class they put back
            into the module it came from)"""
            ci = m.classes.get(name)
            if ci is not None:
                return ci
            key = (id(m), name)
            if key not in self._rawcls:
                node = _raw_view(m)['classes'][name]
                ci = self._rawcls[key] = ClassInfo(name, node, m)
                ci.base_exprs = [ast.unparse(b) for b in node.bases]
                for b in node.bases:
                    b = b.value if isinstance(b, ast.Subscript) else b
                    try:
                        v = self.eval(b, _Ctx(m), [{}])
                    except _Undecidable:
                        continue
                    if isinstance(v, _ClassRef) and v.ci is not ci:
                        ci.bases.append(v.ci)
                for s_ in node.body:
                    if isinstance(s_, (ast.FunctionDef, ast.AsyncFunctionDef)):
                        ci.methods.setdefault(s_.name, FunctionInfo(f'{name}.{s_.name}', s_, m, ci))
            return self._rawcls[key]

        def binds(self, m, name, depth=0):
            """does the module's text bind the name at module level (definition, assignment, import, star import)?"""
            idx, raw = _raw_index(m), _raw_view(m)
            if name in idx['functions'] or name in idx['constants'] or name in raw['classes'] or name in raw['imports']:
                return True
            if depth < 4:
                for star in raw['stars']:
                    m2 = self.prog.by_modname.get(star)
                    if m2 is not None and m2 is not m and not name.startswith('_') and self.binds(m2, name, depth + 1):
                        return True
            return False

        def bound_method(self, recv, ci, name):
            """<record>.<method> as a value: calling it calls the method on that record"""
            call = ast.Call(func=ast.Attribute(value=ast.Name(id='\x00self', ctx=ast.Load()), attr=name, ctx=ast.Load()),
                            args=[ast.Starred(value=ast.Name(id='\x00a', ctx=ast.Load()), ctx=ast.Load())],
                            keywords=[ast.keyword(arg=None, value=ast.Name(id='\x00k', ctx=ast.Load()))])
            node = ast.FunctionDef(name=name, args=ast.arguments(posonlyargs=[], args=[], vararg=ast.arg(arg='\x00a'), kwonlyargs=[],
                                                                 kw_defaults=[], kwarg=ast.arg(arg='\x00k'), defaults=[]),
                                   body=[ast.Return(value=call)], decorator_list=[])
            c, mnode = self._method_node(ci, name)
            ast.fix_missing_locations(ast.copy_location(node, mnode))
            return _Fn(_Ctx(c.module), node, [{'\x00self': recv}])

        def class_attr(self, ci, name):
            """a class attribute that is not an instance field: a method as a plain function (static, or read from the
            class), a class-level constant, `name = staticmethod(f)`; (found, value)"""
            c, node = self._method_node(ci, name)
            if node is not None:
                decs = [ast.unparse(d) for d in node.decorator_list]
                if decs in ([], ['staticmethod']):
                    return True, _Fn(_Ctx(c.module), node, [])
                if decs == ['classmethod']:
                    return True, self.bound_method(_ClassRef(ci), ci, name)
                return False, None
            for c in ci.mro():
                v = c.class_assignments().get(name)
                ann = c.annotated_fields().get(name)
                if v is not None and (ann is None or 'ClassVar' in norm(ann)):
                    if isinstance(v, ast.Call) and call_name(v) == 'staticmethod' and len(v.args) == 1 and not v.keywords:
                        v = v.args[0]
                    return True, self.eval(v, _Ctx(c.module), [{}])
            return False, None

        def member(self, mod, name):
            """<module>.<name>: what the name means in that module; a sub-module of a package"""
            self.prog.consulted.add(mod.m.relpath)
            self._depth += 1
            try:
                if self._depth > 12:
                    raise _Undecidable(f'import chain through {mod.m.modname}.{name}')
                try:
                    return self.lookup(name, _Ctx(mod.m), [])
                except _Undecidable:
                    sub = self.prog.by_modname.get(f'{mod.m.modname}.{name}')
                    if sub is None:
                        raise
                    return _Mod(sub)
            finally:
                self._depth -= 1

        def repo_target(self, dotted):
            """the value an import of `dotted` binds when it leads into the repository, else None"""
            parts = dotted.split('.')
            for i in range(len(parts), 0, -1):
                m2 = self.prog.by_modname.get('.'.join(parts[:i]))
                if m2 is not None:
                    v = _Mod(m2)
                    for a in parts[i:]:
                        if not isinstance(v, _Mod):
                            raise _Undecidable(f'import of {dotted}')
                        v = self.member(v, a)
                    return v
            return None

        # ---- records ------------------------------------------------------------------------------------
        def nt_home(self, ci):
            """the class of ci's bases that is declared a NamedTuple (its annotated fields are the tuple's), or None"""
            for c in ci.mro():
                if any(b.split('.')[-1] == 'NamedTuple' for b in c.base_exprs):
                    return c
            return None

        def nt_type(self, ci):
            home = self.nt_home(ci)
            if id(home) not in self._nt:
                fields = list(home.annotated_fields())
                ca = home.class_assignments()
                dflt = [self.eval(ca[f], _Ctx(home.module), [{}]) for f in fields if ca.get(f) is not None]
                if any(ca.get(f) is None for f in fields[len(fields) - len(dflt):]):
                    raise _Undecidable(f'field order of {home.name}')
                t = self.guard(_collections.namedtuple, [home.name, fields], {'defaults': dflt})
                self._nt[id(home)] = t
                self._nt_types[t] = home
            return self._nt[id(home)]

        def is_nt(self, v):
            return isinstance(v, tuple) and type(v) in self._nt_types

        def call_value(self, f, args, kwargs, e, fi, sc):
            """call a value of the interpreter with values already evaluated"""
            keys = [f'\x00v{next(_held)}' for _ in range(1 + len(args) + len(kwargs))]
            sc[-1].update(zip(keys, [f] + list(args) + list(kwargs.values())))
            ld = lambda k: ast.Name(id=k, ctx=ast.Load())
            call = ast.Call(func=ld(keys[0]), args=[ld(k) for k in keys[1:1 + len(args)]],
                            keywords=[ast.keyword(arg=n_, value=ld(k)) for n_, k in zip(kwargs, keys[1 + len(args):])])
            try:
                return self._eval_call(ast.fix_missing_locations(ast.copy_location(call, e)), fi, sc)
            finally:
                for k in keys:
                    sc[-1].pop(k, None)

        def instance_of(self, v, spec):
            """isinstance(v, spec) where spec may name repository classes"""
            if isinstance(spec, tuple):
                return any(self.instance_of(v, s_) for s_ in spec)
            if isinstance(spec, _ClassRef):
                if isinstance(v, _Rec) and v.ci is not None:
                    return any(c is spec.ci or (c.name == spec.ci.name and c.module is spec.ci.module) for c in v.ci.mro())
                if self.is_nt(v):
                    home = self._nt_types[type(v)]
                    return home is not None and self.nt_home(spec.ci) is home
                return False
            if isinstance(spec, type):
                if isinstance(v, _Rec):
                    if v.ci is not None and _is_enum(v.ci) and spec in (str, int):
                        bases = {b.split('.')[-1] for c in v.ci.mro() for b in c.base_exprs}
                        return bool(bases & ({'StrEnum', 'str'} if spec is str else {'IntEnum', 'IntFlag', 'int'}))
                    return spec is object
                return isinstance(v, spec)
            raise _Undecidable('isinstance against this value')

        def construct(self, ci, args, kwargs):
            """a NamedTuple instance is a tuple with named fields; a dataclass instance is what its generated __init__
            leaves behind: the fields in declaration order (defaults filled in), then __post_init__; an instance of a
            class with an __init__ of its own is what that stores"""
            if not _is_enum(ci):
                if self.nt_home(ci) is not None:
                    return self.guard(self.nt_type(ci), args, kwargs)
                c, node = self._method_node(ci, '__init__')
                if node is not None:
                    if node.decorator_list:
                        raise _Undecidable(f'decorated {ci.name}.__init__')
                    rec = _Rec(ci.name, {}, ci)
                    self.call_fn(_Fn(_Ctx(c.module), node, []), [rec] + list(args), kwargs)
                    return rec
            rec = super().construct(ci, args, kwargs)
            if _is_enum(ci):
                return rec
            for c_ in reversed(ci.mro()):
                for k, v in c_.class_assignments().items():
                    if k in rec.fields or v is None or k not in c_.annotated_fields() or 'ClassVar' in norm(c_.annotated_fields()[k]):
                        continue
                    if isinstance(v, ast.Call) and call_name(v).split('.')[-1] == 'field':
                        kw = {x.arg: x.value for x in v.keywords}
                        if 'default' in kw:
                            rec.fields[k] = self.eval(kw['default'], _Ctx(c_.module), [{}])
                        elif 'default_factory' in kw:
                            sc = [{}]
                            rec.fields[k] = self.call_value(self.eval(kw['default_factory'], _Ctx(c_.module), sc), [], {}, v, _Ctx(c_.module), sc)
                    else:
                        rec.fields[k] = self.eval(v, _Ctx(c_.module), [{}])
            c, node = self._method_node(ci, '__post_init__')
            if node is not None:
                order = [k for k in ci.all_fields() if k in rec.fields]
                rec.fields = {**{k: rec.fields[k] for k in order}, **{k: v for k, v in rec.fields.items() if k not in order}}
                if node.decorator_list:
                    raise _Undecidable(f'decorated {ci.name}.__post_init__')
                self.call_fn(_Fn(_Ctx(c.module), node, []), [rec], {})
            return rec

        def lookup(self, name, fi, scopes):
            for s_ in reversed(scopes):
                if name in s_:
                    return s_[name]
            m = fi.module
            idx, raw = _raw_index(m), _raw_view(m)
            if name not in idx['functions']:
                if name in raw['classes']:
                    return _ClassRef(self.class_of(m, name))
                if name in raw['imports'] and name not in idx['constants']:
                    r = self.repo_target(raw['imports'][name])
                    if r is not None:
                        return r
                    if raw['imports'][name] == 'collections.namedtuple':
                        return _collections.namedtuple
                if name not in idx['constants'] and name not in raw['imports'] and not name.startswith('_'):
                    for star in raw['stars']:        # from <repository module> import *
                        m2 = self.prog.by_modname.get(star)
                        if m2 is not None and m2 is not m and self.binds(m2, name):
                            return self.member(_Mod(m2), name)
            tgt = self.imports_of(m).get(name)
            if tgt == 'datetime.UTC':
                return _dt.timezone.utc
            if tgt == 'datetime.timezone':
                return _dt.timezone
            if tgt == 'math':
                return _math
            if tgt and tgt.startswith('math.') and tgt[5:] in MATH_FUNCS | MATH_CONSTS:
                return getattr(_math, tgt[5:])
            return super().lookup(name, fi, scopes)

        def eval(self, e, fi, sc):
            if isinstance(e, (ast.Yield, ast.YieldFrom)):
                if not self._yields:
                    raise _Undecidable('yield outside a generator function call')
                if isinstance(e, ast.Yield):
                    self._yields[-1].append(self.eval(e.value, fi, sc) if e.value is not None else None)
                else:
                    self._yields[-1].extend(self.iterate(self.eval(e.value, fi, sc)))
                return None
            if isinstance(e, OPNODES):
                self.nodes.append((fi.module, e))
                try:
                    return super().eval(e, fi, sc)
                finally:
                    self.nodes.pop()
            if isinstance(e, ast.Attribute):
                if isinstance(e.value, ast.Name) and e.attr in MATH_CONSTS and not any(e.value.id in s_ for s_ in sc) \
                        and self.imports_of(fi.module).get(e.value.id) == 'math':
                    return getattr(_math, e.attr)
                if isinstance(e.value, ast.Name) and e.value.id in ('time', 'timezone', 'datetime', 'date') and e.attr in ('min', 'max', 'utc'):
                    v = self.eval(e.value, fi, sc)
                    if isinstance(v, type) and hasattr(v, e.attr):
                        return getattr(v, e.attr)
                # <record>.<property>: the value its getter returns
                v = self.eval(e.value, fi, sc)
                if isinstance(v, _Mod):
                    return self.member(v, e.attr)
                if self.is_nt(v):
                    if e.attr in type(v)._fields or e.attr == '_fields':
                        return getattr(v, e.attr)
                    home = self._nt_types[type(v)]
                    c, node = self._method_node(home, e.attr) if home is not None else (None, None)
                    if node is not None and [ast.unparse(d) for d in node.decorator_list] == ['property']:
                        return self.call_fn(_Fn(_Ctx(c.module), node, []), [v], {})
                    raise _Undecidable(f'attribute {e.attr} of a {type(v).__name__}')
                if isinstance(v, _ClassRef) and e.attr == '_fields' and not _is_enum(v.ci) and self.nt_home(v.ci) is not None:
                    return self.nt_type(v.ci)._fields
                if isinstance(v, _ClassRef) and not (_is_enum(v.ci) and e.attr in v.ci.class_assignments()):
                    found, val = self.class_attr(v.ci, e.attr)
                    if found:
                        return val
                if isinstance(v, _Rec) and e.attr not in v.fields:
                    c, node = self._method_node(v.ci, e.attr)
                    if node is not None and [ast.unparse(d) for d in node.decorator_list] in \
                            (['property'], ['cached_property'], ['functools.cached_property']):
                        self.nodes.append((fi.module, e))
                        try:
                            return self.call_fn(_Fn(_Ctx(c.module), node, []), [v], {})
                        finally:
                            self.nodes.pop()
                    if node is not None and not node.decorator_list and not _is_enum(v.ci):
                        return self.bound_method(v, v.ci, e.attr)
                    if node is None and not _is_enum(v.ci):
                        found, val = self.class_attr(v.ci, e.attr)
                        if found:
                            return val
                held = ast.copy_location(ast.Name(id='\x00recv', ctx=ast.Load()), e)
                return super().eval(ast.copy_location(ast.Attribute(value=held, attr=e.attr, ctx=ast.Load()), e), fi,
                                    sc + [{'\x00recv': v}])
            return super().eval(e, fi, sc)

        def call_fn(self, fn, args, kwargs):
            """a generator function is run to its end at the call and its values handed out as a sequence (the model of
            generator expressions too): right when what it does in between cannot be seen by its consumer, i.e. when it
            changes nothing but its own locals"""
            key = id(fn.node)
            if key not in self._is_gen:
                ys = [x for x in walk_no_nested(fn.node) if isinstance(x, (ast.Yield, ast.YieldFrom))] \
                    if isinstance(fn.node, (ast.FunctionDef, ast.AsyncFunctionDef)) else []
                own = {n for x in walk_no_nested(fn.node) if isinstance(x, (ast.Assign, ast.AnnAssign, ast.AugAssign, ast.For))
                       for t in (x.targets if isinstance(x, ast.Assign) else [x.target]) for n in assigned_names(t)}
                effects = [x for x in walk_no_nested(fn.node)
                           if (isinstance(x, (ast.Attribute, ast.Subscript)) and isinstance(x.ctx, (ast.Store, ast.Del)) and _root_name(x) not in own)
                           or isinstance(x, (ast.Global, ast.Nonlocal, ast.Await))
                           or (isinstance(x, ast.Call) and isinstance(x.func, ast.Attribute) and x.func.attr in MUTATING_METHODS
                               and _root_name(x.func.value) not in own)]
                self._is_gen[key] = (bool(ys), not effects)
            gen, quiet = self._is_gen[key]
            if not gen:
                return self._call_fn(fn, args, kwargs)
            if not quiet:
                raise _Undecidable(f'generator function {getattr(fn.node, "name", "?")} changes objects its consumer may see')
            self._yields.append(_Drained())
            try:
                self._call_fn(fn, args, kwargs)
                return self._yields[-1]
            finally:
                self._yields.pop()

        def _call_fn(self, fn, args, kwargs):
            a = fn.node.args
            if not (a.vararg or a.kwarg):
                return super().call_fn(fn, args, kwargs)
            from .c13 import _Return
            names = [x.arg for x in a.posonlyargs + a.args]
            kwonly = [x.arg for x in a.kwonlyargs]
            loc = dict(zip(names, args))
            rest = tuple(args[len(names):])
            if rest and not a.vararg:
                raise _Raised(TypeError('too many positional arguments'))
            more = {}
            for k, v in kwargs.items():
                if k in loc:
                    raise _Raised(TypeError(f'multiple values for {k}'))
                if k in names or k in kwonly:
                    loc[k] = v
                elif a.kwarg:
                    more[k] = v
                else:
                    raise _Raised(TypeError(f'unexpected argument {k}'))
            pos = a.posonlyargs + a.args
            for arg, d in list(zip(pos[len(pos) - len(a.defaults):], a.defaults)) + \
                    [(x, d) for x, d in zip(a.kwonlyargs, a.kw_defaults) if d is not None]:
                if arg.arg not in loc:
                    loc[arg.arg] = self.eval(d, fn.fi, fn.scopes + [{}])
            for x in pos + a.kwonlyargs:
                if x.arg not in loc:
                    raise _Raised(TypeError(f'missing argument {x.arg}'))
            if a.vararg:
                loc[a.vararg.arg] = rest
            if a.kwarg:
                loc[a.kwarg.arg] = more
            try:
                self.exec_block(fn.node.body, fn.fi, fn.scopes + [loc])
            except _Return as r:
                return r.value
            return None

        def _timestamp(self, e, args, kwargs):
            if len(args) == 1 and isinstance(args[0], str) and args[0].startswith('row[') and kwargs.get('unit') == 's' \
                    and (kwargs.get('tz') in ('UTC', 'utc', _dt.timezone.utc)) and set(kwargs) == {'unit', 'tz'}:
                return f'utc({args[0]})'
            tz = kwargs.pop('tzinfo', kwargs.pop('tz', None))
            if kwargs or len(args) != 1:
                raise _Undecidable('pd.Timestamp with these arguments')
            v = args[0]
            if isinstance(v, str):
                v = self.guard(_dt.datetime.fromisoformat, [v.replace('Z', '+00:00')])
            if isinstance(v, _dt.date) and not isinstance(v, _dt.datetime):
                v = _dt.datetime(v.year, v.month, v.day)
            if not isinstance(v, _dt.datetime):
                raise _Undecidable('pd.Timestamp of a value that is not a date')
            if isinstance(tz, str):
                if tz.upper() != 'UTC':
                    raise _Undecidable(f'time zone {tz!r}')
                tz = _dt.timezone.utc
            if tz is not None:
                if not isinstance(tz, _dt.tzinfo):
                    raise _Undecidable('tzinfo value')
                if v.tzinfo is not None:
                    raise _Raised(ValueError('Cannot pass a datetime or Timestamp with tzinfo with the tz parameter'))
                v = v.replace(tzinfo=tz)
            return v

        def eval_call(self, e, fi, sc):
            """the receiver of a method call is evaluated once: a receiver that is more than a name is evaluated here
            and held under a private name, so that every case below (and the base interpreter) reads a name"""
            if isinstance(e.func, ast.Attribute) and not isinstance(e.func.value, ast.Constant) \
                    and dotted_name(e.func.value) is None and not call_name(e).startswith(LOG_CALLS):
                key = f'\x00r{next(_held)}'
                sc[-1][key] = self.eval(e.func.value, fi, sc)
                held = ast.copy_location(ast.Name(id=key, ctx=ast.Load()), e.func.value)
                call = ast.copy_location(ast.Call(func=ast.copy_location(ast.Attribute(value=held, attr=e.func.attr, ctx=ast.Load()), e.func),
                                                  args=e.args, keywords=e.keywords), e)
                try:
                    return self._eval_call(call, fi, sc, call_name(e))
                finally:
                    sc[-1].pop(key, None)
            return self._eval_call(e, fi, sc)

        def _eval_call(self, e, fi, sc, nm=None):
            nm = nm or call_name(e)
            imports = self.imports_of(fi.module)
            plain = not e.keywords and not any(isinstance(a, ast.Starred) for a in e.args)
            if isinstance(e.func, ast.Name) and e.func.id == 'cast' and len(e.args) == 2 and plain \
                    and imports.get('cast') == 'typing.cast':
                return self.eval(e.args[1], fi, sc)
            if isinstance(e.func, ast.Name) and e.func.id == 'len' and len(e.args) == 1 and plain and not any('len' in s_ for s_ in sc) \
                    and not self.binds(fi.module, 'len'):
                # len() of an instance of a repository class that defines __len__ is what that method returns
                v = self.eval(e.args[0], fi, sc)
                if isinstance(v, _Rec) and v.ci is not None and not _is_enum(v.ci) and self._method_node(v.ci, '__len__')[1] is not None:
                    r = self.call_value(self.bound_method(v, v.ci, '__len__'), [], {}, e, fi, sc)
                    if isinstance(r, int) and not isinstance(r, bool) and r >= 0:
                        return r
                    raise _Raised(TypeError('__len__() should return an integer >= 0'))
                return self.guard(len, [v])
            if nm.split('.')[-1] in MATH_FUNCS and plain and not any(nm.split('.')[0] in s_ for s_ in sc) and \
                    imports.get(nm.split('.')[0]) in ('math', 'math.' + nm):
                args = [self.eval(a, fi, sc) for a in e.args]
                if all(isinstance(a, (int, float)) for a in args):
                    return self.guard(getattr(_math, nm.split('.')[-1]), args)
                raise _Undecidable(f'{nm} of these values')
            if nm.split('.')[-1] == 'replace' and len(e.args) == 1 and all(k.arg for k in e.keywords) and \
                    not isinstance(e.args[0], ast.Starred) and imports.get(nm.split('.')[0]) in ('dataclasses', 'dataclasses.' + nm):
                v = self.eval(e.args[0], fi, sc)
                if isinstance(v, _Rec) and v.ci is not None and not _is_enum(v.ci):
                    flds = [k for k in v.ci.all_fields() if k in v.fields and not k.startswith('_')]
                    return self.construct(v.ci, [], {**{k: v.fields[k] for k in flds}, **{k.arg: self.eval(k.value, fi, sc) for k in e.keywords}})
                raise _Undecidable(f'{nm} of this value')
            if nm.split('.')[-1] in ('astuple', 'asdict') and len(e.args) == 1 and plain and \
                    imports.get(nm.split('.')[0]) in ('dataclasses', 'dataclasses.' + nm):
                v = self.eval(e.args[0], fi, sc)
                if isinstance(v, _Rec) and not any(isinstance(x, (_Rec, list, dict, tuple, set)) for x in v.fields.values()):
                    order = [k for k in v.ci.all_fields() if k in v.fields]
                    return tuple(v.fields[k] for k in order) if nm.endswith('astuple') else {k: v.fields[k] for k in order}
                raise _Undecidable(f'{nm} of this value')
            if nm.split('.')[-1] == 'utcfromtimestamp' and len(e.args) == 1 and plain:
                v = self.eval(e.args[0], fi, sc)
                if isinstance(v, str):
                    return f'utc({v})'           # a column token: epoch seconds read as a UTC instant
                if isinstance(v, (int, float)):
                    return _dt.datetime.fromtimestamp(v, _dt.timezone.utc)
                raise _Undecidable('utcfromtimestamp of this value')
            if nm.split('.')[-1] == 'Timestamp' and (nm == 'Timestamp' or nm.split('.')[0] in ('pd', 'pandas')) \
                    and not any(isinstance(a, ast.Starred) for a in e.args) and all(k.arg for k in e.keywords):
                return self._timestamp(e, [self.eval(a, fi, sc) for a in e.args], {k.arg: self.eval(k.value, fi, sc) for k in e.keywords})
            if isinstance(e.func, ast.Attribute) and e.func.attr in ('timestamp', 'astimezone', 'total_seconds', 'tz_localize', 'tz_convert'):
                recv = self.eval(e.func.value, fi, sc)
                args = [self.eval(a, fi, sc) for a in e.args]
                if isinstance(recv, _dt.datetime) and not e.keywords:
                    if e.func.attr == 'timestamp' and not args:
                        return (recv if recv.tzinfo is not None else recv.replace(tzinfo=LOCAL)).timestamp()
                    if e.func.attr == 'astimezone' and len(args) <= 1:
                        src = recv if recv.tzinfo is not None else recv.replace(tzinfo=LOCAL)
                        return self.guard(src.astimezone, [args[0] if args else LOCAL])
                    if e.func.attr == 'tz_localize' and len(args) == 1 and recv.tzinfo is None:
                        tz = _dt.timezone.utc if isinstance(args[0], str) and args[0].upper() == 'UTC' else args[0]
                        if isinstance(tz, _dt.tzinfo):
                            return recv.replace(tzinfo=tz)
                if isinstance(recv, _dt.timedelta) and e.func.attr == 'total_seconds' and not args and not e.keywords:
                    return recv.total_seconds()
                raise _Undecidable(f'{e.func.attr} of {type(recv).__name__}')
            if isinstance(e.func, ast.Attribute) and e.func.attr in ('clear', 'pop', 'remove', 'reverse', 'sort') and plain:
                recv = self.eval(e.func.value, fi, sc)
                if isinstance(recv, (list, dict)) and (e.func.attr != 'sort' or isinstance(recv, list)):
                    return self.guard(getattr(recv, e.func.attr), [self.eval(a, fi, sc) for a in e.args])
            if isinstance(e.func, ast.Name) and e.func.id in ('getattr', 'setattr', 'hasattr', 'map') \
                    and not any(e.func.id in s_ for s_ in sc) and plain:
                if e.func.id == 'map' and len(e.args) >= 2:
                    cols = [self.iterate(self.eval(a, fi, sc)) for a in e.args[1:]]
                    out = []
                    for r in zip(*cols):
                        names = [f'\x00m{i}' for i in range(len(r))]
                        call = ast.copy_location(ast.Call(func=e.args[0], args=[ast.Name(id=n_, ctx=ast.Load()) for n_ in names], keywords=[]), e)
                        out.append(self.eval_call(call, fi, sc + [dict(zip(names, r))]))
                    return out
                args = [self.eval(a, fi, sc) for a in e.args]
                if e.func.id in ('getattr', 'hasattr') and len(args) in (2, 3) and isinstance(args[1], str) and \
                        (self.is_nt(args[0]) or isinstance(args[0], _Mod)):
                    try:
                        v = getattr(args[0], args[1]) if self.is_nt(args[0]) and args[1] in type(args[0])._fields \
                            else self.member(args[0], args[1]) if isinstance(args[0], _Mod) else None
                        if v is None and self.is_nt(args[0]):
                            raise _Undecidable(f'attribute {args[1]} of a {type(args[0]).__name__}')
                        return True if e.func.id == 'hasattr' else v
                    except _Undecidable:
                        if isinstance(args[0], _Mod) and e.func.id == 'hasattr':
                            return False
                        raise
                if e.func.id in ('getattr', 'hasattr') and len(args) in (2, 3) and isinstance(args[0], _Rec) and isinstance(args[1], str):
                    if e.func.id == 'hasattr':
                        return args[1] in args[0].fields
                    if args[1] in args[0].fields:
                        return args[0].fields[args[1]]
                    if len(args) == 3:
                        return args[2]
                    raise _Raised(AttributeError(args[1]))
                if e.func.id == 'setattr' and len(args) == 3 and isinstance(args[0], _Rec) and isinstance(args[1], str):
                    args[0].fields[args[1]] = args[2]
                    return None
                raise _Undecidable(f'{e.func.id} on {args[:1]!r}')
            if nm.startswith(LOG_CALLS):
                return None
            if isinstance(e.func, ast.Name) and e.func.id == 'isinstance' and len(e.args) == 2 and plain \
                    and not any('isinstance' in s_ for s_ in sc):
                v, spec = self.eval(e.args[0], fi, sc), self.eval(e.args[1], fi, sc)
                return self.instance_of(v, spec)
            if isinstance(e.func, ast.Attribute):
                try:
                    recv, attr = self.eval(e.func.value, fi, sc), e.func.attr     # a (dotted / held) name: no effects
                except _Undecidable:
                    return super().eval_call(e, fi, sc)
                rec_cls = isinstance(recv, _ClassRef) and not _is_enum(recv.ci) and self.nt_home(recv.ci) is not None
                safe = type(recv) in (list, dict) and attr in ('append', 'extend', 'insert', 'get', 'copy', 'keys', 'values', 'items', 'setdefault')
                if isinstance(recv, _Mod) or self.is_nt(recv) or (rec_cls and attr == '_make') or safe:
                    args = []
                    for a in e.args:
                        if isinstance(a, ast.Starred):
                            args.extend(self.iterate(self.eval(a.value, fi, sc)))
                        else:
                            args.append(self.eval(a, fi, sc))
                    kwargs = {}
                    for k in e.keywords:
                        if k.arg is None:
                            kwargs.update(self.eval(k.value, fi, sc))
                        else:
                            kwargs[k.arg] = self.eval(k.value, fi, sc)
                    if isinstance(recv, _Mod):
                        return self.call_value(self.member(recv, attr), args, kwargs, e, fi, sc)
                    if rec_cls:
                        return self.guard(self.nt_type(recv.ci)._make, args, kwargs)
                    if safe:       # the container keeps or hands back what it is given; it calls nothing
                        return self.guard(getattr(recv, attr), args, kwargs)
                    if attr in ('_replace', '_asdict', 'index', 'count'):
                        return self.guard(getattr(recv, attr), args, kwargs)
                    home = self._nt_types[type(recv)]
                    if home is not None and self._method_node(home, attr)[1] is not None:
                        return self.call_method(home, attr, recv, args, kwargs)
                    raise _Undecidable(f'method {attr} of a {type(recv).__name__}')
            else:
                f = self.eval(e.func, fi, sc)
                if f is _collections.namedtuple or (isinstance(f, type) and f in self._nt_types):
                    if any(isinstance(a, ast.Starred) for a in e.args) or any(k.arg is None for k in e.keywords):
                        raise _Undecidable(f'call of {nm}')
                    r = self.guard(f, [self.eval(a, fi, sc) for a in e.args], {k.arg: self.eval(k.value, fi, sc) for k in e.keywords})
                    if f is _collections.namedtuple:
                        self._nt_types.setdefault(r, None)
                    return r
            return super().eval_call(e, fi, sc)

        def assign(self, t, v, fi, sc):
            if isinstance(t, ast.Attribute):
                obj = self.eval(t.value, fi, sc)
                if isinstance(obj, _Rec):
                    obj.fields[t.attr] = v
                    return
            return super().assign(t, v, fi, sc)

        def exec(self, st, fi, sc):
            self.nodes.append((fi.module, st))
            try:
                return self._exec(st, fi, sc)
            finally:
                self.nodes.pop()

        def _exec(self, st, fi, sc):
            if isinstance(st, ast.AugAssign) and isinstance(st.target, (ast.Name, ast.Attribute)):
                load = _clone(st.target)
                load.ctx = ast.Load()
                cur = self.eval(load, fi, sc)
                f = _BINOPS.get(type(st.op))
                if f is None:
                    raise _Undecidable('augmented assignment')
                val = self.eval(st.value, fi, sc)
                if isinstance(cur, list):
                    if not isinstance(st.op, ast.Add):
                        raise _Undecidable('in-place update of a list')
                    cur.extend(self.iterate(val))      # the same list object: aliases see it
                    return None
                if isinstance(cur, (set, dict)):
                    raise _Undecidable('in-place update of a container')
                return self.assign(st.target, self.guard(f, [cur, val]), fi, sc)
            return super().exec(st, fi, sc)

    return QueryInterp(prog), _Rec, _Undecidable, _Raised


def _norm_sql(s: str) -> str:
    """SQL text as the database reads it, for comparison: a sequence of tokens; case and layout do not matter"""
    return ' '.join(re.findall(r"[A-Za-z_][\w.]*|\d+(?:\.\d+)?|'[^']*'|[^\s\w]", s.lower()))


def _depth0_split(s: str, sep: str) -> list[str]:
    out, depth, cur, i = [], 0, '', 0
    while i < len(s):
        ch = s[i]
        if ch == '(':
            depth += 1
        elif ch == ')':
            depth -= 1
        if depth == 0 and s.startswith(sep, i):
            out.append(cur)
            cur = ''
            i += len(sep)
            continue
        cur += ch
        i += 1
    out.append(cur)
    return out


_CLAUSES = ('select', 'from', 'where', 'group by', 'order by', 'limit', 'offset')


def _clauses(sql: str) -> dict[str, str]:
    """{clause keyword: text} of one (normalised) SELECT statement, split at parenthesis depth 0"""
    out, depth, i, cur, key = {}, 0, 0, '', None
    s = sql + ' '
    while i < len(s):
        ch = s[i]
        if ch == '(':
            depth += 1
        elif ch == ')':
            depth -= 1
        if depth == 0 and (i == 0 or s[i - 1] == ' '):
            kw = next((k for k in _CLAUSES if s.startswith(k + ' ', i)), None)
            if kw is not None:
                if key is not None:
                    out[key] = cur.strip()
                elif cur.strip():
                    out['<head>'] = cur.strip()
                key, cur = kw, ''
                i += len(kw)
                continue
        cur += ch
        i += 1
    if key is not None:
        out[key] = cur.strip()
    return out


def _bound_conjuncts(where: str, params: list):
    """multiset of (conjunct text, its parameters) of a normalised WHERE text: conjuncts split at depth 0, parameters
    handed out in order of the placeholders; None when their numbers differ"""
    conj = [c.strip() for c in _depth0_split(where, ' and ')] if where.strip() else []
    need = sum(c.count('?') for c in conj)
    if need != len(params):
        return None
    out, i = [], 0
    for c in conj:
        k = c.count('?')
        out.append((c, tuple(params[i:i + k])))
        i += k
    return Counter(out)


def _marks(n: int) -> str:
    return ', '.join('?' * n)


def _documented_filter(f: dict, t: str) -> Counter:
    """the conditions a Filter with these (normalised) attributes stands for, per its documentation and the schema:
    multiset of (normalised SQL conjunct, parameters)"""
    out = []
    for col, field, op in (('distance', 'min_distance', '>='), ('distance', 'max_distance', '<='),
                           ('seat_capacity', 'min_seat_capacity', '>='), ('seat_capacity', 'max_seat_capacity', '<=')):
        if f.get(field) is not None:
            out.append((f'{t}{col} {op} ?', (f[field],)))
    for field in ('service_type', 'aircraft_type'):
        v = f.get(field)
        if v:
            out.append((f'{t}{field} in ({_marks(len(v))})', tuple(v)))
    subs = {'airport': lambda n: f'(select id from airports where iata_code in ({_marks(n)}))',
            'country': lambda n: f'(select id from airports where country in ({_marks(n)}))',
            'continent': lambda n: f'(select id from airports where country in (select code from countries where continent in ({_marks(n)})))'}
    box = ('(select id from airport_location_idx where min_latitude >= ? and max_latitude <= ? '
           'and min_longitude >= ? and max_longitude <= ?)')
    for kind in _SPATIAL_KINDS:
        for pos in _POSITIONS:
            v = f.get(pos + kind)
            if v is None:
                continue
            if kind == 'bounding_box':
                sub, par = box, tuple(v)
            else:
                sub, par = subs[kind](len(v)), tuple(v)
            if pos == '':
                out.append((f'({t}origin in {sub} or {t}destination in {sub})', par + par))
            else:
                out.append((f'{t}{pos[:-1]} in {sub}', par))
    return Counter((_norm_sql(c), p) for c, p in out)


def _filter_table():
    box = (10.0, 20.5, -30.0, 40.25)
    box2 = (-5.0, 5.0, 170.0, 180.0)
    rows = [{}]
    for fld, vals in (('min_distance', (0, 500.0)), ('max_distance', (0.0, 1200.5)), ('min_seat_capacity', (0, 50)),
                      ('max_seat_capacity', (0, 300))):
        rows += [{fld: v} for v in vals]
    rows += [{'service_type': 'J'}, {'service_type': ['J', 'F']}, {'service_type': []}, {'aircraft_type': ['738']},
             {'aircraft_type': '320', 'service_type': ['J']}]
    for kind, one, many in (('airport', 'BOS', ['BOS', 'JFK', 'LHR']), ('country', 'US', ['US', 'CA']), ('continent', 'EU', ['EU', 'SA'])):
        for pos in _POSITIONS:
            rows += [{pos + kind: one}, {pos + kind: many}]
        rows.append({'origin_' + kind: many, 'destination_' + kind: one})
    for pos in _POSITIONS:
        rows.append({pos + 'bounding_box': box})
    rows += [{'origin_bounding_box': box, 'destination_bounding_box': box2},
             {'origin_airport': ['BOS'], 'destination_country': ['FR', 'DE']},
             {'origin_continent': 'NA', 'destination_bounding_box': box2},
             {'min_distance': 100, 'max_distance': 5000, 'min_seat_capacity': 1, 'max_seat_capacity': 0, 'service_type': ['J'],
              'aircraft_type': ['738', '320'], 'origin_country': ['US'], 'destination_continent': ['EU', 'AS']},
             {'country': ['MY'], 'max_seat_capacity': 400}]
    return rows


_FAILURES = (TypeError, KeyError, IndexError, AttributeError, ZeroDivisionError, UnboundLocalError)


def _failure(exc) -> str | None:
    """text for an exception that is a failure of the code (not a refusal of the input), else None"""
    if isinstance(exc, _FAILURES):
        return f'{type(exc).__name__}({str(exc)[:90]})'
    return None


def _make_filter(prog, _Rec, spec):
    fm = prog.module(F)
    cls, bb = fm.cls('Filter'), fm.cls('BoundingBox')
    vals = {k: None for k in cls.all_fields()}
    for k, v in spec.items():
        if k not in vals:
            raise KeyError(k)
        if k.endswith('bounding_box'):
            v = _Rec(bb.name, dict(zip(('min_latitude', 'max_latitude', 'min_longitude', 'max_longitude'), v)), bb)
        elif isinstance(v, list):
            v = list(v)
        vals[k] = v
    return _Rec(cls.name, vals, cls)


def _listed(spec):
    """the filter's attributes as the documentation reads them: a single string is a one-element list"""
    out = {}
    for k, v in spec.items():
        out[k] = [v] if isinstance(v, str) else v
    return out


def rule_filter_evaluated(ctx):
    """R3/R7 by evaluation: Filter.to_sql run on a table of filters (every attribute alone with ordinary and zero
    values, single strings and lists, every region type in every position, legal mixes) must return exactly the
    documented conditions, each with its own parameters in placeholder order, ('', []) for a filter without
    conditions, and the same answer when asked twice."""
    prog = ctx.prog
    fm = prog.module(F)
    ts = fm.func('Filter.to_sql')
    interp, _Rec, _Undecidable, _Raised = _c14_interp(prog)
    n = 0
    bad = None
    try:
        for spec in _filter_table():
            for table in ('f', None):
                rec = _make_filter(prog, _Rec, spec)
                n += 1
                try:
                    interp.steps = 0
                    first = interp.call_method(ts.cls, 'to_sql', rec, [], {'table': table} if table else {})
                    interp.steps = 0
                    again = interp.call_method(ts.cls, 'to_sql', rec, [], {'table': table} if table else {})
                except _Raised as ex:
                    if not isinstance(ex.exc, (ValueError, AssertionError)) and not _failure(ex.exc):
                        raise
                    if bad is None:
                        bad = (spec, table, f'this legal filter is refused: {type(ex.exc).__name__}({str(ex.exc)[:80]})'
                               if not _failure(ex.exc) else f'building the conditions of this legal filter fails: {_failure(ex.exc)}')
                    continue
                if not (isinstance(first, tuple) and len(first) == 2 and isinstance(first[0], str) and isinstance(first[1], list)):
                    raise _Undecidable(f'to_sql returned {first!r}')
                want = _documented_filter(_listed(spec), 'f.' if table else '')
                got = _bound_conjuncts(_norm_sql(first[0]), first[1])
                why = None
                if got is None:
                    why = f'{first[0].count("?")} placeholders but {len(first[1])} parameters'
                elif got != want:
                    miss, extra = want - got, got - want
                    why = ('; '.join(([f'missing: {c} <- {list(p)}' for c, p in miss][:2]) + ([f'unexpected: {c} <- {list(p)}' for c, p in extra][:2])))[:400]
                elif not want and (first[0] != '' or first[1] != []):
                    why = f'a filter without conditions gives {first!r}, not the empty condition'
                elif (again[0], list(again[1])) != (first[0], list(first[1])):
                    why = 'asking twice gives different answers'
                if why and bad is None:
                    bad = (spec, table, why)
    except KeyError as ex:
        ctx.undecided('C14-R3', ts, 'Filter.to_sql on the table of filters', f'Filter has no field {ex}')
    except (_Undecidable, _Raised) as ex:
        ctx.undecided('C14-R3', ts, 'Filter.to_sql on the table of filters', f'cannot run it: {ex}')
    ctx.floor('C14-R3/evaluated', n, 80, 'filters evaluated')
    ok = bad is None
    ctx.ob('C14-R3', ts, 'Filter.to_sql returns the documented conditions with their own parameters', ok,
           f'on all {n} filters of the table (zero-valued bounds, single strings, every region type and position, legal mixes)' if ok else
           f'Filter({", ".join(f"{k}={v!r}" for k, v in bad[0].items())}).to_sql({"table=" + repr(bad[1]) if bad[1] else ""}): {bad[2]}')


_SELECT_LIST = ('s.departure_timestamp, s.arrival_timestamp, s.id as id, f.id as flight_id, f.carrier, f.flight_number, '
                'ao.iata_code as origin, ao.country as origin_country, ad.iata_code as destination, ad.country as destination_country, '
                'f.service_type, f.aircraft_type, f.engine_type, f.distance, f.seat_capacity')
_JOINS = 'schedules s join flights f on f.id = s.flight_id join airports ao on f.origin = ao.id join airports ad on f.destination = ad.id'
_SAMPLE = '(random() + 9223372036854775808) / 18446744073709551615.0 < ?'


def _epoch(d, days=0) -> int:
    import datetime as _dt
    return int((_dt.datetime(d.year, d.month, d.day, tzinfo=_dt.timezone.utc) + _dt.timedelta(days=days)).timestamp())


def _documented_common(cfg, filt_conj, labels=None) -> Counter:
    """the documented WHERE conjuncts of the settings every query class has; labels (if given) receives what each
    conjunct stands for, for the message"""
    out = Counter(filt_conj)
    labels = {} if labels is None else labels
    for k in filt_conj:
        labels.setdefault(k, 'the filter condition')
    if cfg.get('start_date') is not None:
        k = (_norm_sql('s.departure_timestamp >= ?'), (_epoch(cfg['start_date']),))
        out[k] += 1
        labels[k] = 'the start-date condition (inclusive: from 00:00 UTC of that day)'
    if cfg.get('end_date') is not None:
        k = (_norm_sql('s.departure_timestamp < ?'), (_epoch(cfg['end_date'], 1),))
        out[k] += 1
        labels[k] = 'the end-date condition (inclusive: strictly before 00:00 UTC of the following day)'
    return out


def _conjunct_diff(want: Counter, got: Counter | None, labels: dict, sql: str, params: list) -> str:
    """what the WHERE clause lacks and what it has instead, for the message"""
    if got is None:
        return f'{sql.count("?")} placeholders but {len(params)} parameters'
    miss, extra = want - got, got - want
    return '; '.join([f'missing {labels.get((c, p), "condition")} `{c}` <- {list(p)}' for c, p in miss][:2] +
                     [f'unexpected `{c}` <- {list(p)}' for c, p in extra][:2])


def _same_on(a: str, b: str) -> bool:
    """FROM clauses equal up to the order of the two sides of each `x = y` join condition"""
    def canon(s):
        return re.sub(r'on (\S+) = (\S+)', lambda m: 'on ' + ' = '.join(sorted(m.groups())), s)
    return canon(a) == canon(b)


def rule_queries_evaluated(ctx):
    """R4/R6 (and R1's visible side) by evaluation: the three query classes' to_sql run on a grid of settings.  What
    the database is asked must be the documented statement: the select list, the joins, one WHERE conjunct per
    condition with its own parameters (start date inclusive from 00:00 UTC, end date strictly before 00:00 UTC of the
    following day, the sampling fraction, every n-th day counted from the start day or from the first day in the
    data, the filter's conditions), ORDER BY departure time, LIMIT / OFFSET, the documented refusals - and the same
    statement when it is built twice from the same query object."""
    import datetime as _dt
    import itertools
    prog = ctx.prog
    qm = prog.module(Q)
    interp, _Rec, _Undecidable, _Raised = _c14_interp(prog)
    filters = [None, {}, {'country': ['US', 'CA'], 'max_seat_capacity': 0}]
    d1, d2 = _dt.date(2024, 3, 9), _dt.date(2024, 3, 31)     # a DST change of many zones lies between them
    found = {}                                              # (rule, construct) -> (ok, why, fi)
    stale = []                                              # parameter lists handed out, then changed by a later to_sql()
    counts = Counter()
    cols_seen = None

    def verdict(rule, fi, construct, ok, why):
        key = (rule, construct)
        if key not in found or (found[key][0] and not ok):
            found[key] = (ok, why, fi)

    def make(clsname, cfg):
        ci = qm.cls(clsname)
        vals = {}
        for k, ann in ci.all_fields().items():
            if 'ClassVar' in norm(ann):
                continue
            vals[k] = None
        for c_ in reversed(ci.mro()):
            for k, v in c_.class_assignments().items():
                if k in vals and v is not None and const_value(v) is not None:
                    vals[k] = const_value(v)
        for k, v in cfg.items():
            if k not in vals:
                raise KeyError(k)
            vals[k] = _make_filter(prog, _Rec, v) if k == 'filter' and v is not None else v
        rec = _Rec(ci.name, vals, ci)
        if any('__post_init__' in c_.methods for c_ in ci.mro()):
            interp.steps = 0
            interp.call_method(ci, '__post_init__', rec, [], {})
        return ci, rec

    def run(clsname, cfg):
        ci, rec = make(clsname, cfg)
        out = []
        handed = None
        for _ in range(2):
            interp.steps = 0
            try:
                r = interp.call_method(ci, 'to_sql', rec, [], {})
                if not (isinstance(r, tuple) and len(r) == 2 and isinstance(r[0], str) and isinstance(r[1], list)):
                    raise _Undecidable(f'{clsname}.to_sql returned {r!r}')
                out.append((r[0], list(r[1])))
                if handed is None:
                    handed = (r[1], list(r[1]))
            except _Raised as ex:
                if isinstance(ex.exc, ValueError):
                    out.append('ValueError')
                elif _failure(ex.exc):
                    out.append(f'building the statement fails: {_failure(ex.exc)}')
                else:
                    raise
        # the list handed out belongs to the caller (the statement may run later: results are lazy): change a setting,
        # build again, and the first list must still be what it was
        moved = next((k for k in ('start_date', 'end_date') if rec.fields.get(k) is not None), None)
        if handed is not None and moved is not None:
            rec.fields[moved] = rec.fields[moved] + _dt.timedelta(days=1)
            interp.steps = 0
            try:
                interp.call_method(ci, 'to_sql', rec, [], {})
            except _Raised:
                pass
            if handed[0] != handed[1] and not stale:
                stale.append((clsname, cfg))
        return out

    def filter_conj(spec):
        if spec is None:
            return Counter()
        return _documented_filter(_listed(spec), 'f.')

    def show(cfg):
        return ', '.join(f'{k}={v if not isinstance(v, _dt.date) else v.isoformat()}' for k, v in cfg.items() if v is not None) or 'no settings'

    qs, cq, ff = qm.func('Query.to_sql'), qm.func('CountQuery.to_sql'), qm.func('FrequentFlightQuery.to_sql')
    try:
        # ---- Query
        paging = ((None, None), (10, None), (7, 5))
        grid = [(None, st_, en_, nth_, sm_) for st_, en_, nth_, sm_ in itertools.product((None, d1), (None, d2), (None, 1, 3), (None, 0.25))]
        grid += [(f_, st_, en_, nth_, 0.25 if nth_ else None) for f_ in filters[1:] for st_, en_, nth_ in itertools.product((None, d1), (None, d2), (None, 3))]
        edge = [(None, None, None, None, 1.0, (1, 0)), (None, d1, d1, 1, None, (1, None)), (None, d2, d1, 2, 1.0, (None, None))]
        for i_, (filt, start, end, nth, sample, *pg) in enumerate(grid + edge):
            limit, offset = pg[0] if pg else paging[i_ % 3]
            cfg = {'filter': filt, 'start_date': start, 'end_date': end, 'every_nth': nth, 'sample': sample, 'limit': limit, 'offset': offset}
            a, b = run('Query', cfg)
            counts['Query'] += 1
            verdict('C14-R1', qs, 'Query.to_sql built twice gives the same statement', a == b,
                    'same SQL and parameters' if a == b else f'with {show(cfg)} the second to_sql() differs from the first: '
                    f'{str(b)[:120]} vs {str(a)[:120]}')
            if isinstance(a, str):
                verdict('C14-R6', qs, 'legal settings are accepted', False, f'{show(cfg)} is refused with ValueError' if a == 'ValueError' else f'with {show(cfg)}: {a}')
                continue
            sql, params = a
            cl = _clauses(_norm_sql(sql))
            labels = {}
            want = _documented_common(cfg, filter_conj(filt), labels)
            if sample is not None:
                want[(_norm_sql(_SAMPLE), (sample,))] += 1
                labels[(_norm_sql(_SAMPLE), (sample,))] = 'the sampling condition'
            if nth is not None and nth > 1:
                if start is None:
                    k_ = (_norm_sql('(s.day - (select min(day) from schedules)) % ? = 0'), (nth,))
                else:
                    k_ = (_norm_sql('(s.day - ?) % ? = 0'), ((start - _dt.date(1970, 1, 1)).days, nth))
                want[k_] += 1
                labels[k_] = 'the every-n-th-day condition'
            got = _bound_conjuncts(cl.get('where', ''), params)
            ok = got == want
            why = 'each condition once, with its own parameters'
            if not ok:
                why = f'with {show(cfg)}: ' + _conjunct_diff(want, got, labels, sql, params)
            verdict('C14-R6', qs, 'WHERE: start/end dates inclusive (UTC midnights), sampling, every-nth-day, filter — each with its own parameters', ok, why[:600])
            cols_seen = cl.get('select', '')
            ok = cl.get('select') == _norm_sql(_SELECT_LIST)
            verdict('C14-R4', qs, 'select list', ok, 'the fifteen documented columns, origin from ao, destination from ad' if ok else
                    f'select list changed: {cl.get("select", "")[:200]}')
            ok = _same_on(cl.get('from', ''), _norm_sql(_JOINS))
            verdict('C14-R4', qs, 'joins: schedules -> flights -> origin and destination airports', ok, _JOINS if ok else
                    f'joins changed (rows pair the wrong airports/flights): {cl.get("from", "")[:200]}')
            ok = cl.get('order by') == _norm_sql('s.departure_timestamp') and '<head>' not in cl and 'group by' not in cl
            verdict('C14-R4', qs, 'results ordered by departure time', ok, 'ORDER BY s.departure_timestamp for every setting' if ok else
                    f'with {show(cfg)} the statement ends `{_norm_sql(sql)[-80:]}`: results are not (always) ordered by departure time')
            order = [_CLAUSES.index(k) for k in cl if k in _CLAUSES]
            ok = cl.get('limit') == (str(limit) if limit is not None else None) and cl.get('offset') == (str(offset) if offset is not None else None) \
                and order == sorted(order)
            verdict('C14-R6', qs, 'limit and offset appended after ordering', ok, 'LIMIT n [OFFSET m] after ORDER BY' if ok else
                    f'with {show(cfg)} the statement ends `{_norm_sql(sql)[-60:]}`')
        for cfg in ({'sample': 0.0}, {'sample': 1.5}, {'sample': -0.1}, {'every_nth': 0}, {'every_nth': -2}, {'limit': 0}, {'limit': 5, 'offset': -1}, {'offset': 3}):
            a, _ = run('Query', cfg)
            counts['Query'] += 1
            verdict('C14-R6', qs, 'illegal settings are refused', a == 'ValueError', 'ValueError for sample outside (0, 1], every_nth < 1, '
                    'limit < 1, offset < 0, offset without limit' if a == 'ValueError' else f'{show(cfg)} is accepted' if not isinstance(a, str) else f'with {show(cfg)}: {a}')
        # ---- CountQuery
        for filt, start, end in itertools.product(filters, (None, d1), (None, d2)):
            cfg = {'filter': filt, 'start_date': start, 'end_date': end}
            a, b = run('CountQuery', cfg)
            counts['CountQuery'] += 1
            verdict('C14-R1', cq, 'CountQuery.to_sql built twice gives the same statement', a == b, 'same SQL and parameters' if a == b else
                    f'with {show(cfg)} the second to_sql() differs from the first')
            if isinstance(a, str):
                verdict('C14-R4', cq, 'count query counts instances with the same joins', False, f'{show(cfg)} is refused' if a == 'ValueError' else f'with {show(cfg)}: {a}')
                continue
            cl = _clauses(_norm_sql(a[0]))
            labels = {}
            want = _documented_common(cfg, filter_conj(filt), labels)
            got = _bound_conjuncts(cl.get('where', ''), a[1])
            frm = cl.get('from', '')
            ok = got == want and cl.get('select') == _norm_sql('count(s.id)') and (_same_on(frm, _norm_sql(_JOINS)) or (not want and frm == _norm_sql('schedules s'))) \
                and set(cl) <= {'select', 'from', 'where'}
            verdict('C14-R4', cq, 'count query counts instances with the same joins', ok, 'COUNT(s.id) over the same joins and conditions' if ok else
                    f'with {show(cfg)} the WHERE clause is not the documented one: {_conjunct_diff(want, got, labels, a[0], a[1])}'[:600] if got != want else
                    f'with {show(cfg)}: `{_norm_sql(a[0])[:220]}` <- {a[1]}')
        # ---- FrequentFlightQuery
        for filt, start, end, limit in itertools.product(filters, (None, d1), (None, d2), (None, 5)):
            cfg = {'filter': filt, 'start_date': start, 'end_date': end}
            if limit is not None:
                cfg['limit'] = limit
            a, b = run('FrequentFlightQuery', cfg)
            counts['FrequentFlightQuery'] += 1
            verdict('C14-R1', ff, 'FrequentFlightQuery.to_sql built twice gives the same statement', a == b, 'same SQL and parameters' if a == b else
                    f'with {show(cfg)} the second to_sql() differs from the first')
            if isinstance(a, str):
                verdict('C14-R4', ff, 'frequent routes: count per direction-independent pair, descending', False, f'{show(cfg)} is refused' if a == 'ValueError' else f'with {show(cfg)}: {a}')
                continue
            s_ = _norm_sql(a[0])
            m_ = re.match(r'^with counts as \( (.*) \) select (.*)$', s_)
            inner = _clauses(m_.group(1)) if m_ else {}
            outer = _clauses('select ' + m_.group(2)) if m_ else {}
            labels = {}
            want = _documented_common(cfg, filter_conj(filt), labels)
            got = _bound_conjuncts(inner.get('where', ''), a[1])
            lim = str(limit) if limit is not None else '20'
            ok = bool(m_) and got == want and inner.get('select') == _norm_sql('count(s.id) as nflights, f.od_pair as od_pair') \
                and _same_on(inner.get('from', ''), _norm_sql('schedules s join flights f on s.flight_id = f.id')) and inner.get('group by') == 'od_pair' \
                and outer.get('select') == _norm_sql('substring(od_pair, 1, 3) as airport1, substring(od_pair, 4) as airport2, nflights') \
                and outer.get('from') == 'counts' and outer.get('order by') == _norm_sql('nflights desc') and outer.get('limit') == lim \
                and set(inner) <= {'select', 'from', 'where', 'group by'} and set(outer) <= {'select', 'from', 'order by', 'limit'}
            verdict('C14-R4', ff, 'frequent routes: count per direction-independent pair, descending', ok,
                    'instances counted per od_pair under the same conditions, ORDER BY nflights DESC, LIMIT n (default 20)' if ok else
                    f'with {show(cfg)} the WHERE clause of the counting sub-query is not the documented one: '
                    f'{_conjunct_diff(want, got, labels, m_.group(1), a[1])}'[:600] if m_ and got != want else
                    f'with {show(cfg)}: `{s_[:260]}` <- {a[1]}')
        a, _ = run('FrequentFlightQuery', {'limit': 0})
        verdict('C14-R6', ff, 'frequent routes: limit < 1 refused', a == 'ValueError', 'ValueError' if a == 'ValueError' else 'limit=0 is accepted')
    except KeyError as ex:
        ctx.undecided('C14-R4', qs, 'query classes on the grid of settings', f'no field {ex}')
    except (_Undecidable, _Raised) as ex:
        ctx.undecided('C14-R4', qs, 'query classes on the grid of settings', f'cannot run to_sql: {ex}')
    ctx.floor('C14-R4/evaluated', counts['Query'], 45, 'Query settings evaluated')
    ctx.floor('C14-R4/evaluated-count', counts['CountQuery'] + counts['FrequentFlightQuery'], 30, 'CountQuery / FrequentFlightQuery settings evaluated')
    for (rule, construct), (ok, why, fi) in found.items():
        ctx.ob(rule, fi, construct, ok, why)
    ctx.ob('C14-R1', qs, 'the parameter list handed out by to_sql() is not changed by a later to_sql()', not stale,
           'every call builds its own list' if not stale else
           f'{stale[0][0]}({show(stale[0][1])}): the list returned by the first to_sql() is emptied / refilled in place by the second - a result '
           'generator that has not started yet (queries run lazily) then executes the first statement with the second parameters')
    return cols_seen


def rule_columns(ctx):
    prog = ctx.prog
    qm = prog.module(Q)
    qs = qm.func('Query.to_sql')
    sel = rule_queries_evaluated(ctx)
    if not sel:
        ctx.undecided('C14-R4', qs, 'sql', 'no SELECT statement obtained from Query.to_sql')
    cols = []
    for c in sel.split(' , '):
        c = c.strip()
        ma = re.search(r'\bas (\w+)$', c, re.I)
        cols.append(ma.group(1) if ma else c.split('.')[-1])
    # from_row, by evaluation: build a result from a row whose i-th element is the token `row[i]`; every field must come
    # from the column of its own name, the two instants through a from-epoch-seconds-as-UTC conversion
    interp, _Rec, _Undecidable, _Raised = _c14_interp(prog)
    from .c13 import _ClassRef
    fr = qm.func('QueryResult.from_row')
    alias = {'departure': 'departure_timestamp', 'arrival': 'arrival_timestamp'}

    def built(fi_, width):
        try:
            interp.steps = 0
            r = interp.call_method(fi_.cls, 'from_row', _ClassRef(fi_.cls), [tuple(f'row[{i}]' for i in range(width))], {})
        except (_Undecidable, _Raised) as ex:
            ctx.undecided('C14-R4', fi_, 'from_row', f'cannot run it on a row of column tokens: {ex}')
        if not isinstance(r, _Rec):
            ctx.undecided('C14-R4', fi_, 'from_row', f'returned {r!r}')
        return r.fields
    got = built(fr, max(len(cols), 15))
    n = 0
    for k, v in got.items():
        n += 1
        want = alias.get(k, k)
        mi = re.fullmatch(r'(utc\()?row\[(\d+)\]\)?', v) if isinstance(v, str) else None
        idx = int(mi.group(2)) if mi else None
        ok = idx is not None and idx < len(cols) and cols[idx] == want and bool(mi.group(1)) == (k in alias)
        ctx.ob('C14-R4', fr, f'{k} = {v} ({cols[idx] if idx is not None and idx < len(cols) else "?"})', ok,
               'field reads the column of the same name' + (' (epoch seconds read as UTC)' if k in alias else '') if ok else
               (f'field `{k}` is built from `{v}`: not the plain value of one column' if idx is None else
                f'field `{k}` reads column {idx} which the SELECT list defines as `{cols[idx] if idx < len(cols) else "out of range"}`'
                + ('' if bool(mi.group(1)) == (k in alias) else '; epoch seconds must be read as a UTC instant exactly for departure/arrival')))
    ctx.floor('C14-R4', n, 15, 'QueryResult fields')
    ok = len(cols) == n
    ctx.ob('C14-R4', qs, f'{len(cols)} selected columns for {n} result fields', ok, 'same number' if ok else 'arity differs',
           nontrivial=False)
    ffr = qm.func('FrequentFlightQueryResult.from_row')
    got = built(ffr, 3)
    ok = got == {'airport1': 'row[0]', 'airport2': 'row[1]', 'number_of_flights': 'row[2]'}
    ctx.ob('C14-R4', ffr, f'{got}', ok, 'fields follow the SELECT order' if ok else 'frequent-route fields read the wrong columns')
    rule_filter_evaluated(ctx)
    rule_spatial(ctx)


# ---------------------------------------------------------------- R5 -----
def rule_spatial(ctx):
    """R5 — the documented compatibility rule of spatial filters ("a single combined spatial filter, or one optional
    filter for the origin and/or one for the destination"), decided by running Filter._normalize in the checker's
    interpreter on filters with every subset of the four region types set in each of the three positions, unset
    written as None or as an empty list, set as a list or as a single string: it must refuse (ValueError) exactly the
    combinations the documentation refuses, and leave single strings as one-element lists."""
    import itertools
    prog = ctx.prog
    fm = prog.module(F)
    nm = fm.func('Filter._normalize')
    cls = nm.cls
    fields = list(cls.all_fields())
    need = [pos + k for pos in _POSITIONS for k in _SPATIAL_KINDS]
    if any(f not in fields for f in need):
        ctx.undecided('C14-R5', nm, 'spatial fields', f'Filter has no field {[f for f in need if f not in fields][:3]}')
    interp, _Rec, _Undecidable, _Raised = _c14_interp(prog)
    # every count pattern (how many region types are set in the combined / origin / destination position: 0, 1, 2,
    # and a few with 3 and 4), each with the region types rotated through the four kinds
    K = _SPATIAL_KINDS
    cases = []
    for pat in list(itertools.product(range(3), repeat=3)) + [(3, 0, 0), (0, 3, 1), (1, 0, 4), (4, 4, 4), (0, 1, 3)]:
        for r in range(4):
            cases.append(tuple(tuple(K[(r + p + j) % 4] for j in range(cnt)) for p, cnt in enumerate(pat)))
    n = 0
    bad = broken = None
    strs_ok = True
    regions = set()
    try:
        for i, (cs, os_, ds) in enumerate(dict.fromkeys(cases)):
            vals = {f: None for f in fields}
            was_str = []
            for pos, chosen in zip(_POSITIONS, (cs, os_, ds)):
                for j, k in enumerate(_SPATIAL_KINDS):
                    if k == 'bounding_box':
                        vals[pos + k] = ('<box>',) if k in chosen else None
                    elif k in chosen:
                        as_str = (i + j) % 3 == 0
                        vals[pos + k] = 'XX' if as_str else ['XX', 'YY'][:1 + (i + j) % 2]
                        if as_str:
                            was_str.append(pos + k)
                    else:
                        vals[pos + k] = [] if (i + j) % 2 else None
            rec = _Rec(cls.name, vals, cls)
            want_ok = (len(cs) == 1 and not os_ and not ds) or (not cs and len(os_) <= 1 and len(ds) <= 1)
            regions.add((min(len(cs), 2), min(len(os_), 2), min(len(ds), 2)))
            interp.steps = 0
            try:
                interp.call_method(cls, '_normalize', rec, [], {})
                got_ok = True
            except _Raised as r:
                if not isinstance(r.exc, ValueError) and not (want_ok and _failure(r.exc)):
                    raise
                if not isinstance(r.exc, ValueError) and broken is None:
                    broken = (cs, os_, ds, _failure(r.exc))
                got_ok = False
            n += 1
            if got_ok != want_ok and bad is None:
                bad = (cs, os_, ds, want_ok)
            if got_ok and any(rec.fields[f] != ['XX'] for f in was_str):
                strs_ok = False
    except (_Undecidable, _Raised) as ex:
        ctx.undecided('C14-R5', nm, 'spatial compatibility rule', f'cannot run Filter._normalize on the table of filters: {ex}')
    ctx.floor('C14-R5', len(regions), 27, 'count patterns (0 / 1 / more per position) of spatial filters evaluated')
    why = (f'Filter._normalize accepts exactly the documented combinations on all {n} filters tried '
           '(every count pattern of airport / country / continent / bounding_box per position)')
    if bad is not None:
        cs, os_, ds, want_ok = bad
        desc = '; '.join(f'{nm_}: {", ".join(x) or "none"}' for nm_, x in (('combined', cs), ('origin', os_), ('destination', ds)))
        why = (f'the compatibility rule of spatial filters changed: with [{desc}] the documentation '
               + ('allows the filter but it is refused' if want_ok else 'refuses the filter but it is accepted (the conditions are then AND-ed silently)'))
        if broken is not None and broken[:3] == bad[:3]:
            why = f'with [{desc}] the documentation allows the filter but checking it fails: {broken[3]}' 
    ctx.ob('C14-R5', nm, 'spatial compatibility: one combined filter, or at most one origin and one destination', bad is None, why)
    ctx.ob('C14-R5', nm, 'single strings become one-element lists', strs_ok,
           'every str-valued region filter is a list after normalisation' if strs_ok else
           'a region filter given as a single string is not turned into a one-element list: it is then iterated character by character',
           nontrivial=False)


# ---------------------------------------------------------------- R7 -----
def _truth_atoms(t):
    if isinstance(t, ast.BoolOp):
        for v in t.values:
            yield from _truth_atoms(v)
    elif isinstance(t, ast.UnaryOp) and isinstance(t.op, ast.Not):
        yield from _truth_atoms(t.operand)
    else:
        yield t


def _truth_tested(fn):
    """(atom, enclosing test) for every expression whose truth value decides something: tests of if / while /
    conditional expressions / assert / comprehension filters, operands of `not`, and the operands of and/or that
    are tested before the last one is taken"""
    seen = set()
    for x in walk_no_nested(fn):
        tests = []
        if isinstance(x, (ast.If, ast.While, ast.IfExp, ast.Assert)):
            tests.append(x.test)
        elif isinstance(x, ast.comprehension):
            tests += x.ifs
        elif isinstance(x, ast.BoolOp):
            tests += x.values[:-1]
        elif isinstance(x, ast.UnaryOp) and isinstance(x.op, ast.Not):
            tests.append(x.operand)
        elif isinstance(x, ast.Call) and call_name(x) == 'bool' and len(x.args) == 1:
            tests.append(x.args[0])
        for t in tests:
            for a in _truth_atoms(t):
                if id(a) not in seen:
                    seen.add(id(a))
                    yield a, t


def rule_is_set(ctx):
    """"is this optional numeric set?" must be decided by `is (not) None`, never
    by truthiness: 0 is a legitimate bound (max_seat_capacity=0 selects all-cargo
    flights), and a dropped bound silently selects everything.  The tests are read on the expanded view, so the
    value tested may reach the test through a table-driven loop, a comprehension filter, a local or a helper's
    parameter."""
    prog = ctx.prog
    classes = [prog.cls(F, 'Filter')] + [c for c in prog.subclasses_of('QueryBase')]
    n = 0
    for cls in classes:
        numeric = _numeric_optionals(cls)
        if not numeric:
            continue
        fns = [f for f in cls.module.functions.values() if f.cls is cls]
        for fi in fns:
            view = _view(prog, fi)
            # parameters of helpers (not merged into the view) that receive such a field
            tainted = {}
            for c in calls_in(view.node):
                callee = resolve_call(prog, view, c)
                if callee is None:
                    continue
                off = 1 if callee.params[:1] in (['self'], ['cls']) else 0
                for i, a in enumerate(c.args):
                    a = _resolve(view, a)
                    if isinstance(a, ast.Attribute) and norm(a.value) == 'self' and a.attr in numeric \
                            and i + off < len(callee.params):
                        held = tainted.setdefault(callee.qualname, {})
                        got = set(held.get(callee.params[i + off], '').split(' / ')) - {''} | {a.attr}
                        held[callee.params[i + off]] = ' / '.join(sorted(got))        # every field the parameter receives
            scopes = [(view, {f'self.{x}': x for x in numeric})]
            for q, prm in tainted.items():
                callee = fi.module.functions.get(q)
                if callee is not None:
                    scopes.append((callee, dict(prm)))
            for fn, subj in scopes:
                def subject(e):
                    txt = norm(_resolve(fn, e)) if isinstance(e, ast.Name) else norm(e)
                    if isinstance(e, ast.Name) and norm(e) in subj:
                        txt = norm(e)
                    return subj.get(txt)
                for a, t in _truth_tested(fn.node):
                    s = subject(a)
                    if s is not None:
                        n += 1
                        ctx.ob('C14-R7', fn, f'`{norm(t)}` tests {s} by truthiness', False,
                               f'the optional numeric `{s}` counts as "not set" when it is 0: a bound of 0 '
                               '(e.g. max_seat_capacity=0) is silently dropped and the query selects everything',
                               line=t.lineno)
                    elif isinstance(a, ast.Compare) and len(a.ops) == 1 and subject(a.left) is not None and \
                            isinstance(a.ops[0], (ast.Is, ast.IsNot, ast.Eq, ast.NotEq)) and norm(a.comparators[0]) == 'None':
                        n += 1
                        ctx.ob('C14-R7', fn, f'`{norm(a)}`', True, 'compared with None itself', line=a.lineno,
                               nontrivial=False)
    ctx.floor('C14-R7', n, 6, 'is-set tests of optional numeric fields')


def _with_value(d, name):
    """the context expression bound to `name` by the with statement d, or None"""
    for it in getattr(d, 'items', []):
        if it.optional_vars is not None and name in assigned_names(it.optional_vars):
            return it.context_expr
    return None


def _call_sites(prog, fns, callee):
    """[(caller, call)] of the calls of `callee` in the functions fns"""
    return [(g, c) for g in fns for c in calls_in(g.node) if resolve_call(prog, g, c) is callee]


def _argument_of(callee, c, param):
    """the expression the call c passes for the parameter `param` of callee (positional or keyword), or None"""
    ps = list(callee.params)
    if callee.cls is not None and ps[:1] in (['self'], ['cls']) and isinstance(c.func, ast.Attribute) \
            and not any(norm(d) == 'staticmethod' for d in callee.node.decorator_list):
        ps = ps[1:]
    elif ps[:1] == ['cls'] and any(norm(d) == 'classmethod' for d in callee.node.decorator_list):
        ps = ps[1:]
    if any(isinstance(x, ast.Starred) for x in c.args) or any(k.arg is None for k in c.keywords):
        return None
    for k in c.keywords:
        if k.arg == param:
            return k.value
    if param in ps and ps.index(param) < len(c.args):
        return c.args[ps.index(param)]
    return None


def _enclosing(f):
    """the function a nested function is defined in, or None"""
    if '.<locals>.' not in f.qualname:
        return None
    return f.module.functions.get(f.qualname.rsplit('.<locals>.', 1)[0])


class _Cursors:
    """where the receiver of an `.execute(...)` comes from, in the code reachable from Database.__call__:
    'fresh'  - a cursor made for this call: `<connection>.cursor()` (inline, through locals, `with closing(..) as c`,
               through a parameter every call site of which passes a fresh one), or the connection itself
               (sqlite3's Connection.execute makes a cursor of its own for every statement);
    'shared' - an attribute of the Database object that holds one cursor (bound to `<connection>.cursor()` by code that
               does not run per query): every query issued through the object iterates it;
    None     - cannot tell."""

    def __init__(self, prog, cls, reach):
        self.prog, self.cls, self.reach = prog, cls, reach
        self.stores = {}          # attribute of self -> [(function, value)]
        fam = [c for c in prog.subclasses_of(cls.name)] + list(cls.mro())
        seen = set()
        for c in fam:
            for m in c.methods.values():
                if id(m) in seen:
                    continue
                seen.add(id(m))
                for t, st, how in stores_to(m.node):
                    if isinstance(t, ast.Attribute) and norm(t.value) == 'self' and how == 'assign' and getattr(st, 'value', None) is not None:
                        if const_value(st.value) is not None or not (isinstance(st.value, ast.Constant) and st.value.value is None):
                            self.stores.setdefault(t.attr, []).append((m, st.value, st))

    def is_connection(self, f, e, depth=0):
        e = _resolve(f, e)
        if isinstance(e, ast.Call):
            return call_name(e).split('.')[-1] == 'connect'
        if isinstance(e, ast.Attribute) and norm(e.value) == 'self':
            vs = self.stores.get(e.attr, [])
            return bool(vs) and depth < 3 and all(self.is_connection(m, v, depth + 1) for m, v, _ in vs)
        return False

    def kind(self, f, e, depth=0):
        """(kind, why)"""
        if depth > 6:
            return None, 'too deep'
        if isinstance(e, ast.Call) and call_name(e).split('.')[-1] == 'closing' and len(e.args) == 1:
            return self.kind(f, e.args[0], depth + 1)
        if isinstance(e, ast.Call) and isinstance(e.func, ast.Attribute) and e.func.attr == 'cursor' and not e.args:
            if self.is_connection(f, e.func.value):
                return 'fresh', f'`{norm(e)}` makes a cursor for this query'
            return None, f'`{norm(e.func.value)}` is not known to be the connection'
        if isinstance(e, ast.Name):
            defs = local_defs(f.node, e.id)
            if not defs and e.id not in f.params and _enclosing(f) is not None:
                return self.kind(_enclosing(f), e, depth + 1)      # a free variable of a nested function
            if not defs and e.id in f.params:
                sites = _call_sites(self.prog, self.reach, f)
                if not sites:
                    return None, f'no call of {f.name} found'
                got = []
                for g, c in sites:
                    a = _argument_of(f, c, e.id)
                    got.append(self.kind(g, a, depth + 1) if a is not None else (None, f'argument `{e.id}` of `{norm(c)[:40]}`'))
                for k in ('shared', None):
                    for kd, why in got:
                        if kd == k:
                            return kd, why
                return 'fresh', got[0][1] + (f' (passed to {f.name} as `{e.id}`)')
            got = []
            for d in defs:
                v = _with_value(d, e.id) if isinstance(d, (ast.With, ast.AsyncWith)) else \
                    d.value if isinstance(d, (ast.Assign, ast.AnnAssign)) and norm(getattr(d, 'target', None) or d.targets[0]) == e.id else None
                got.append(self.kind(f, v, depth + 1) if v is not None else (None, f'`{e.id}` is bound by `{norm(d)[:40]}`'))
            for k in ('shared', None):
                for kd, why in got:
                    if kd == k:
                        return kd, why
            return ('fresh', f'{e.id} = {got[0][1]}') if got else (None, f'`{e.id}` is not bound here')
        if isinstance(e, ast.Attribute) and norm(e.value) == 'self':
            if self.is_connection(f, e):
                return 'fresh', f'`{norm(e)}` is the connection: its execute() makes a cursor of its own for every statement'
            vs = self.stores.get(e.attr, [])
            made = [(m, v, st) for m, v, st in vs if self.kind(m, v, depth + 1)[0] in ('fresh', 'shared')]
            if vs and len(made) == len(vs):
                # made by code that does not run per query, or only when there is none yet (made on first use and kept)
                kept = [(m, v, st) for m, v, st in made if not any(m is r for r in self.reach) or guards_of(st)]
                if not kept:
                    return None, (f'`{norm(e)}` is a cursor kept on the Database object and re-bound in {made[0][0].name} on every '
                                  'call: whether two unfinished queries can meet on it is not decided')
                return 'shared', (f'`{norm(e)}` is one cursor made in {kept[0][0].name} (`{norm(e)} = {norm(kept[0][1])}`) and kept on the '
                                  'Database object: every query issued through it runs on that cursor, so a second query replaces '
                                  'the result set an earlier, not yet exhausted query is still reading (it ends early or continues '
                                  'with the other statement\'s rows)')
            return None, f'what `{norm(e)}` holds is not known'
        return None, f'`{norm(e)[:40]}`'


class _NoLocals:
    """the body of a lambda read inside function f: its names are its parameters, not f's locals"""
    def __init__(self, f):
        self.module, self.cls, self.qualname, self.params, self.name = f.module, f.cls, f.qualname, [], f.name
        self.node = ast.Pass()


class _Rows:
    """what Database.__call__ hands out for a query of class qcls, as an abstract value:
    ('rows',)   every row of <cursor>.execute(<sql>, <params>), in order;
    ('conv',)   <result type of the query>.from_row(row) for every such row, in order;
    ('first0',) next(<rows>)[0];   ('query',) the query;   ('rtype',) its RESULT_TYPE;   ('none',) None;
    ('fn', FunctionInfo | Lambda, env) a function;   None = not understood"""

    def __init__(self, prog, qcls):
        self.prog, self.qcls = prog, qcls

    def class_attr(self, name):
        for c in self.qcls.mro():
            ca = c.class_assignments()
            if name in ca and ca[name] is not None:
                return ca[name]
            if name in c.methods:
                return c.methods[name]
        return None

    def val(self, f, e, env, depth=0):
        if depth > 10 or e is None:
            return None
        if isinstance(e, ast.Constant) and e.value is None:
            return ('none',)
        if isinstance(e, ast.Name):
            if e.id in env and not local_defs(f.node, e.id):
                return env[e.id]
            d = single_def_value(f.node, e.id)
            if d is None and not local_defs(f.node, e.id) and e.id not in f.params and '\x00outer' in env:
                of, oenv = env['\x00outer']          # a free variable of a nested function: the enclosing call's
                return self.val(of, e, oenv, depth + 1)
            return self.val(f, d, env, depth + 1) if d is not None else None
        if isinstance(e, ast.Attribute):
            if self.val(f, e.value, env, depth + 1) == ('query',):
                if e.attr == 'RESULT_TYPE':
                    return ('rtype',)
                a = self.class_attr(e.attr)
                if isinstance(a, ast.Lambda):
                    return ('fn', a, {})
                if isinstance(a, ast.AST):
                    return self.val(f, a, {}, depth + 1)
                if a is not None:
                    return ('fn', a, {'self': ('query',)})
            return None
        if isinstance(e, ast.Subscript):
            i = const_value(e.slice)
            b = e.value
            # the first row: next(rows), list(rows)[0], rows.fetchone() (a count statement has exactly one row)
            first = None
            if isinstance(b, ast.Call) and call_name(b) == 'next' and len(b.args) == 1 and not b.keywords:
                first = b.args[0]
            elif isinstance(b, ast.Subscript) and const_value(b.slice) == 0 and isinstance(b.value, ast.Call) \
                    and call_name(b.value) in ('list', 'tuple'):
                first = b.value
            elif isinstance(b, ast.Call) and isinstance(b.func, ast.Attribute) and b.func.attr == 'fetchone' and not b.args:
                first = b.func.value
            if i == 0 and isinstance(i, int) and not isinstance(i, bool) and first is not None \
                    and self.val(f, first, env, depth + 1) == ('rows',):
                return ('first0',)
            return None
        if isinstance(e, (ast.GeneratorExp, ast.ListComp)):
            if len(e.generators) != 1 or e.generators[0].ifs or not isinstance(e.generators[0].target, ast.Name):
                return None
            return self.mapped(f, self.val(f, e.generators[0].iter, env, depth + 1), e.generators[0].target.id, e.elt, env, depth)
        if isinstance(e, ast.Call):
            if isinstance(e.func, ast.Attribute) and e.func.attr == 'execute':
                return ('rows',)
            if call_name(e) in ('iter', 'list', 'tuple') and len(e.args) == 1 and not e.keywords:
                return self.val(f, e.args[0], env, depth + 1)
            fv = self.val(f, e.func, env, depth + 1) if isinstance(e.func, (ast.Attribute, ast.Name)) else None
            if fv is not None and fv[0] == 'fn':
                callee, env0 = fv[1], dict(fv[2])
                if isinstance(callee, ast.Lambda):
                    ps = [a.arg for a in callee.args.args]
                    if len(ps) == len(e.args) + 1:      # a function kept as a class attribute is called as a method
                        env0[ps[0]] = ('query',)
                        ps = ps[1:]
                    if len(ps) != len(e.args) or e.keywords:
                        return None
                    env0.update({p_: self.val(f, a, env, depth + 1) for p_, a in zip(ps, e.args)})
                    return self.val(_NoLocals(f), callee.body, env0, depth + 1)
                ps = [p_ for p_ in callee.params if p_ not in env0]
                if e.keywords or len(e.args) != len(ps) or any(isinstance(a, ast.Starred) for a in e.args):
                    return None
                env0.update({p_: self.val(f, a, env, depth + 1) for p_, a in zip(ps, e.args)})
                return self.result(callee, env0, depth + 1)
            callee = resolve_call(self.prog, f, e)
            if callee is not None and ('.<locals>.' not in callee.qualname or _enclosing(callee) is f):
                env2 = {'\x00outer': (f, env)} if _enclosing(callee) is f else {}
                for p_ in callee.params:
                    if p_ in ('self', 'cls') and callee.cls is not None:
                        continue
                    a = _argument_of(callee, e, p_)
                    if a is not None:
                        env2[p_] = self.val(f, a, env, depth + 1)
                return self.result(callee, env2, depth + 1)
            return None
        return None

    def mapped(self, f, src, var, elt, env, depth):
        """the stream of `elt` for every `var` of the stream src"""
        if src not in (('rows',), ('conv',)):
            return None
        if isinstance(elt, ast.Name) and elt.id == var:
            return src
        if src == ('rows',) and isinstance(elt, ast.Call) and isinstance(elt.func, ast.Attribute) and elt.func.attr == 'from_row' \
                and len(elt.args) == 1 and not elt.keywords and isinstance(elt.args[0], ast.Name) and elt.args[0].id == var \
                and self.val(f, elt.func.value, {k: v for k, v in env.items() if k != var}, depth + 1) == ('rtype',):
            return ('conv',)
        return None

    def read_once(self, g, it, env, depth):
        """the rows the generator function g iterates are read by its loop only: every local that holds them (and the
        cursor they are executed on) is used once - nothing else takes rows off the stream (`next(rows)` before the
        loop, `cur.fetchone()`)"""
        names, todo = set(), [it]
        while todo and len(names) < 8:
            x = todo.pop()
            if isinstance(x, ast.Name):
                if x.id in names:
                    continue
                if self.val(g, x, env, depth + 1) in (('rows',), ('conv',)):
                    names.add(x.id)
                    d = single_def_value(g.node, x.id)
                    if d is not None:
                        todo.append(d)
            elif isinstance(x, ast.Call) and isinstance(x.func, ast.Attribute) and x.func.attr == 'execute':
                if isinstance(x.func.value, ast.Name):
                    names.add(x.func.value.id)
            elif isinstance(x, ast.Call) and call_name(x) in ('iter', 'list', 'tuple') and x.args:
                todo.append(x.args[0])
        uses = Counter(x.id for x in walk_no_nested(g.node) if isinstance(x, ast.Name) and isinstance(x.ctx, ast.Load) and x.id in names)
        return all(v == 1 for v in uses.values())

    def truth(self, f, t, env, depth):
        """a test on what the query's class says (`query.PROCESS_RESULT is not None`): True / False / None"""
        if isinstance(t, ast.UnaryOp) and isinstance(t.op, ast.Not):
            r = self.truth(f, t.operand, env, depth)
            return None if r is None else not r
        if isinstance(t, ast.Compare) and len(t.ops) == 1 and isinstance(t.ops[0], (ast.Is, ast.IsNot)):
            a, b = self.val(f, t.left, env, depth + 1), self.val(f, t.comparators[0], env, depth + 1)
            if a is None or b is None or ('none',) not in (a, b):
                return None
            return (a == b) == isinstance(t.ops[0], ast.Is)
        return None

    def result(self, g, env, depth):
        """what a call of g hands out"""
        if depth > 10:
            return None
        body = real_body(g.node.body)
        outs = [x for x in walk_no_nested(g.node) if isinstance(x, (ast.Yield, ast.YieldFrom))]
        if outs:
            if len(outs) != 1:
                return None
            o = outs[0]
            if isinstance(o, ast.YieldFrom):
                return self.val(g, o.value, env, depth + 1) if not guards_of(o) and not [a for a in ancestors(o) if isinstance(a, (ast.For, ast.While))] else None
            loops = [a for a in ancestors(o) if isinstance(a, (ast.For, ast.While))]
            if len(loops) != 1 or not isinstance(loops[0], ast.For) or guards_of(o, loops[0]) or guards_of(loops[0]) \
                    or not isinstance(loops[0].target, ast.Name) or loops[0].orelse or o.value is None:
                return None
            if any(isinstance(x, (ast.Break, ast.Continue, ast.Return)) for x in ast.walk(loops[0])):
                return None
            elt = o.value
            if isinstance(elt, ast.Name) and elt.id != loops[0].target.id:
                d = [x for x in loops[0].body if isinstance(x, ast.Assign) and norm(x.targets[0]) == elt.id]
                elt = d[0].value if len(d) == 1 and len(local_defs(g.node, elt.id)) == 1 else elt
            if not self.read_once(g, loops[0].iter, env, depth):
                return None
            return self.mapped(g, self.val(g, loops[0].iter, env, depth + 1), loops[0].target.id, elt, env, depth)
        vals = []

        def run(stmts):
            """collect what the statements return; True when they always return"""
            for st in stmts:
                if isinstance(st, ast.Return):
                    vals.append(self.val(g, st.value, env, depth + 1))
                    return True
                if isinstance(st, ast.If):
                    t = self.truth(g, st.test, env, depth)
                    if t is True:
                        if run(st.body):
                            return True
                    elif t is False:
                        if run(st.orelse):
                            return True
                    else:
                        a, b = run(st.body), run(st.orelse)
                        if a and b:
                            return True
                elif isinstance(st, (ast.For, ast.While, ast.Try, ast.With, ast.Match)) and \
                        any(isinstance(x, ast.Return) for x in walk_no_nested(st)):
                    vals.append(None)
            return False
        run(body)
        if not vals or any(v is None for v in vals) or len(set(map(repr, vals))) != 1:
            return None
        return vals[0]


def rule_cursor(ctx):
    """R8: query results are lazy generators over a database cursor; each query
    must iterate a cursor of its own, created in the call that runs the query —
    a cursor kept on the Database object is shared iteration state, and a second
    query silently truncates or mixes the rows of the first."""
    prog = ctx.prog
    dbm = prog.module('missions/database.py')
    fi = dbm.func('Database.__call__')
    dbcls = prog.cls('missions/database.py', 'Database')
    reach = [f for f in closure(prog, [fi]) if f.module is dbm]
    if not any(f is fi for f in reach):
        reach.append(fi)
    cur = _Cursors(prog, dbcls, reach)
    n = 0
    sites = []
    for f in reach:
        for c in calls_in(f.node):
            if isinstance(c.func, ast.Attribute) and c.func.attr in ('execute', 'executemany'):
                sites.append((f, c))
                n += 1
                kd, why = cur.kind(f, c.func.value)
                if kd is None:
                    ctx.undecided('C14-R8', f, norm(c)[:80], f'cannot tell where the cursor the query runs on comes from: {why}')
                ctx.ob('C14-R8', f, f'query runs on cursor `{norm(c.func.value)}`', kd == 'fresh', why, line=c.lineno)
    ctx.floor('C14-R8', n, 1, 'statements executed in the code reachable from Database.__call__')
    # SQL and parameters: the two results of one to_sql() call of the query
    qp = [p for p in fi.params if p not in ('self', 'cls')]

    def origin(f, e, depth=0):
        if depth > 6 or e is None:
            return None
        if isinstance(e, ast.Name):
            if f is fi and qp and e.id == qp[0] and not local_defs(f.node, e.id):
                return ('query',)
            if not local_defs(f.node, e.id) and e.id not in f.params and _enclosing(f) is not None:
                return origin(_enclosing(f), e, depth + 1)
            if not local_defs(f.node, e.id) and e.id in f.params:
                got = {origin(g, _argument_of(f, c, e.id), depth + 1) for g, c in _call_sites(prog, reach, f)}
                return got.pop() if len(got) == 1 else None
            tc = tuple_def_component(f.node, e.id)
            if tc is not None:
                o = origin(f, tc[0], depth + 1)
                return ('to_sql', o[1], tc[1]) if o is not None and o[0] == 'to_sql' and o[2] is None else None
            return origin(f, single_def_value(f.node, e.id), depth + 1)
        if isinstance(e, ast.Subscript) and isinstance(const_value(e.slice), int):
            o = origin(f, e.value, depth + 1)
            return ('to_sql', o[1], const_value(e.slice)) if o is not None and o[0] == 'to_sql' and o[2] is None else None
        if isinstance(e, ast.Call) and isinstance(e.func, ast.Attribute) and e.func.attr == 'to_sql' and not e.args and not e.keywords \
                and origin(f, e.func.value, depth + 1) == ('query',):
            return ('to_sql', (e.lineno, e.col_offset), None)
        return None
    for f, c in sites:
        if len(c.args) == 1 and isinstance(c.args[0], ast.Starred):
            o = origin(f, c.args[0].value)
            got = [o and o[:2] + (0,), o and o[:2] + (1,)] if o is not None and o[2] is None else [None, None]
        else:
            got = [origin(f, a) for a in c.args[:2]] + [None] * (2 - len(c.args[:2]))
        ok = got[0] is not None and got[1] is not None and got[0][0] == got[1][0] == 'to_sql' and got[0][1] == got[1][1] \
            and (got[0][2], got[1][2]) == (0, 1) and not c.keywords and len(c.args) <= 2
        ctx.ob('C14-R8', f, 'SQL and parameters come from one to_sql() call', ok, 'sql, params = query.to_sql()' if ok else
               f'SQL text and parameters of `{norm(c)[:60]}` are not the two results of one to_sql() call of the query', line=c.lineno,
               nontrivial=False)
    # what the caller gets: every row, converted by the query's own result type (a single number for a count)
    classes = [c for c in prog.subclasses_of('QueryBase') if c.name != 'QueryBase' and c.find_method('to_sql') is not None]
    ctx.floor('C14-R8/classes', len(classes), 3, 'query classes')
    for qc in classes:
        ev = _Rows(prog, qc)
        got = ev.result(fi, {qp[0]: ('query',)} if qp else {}, 0)
        rt = ev.class_attr('RESULT_TYPE')
        # (a query whose result type is a plain number - the count - hands out that number, not a sequence of records)
        want = ('first0',) if isinstance(rt, ast.Name) and rt.id in ('int', 'float', 'bool', 'str') else ('conv',)
        if got is None:
            ctx.undecided('C14-R8', fi, f'result of a {qc.name}', 'cannot follow the rows from <cursor>.execute(sql, params) to what Database.__call__ returns')
        what = {('conv',): '<result type>.from_row(row) for every row of <cursor>.execute(sql, params), in order',
                ('first0',): 'the only column of the first row', ('rows',): 'the raw rows, not converted'}.get(got, str(got))
        ctx.ob('C14-R8', fi, f'{qc.name}: every row is converted by the query\'s own result type', got == want,
               what if got == want else f'a {qc.name} hands out {what}', nontrivial=False)


# ---------------------------------------------------------------- R7 (bounds) -----
_BOX_FIELDS = ('min_latitude', 'max_latitude', 'min_longitude', 'max_longitude')
# legal boxes (-90 <= south <= north <= 90, -180 <= west <= east <= 180): every edge of the legal range in every
# position, zero as a lower and as an upper bound, values with many digits, integers
_BOX_PROBES = (
    (-90.0, 90.0, -180.0, 180.0),
    (-90.0, 0.0, -180.0, 0.0),
    (0.0, 90.0, 0.0, 180.0),
    (10.0, 20.5, -30.0, 40.25),
    (-45.125, -12.345678912345, 120.000001, 179.999999),
    (46.372276, 49.020530, -180.0, -179.5),
    (-90, -89, 179, 180),
    (89.5, 90.0, 179.5, 180.0),
    (-0.5, 0.5, -0.25, 0.75),
)


def _traced_number(base, log, nodes):
    """a subclass of float / int whose instances behave as the number they are and note, in `log`, every operation
    that computes something *from* them (arithmetic, comparison, truth test, rounding, conversion, formatting) together
    with the expression the interpreter is evaluating at that moment (top of `nodes`).  Handing a value on - binding
    it, passing it, returning it, putting it into a list - is not an operation and leaves no note."""
    def note(self, op):
        if nodes:
            log.append((self.tag, op, nodes[-1]))

    def wrap(name):
        f = getattr(base, name)

        def m(self, *a):
            note(self, name.strip('_'))
            return f(self, *a)
        m.__name__ = name
        return m
    names = ['__add__', '__sub__', '__mul__', '__truediv__', '__floordiv__', '__mod__', '__pow__', '__divmod__',
             '__radd__', '__rsub__', '__rmul__', '__rtruediv__', '__rfloordiv__', '__rmod__', '__rpow__', '__rdivmod__',
             '__neg__', '__pos__', '__abs__', '__round__', '__trunc__', '__floor__', '__ceil__', '__int__', '__float__',
             '__bool__', '__lt__', '__le__', '__gt__', '__ge__', '__eq__', '__ne__', '__str__', '__format__']
    ns = {n: wrap(n) for n in names if hasattr(base, n)}
    ns['__hash__'] = base.__hash__
    ns['__repr__'] = base.__repr__
    ns['tag'] = None
    return type('_Bound' + base.__name__.capitalize(), (base,), ns)


def _function_at(module, line):
    """qualified name of the innermost function of the module's source that contains the line"""
    from .c13 import _raw_index
    best = None
    for q, n in _raw_index(module)['functions'].items():
        if n.lineno <= line <= (getattr(n, 'end_lineno', None) or n.lineno) and (best is None or n.lineno >= best[1].lineno):
            best = (q, n)
    return best[0] if best else '<module>'


def _plain(v):
    """a traced or ordinary number as an ordinary one (None for anything else)"""
    if isinstance(v, bool) or not isinstance(v, (int, float)):
        return None
    return int.__int__(v) if isinstance(v, int) else float.__float__(v)


def rule_criteria_values(ctx):
    """R7: the numbers a caller puts into a bounding box are the numbers compared in SQL.  By evaluation: a BoundingBox
    is constructed (its __post_init__ runs) from each probe box, placed in each of the filter's box attributes, and
    Filter.to_sql is run by the checker's interpreter.  The constructed box must hold the four numbers given, and the
    parameter bound to every `<column> >= ?` / `<column> <= ?` of the location sub-select must be the box attribute
    of the column's name, unchanged in value.  The four numbers are traced: when a parameter differs, the expression
    that computed it from the bound is named."""
    prog = ctx.prog
    fm = prog.module(F)
    bb, fcls = fm.cls('BoundingBox'), fm.cls('Filter')
    ts = fm.func('Filter.to_sql')
    fields = [f for f in bb.all_fields() if f in _BOX_FIELDS]
    ctx.floor('C14-R7', len(fields), 4, 'BoundingBox fields')
    from ..resolve import _ann_class
    attrs = [a for a, ann in fcls.all_fields().items() if _ann_class(prog, fm, ann) is bb]
    ctx.floor('C14-R7/boxes', len(attrs), 3, 'box attributes of Filter')
    interp, _Rec, _Undecidable, _Raised = _c14_interp(prog)
    log = []
    traced = {float: _traced_number(float, log, interp.nodes), int: _traced_number(int, log, interp.nodes)}

    def where_of(ev):
        module, node = ev[2]
        line = getattr(node, 'lineno', 0)
        txt = ast.unparse(node.test if isinstance(node, (ast.If, ast.While, ast.Assert)) else node)
        return module, line, _function_at(module, line), ' '.join(txt.split())[:70]

    def computed_from(tag):
        """(where, text): the expression(s) that computed something from this bound during the evaluation just made"""
        evs = [ev for ev in log if ev[0] == tag]
        if not evs:
            return None, ''
        tests = ('lt', 'le', 'gt', 'ge', 'eq', 'ne', 'bool')
        arith = [ev for ev in evs if ev[1] not in tests]
        main = where_of((arith or evs)[-1])
        others = []
        for ev in evs:
            w = where_of(ev)
            if w[3] != main[3] and w[3] not in others and w[3] not in main[3]:
                others.append(w[3])
        txt = f'`{main[3]}` in {main[2]} computes a new value from it'
        if others:
            txt += f' (after `{others[0]}`)'
        return main, txt

    seen = set()
    failed = set()
    held = {}
    n = 0

    def fail(attr, fld, main, construct, why):
        """one report per (place, bound): the same expression serves every box attribute and every probe"""
        failed.add((attr, fld))
        key = (main[2], fld) if main else ('', fld or why.split(':')[0])
        if key in seen or (main is None and fld and any(k[1] == fld for k in seen)):
            return
        seen.add(key)
        if main is not None:
            ctx.ob('C14-R7', (main[0].relpath, main[2]), construct, False, why, line=main[1])
        else:
            ctx.ob('C14-R7', ts, construct, False, why)

    try:
        for probe in _BOX_PROBES:
            given = dict(zip(_BOX_FIELDS, probe))
            for attr in attrs:
                del log[:]
                vals = {}
                for fld in fields:
                    v = traced[type(given[fld])](given[fld])
                    v.tag = fld
                    vals[fld] = v
                shown = f'{attr}=BoundingBox({", ".join(f"{k}={given[k]!r}" for k in fields)})'
                try:
                    interp.steps = 0
                    box = interp.construct(bb, [], dict(vals))
                    rec = _Rec(fcls.name, {**{k: None for k in fcls.all_fields()}, attr: box}, fcls)
                    stored = {fld: box.fields.get(fld) for fld in fields}
                    first = interp.call_method(fcls, 'to_sql', rec, [], {})
                except _Raised as ex:
                    n += 1
                    if isinstance(ex.exc, (ValueError, AssertionError)):
                        fail(attr, '', None, f'Filter({shown})', f'this legal box is refused: {type(ex.exc).__name__}({str(ex.exc)[:80]})')
                    elif isinstance(ex.exc, (AttributeError, TypeError)) and 'NoneType' in str(ex.exc):
                        fail(attr, '', None, f'Filter({shown}).to_sql()',
                             f'building the condition of this filter fails: {type(ex.exc).__name__}({str(ex.exc)[:80]}) - an attribute '
                             f'that is not set is read where {attr} is meant')
                    elif _failure(ex.exc):
                        fail(attr, '', None, f'Filter({shown}).to_sql()', f'building the condition of this legal filter fails: {_failure(ex.exc)}')
                    else:
                        raise
                    continue
                n += 1
                if not (isinstance(first, tuple) and len(first) == 2 and isinstance(first[0], str) and isinstance(first[1], list)):
                    raise _Undecidable(f'to_sql returned {first!r}')
                for fld in fields:
                    if _plain(stored[fld]) is None or _plain(stored[fld]) != given[fld]:
                        main, how = computed_from(fld)
                        fail(attr, fld, main, f'BoundingBox.{fld} = {given[fld]!r}',
                             f'a box constructed with {fld}={given[fld]!r} holds {_plain(stored[fld])!r}: the box that is compared in SQL '
                             f'is not the box the caller asked for' + (f'; {how}' if how else ''))
                text, params = _norm_sql(first[0]), first[1]
                cols = re.findall(r'(\w+) (?:>=|<=|<|>|=) \?', text)
                if len(cols) != len(params) or not cols or any(c not in fields for c in cols):
                    cols = list(_BOX_FIELDS) * (len(params) // 4) if params and len(params) % 4 == 0 else None
                if cols is None:
                    fail(attr, '', None, f'Filter({shown}).to_sql()',
                         f'{len(params)} parameter(s) for the box condition `{first[0][:60]}`: the four bounds do not reach the '
                         'location sub-select')
                    continue
                for i, (col, got) in enumerate(zip(cols, params)):
                    if _plain(got) is not None and _plain(got) == given[col] and _plain(stored[col]) == given[col]:
                        held.setdefault((attr, col), set()).add(probe)
                        continue
                    if _plain(stored[col]) != given[col]:
                        continue   # reported above, at the construction
                    main, how = computed_from(col)
                    src = [f for f in fields if f != col and _plain(got) is not None and _plain(got) == given[f]]
                    if not how and src and len(set(probe)) == 4:
                        how = f'it receives {attr}.{src[0]}'
                    fail(attr, col, main, f'{attr}.{col} = {given[col]!r}',
                         f'with {shown} the parameter compared with column {col} is {_plain(got) if _plain(got) is not None else got!r}, '
                         f'not the bound {given[col]!r}: the query selects the instances of a different box'
                         + (' (an eastern edge of 180 turned into -180 makes `max_longitude <= ?` match nothing)'
                            if col == 'max_longitude' and given[col] == 180 and _plain(got) == -180 else '')
                         + (f'; {how}' if how else ''))
    except (_Undecidable, _Raised) as ex:
        ctx.undecided('C14-R7', ts, 'Filter.to_sql on the probe boxes', f'cannot run it: {ex}')
    ctx.floor('C14-R7/uses', n, len(_BOX_PROBES) * 3, 'box conditions evaluated')
    for attr in attrs:
        for fld in fields:
            if (attr, fld) not in failed and (attr, '') not in failed:
                got = held.get((attr, fld), ())
                ctx.ob('C14-R7', ts, f'{attr}.{fld} is the parameter compared with column {fld}',
                       len(got) == len(_BOX_PROBES),
                       f'unchanged on {len(got)} of {len(_BOX_PROBES)} boxes (edges of the legal range, 0, many digits, integers)',
                       nontrivial=False)


def run(ctx):
    # every group of rules gets its turn: a group that cannot decide (analysis error) does not keep the others from
    # establishing what they can; the first such error is raised again at the end (a violation established by any
    # group then still stands, an all-clear does not)
    from ..loader import AnalysisError
    first = None
    for group in (rule_criteria_values, rule_cursor, rule_is_set, rule_pure, rule_unpack, rule_placeholders, rule_columns):
        try:
            group(ctx)
        except AnalysisError as e:
            first = first or e
    if first is not None:
        raise first
    ctx.assumptions += ['SQL semantics / SQLite planner are trusted; the rules decide the text/parameter construction only']
