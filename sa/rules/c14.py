"""C14 — mission queries return exactly the matching flight instances.

The condition builders (Filter.to_sql and the Filter methods returning
(text, parameters) pairs) are read on an *expanded view*: a private copy of
the normalised function in which loops / comprehensions over a literal table
(tuple, list, dict literal, .items(), zip / enumerate of literals, or a local
bound once to one) are unrolled with the loop variables replaced by the row
elements; statement-calls of helpers that push onto a list of their caller
(nested closure, method, module function) are replaced by the helper's body;
`if c: continue` / `if c: return` guard clauses become if/else; and
getattr(x, '<literal>'), f-strings with literal fields, 'a' + 'b', 'abc'[1:]
are folded; `C(text, params)` of a two-field NamedTuple is the pair
(text, params) and `.field` of an element reads that component.  Locals are
followed to their single or reaching definition.
Four closure calls, four `if` blocks and one table-driven loop are therefore
the same thing to R3 and R7.

R1  to_sql is pure (effects): every attribute of `self` mutated in code
    reachable from `to_sql` is re-initialised on every path before its first
    mutation in that call.  One named exception: Filter._normalize rewrites
    str attributes to one-element lists under an isinstance(..., str) guard —
    an idempotent normalisation.
R2  empty-collection unpack (T-GUARD), conditional: IF a collection is
    unpacked with `a, b = …zip(*xs)` THEN xs is known to be non-empty there:
    the site is evaluated under a guard that implies it, or on every CFG path
    to it a test sends the empty case elsewhere and xs is not re-bound after
    that test.  A tree without such a site satisfies the rule (R3 then decides
    the flattening that replaced it); a positive control on embedded examples
    keeps the matcher honest.
R3  placeholders = parameters (symbolic count): the list of pairs is the
    local the returned WHERE text is joined from; every builder's result must
    be added to it; for each pair entering it (append / += / extend / list
    literal / unrolled comprehension / returned list) the number of `?` in the
    text equals the number of parameters, as linear forms over len(<list>)
    (', '.join('?' * len(xs)), ','.join(['?'] * n) with n = len(xs),
    ', '.join('?' for _ in xs), text helpers followed into their return; an
    optional numeric field of the filter counts as one scalar).  A scalar
    bound min_<c> / max_<c> is compared with column <c> by >= / <=, and every
    numeric bound of the filter is pushed by some condition.  Flatten step, by
    abstract evaluation of the returned pair (zip(*pairs) + nested
    comprehension, comprehensions over the pairs, an explicit loop with
    append / extend / +=, chain.from_iterable, sum(..., [])): the text is
    ' AND '.join(<texts in order>), the parameters are the groups flattened in
    order with scalars wrapped; `return '', []` only when the list is empty.
    origin_* / destination_* filters constrain their own column.  Query-level
    blocks push as many parameters as placeholders.
R4  column <-> field agreement: SELECT list and row indices used by from_row
    agree by name; ORDER BY present on the unconditional path.
R5  spatial compatibility rule counts the four spatial kinds in each of the
    three positions.
R6  date bounds inclusive; every-nth anchored at the start day; limit/offset
    (module-level names bound once to a literal / literal constructor call,
    e.g. `_EPOCH = date(1970, 1, 1)`, are read as that value).
R7  is-set tests of optional numerics (`int | None`, `float | None` fields of
    Filter and the query classes) are made against None itself, never by
    truthiness — wherever the truth value of the field decides something: if /
    while / conditional expression / assert / comprehension filter, `not x`,
    `x and …`, `x or default`, bool(x); the field may reach the test through a
    table-driven loop or comprehension (expanded view), a local, or the
    parameter of a helper.
    Bounding-box bounds reach the SQL parameters exactly as given (BoundingBox
    is a plain value; no method rewrites its fields).
R8  each query iterates a cursor created in the call that runs it; SQL and
    parameters come from one to_sql() call.
"""

from __future__ import annotations

import ast
import re
from collections import Counter

from ..astutil import first_stmt, last_stmt  # noqa: F401
from ..astutil import (MUTATING_METHODS, ancestors, assigned_names, call_name, calls_in, conjuncts, const_value,
                       guards_of, local_defs, norm, real_body, single_def_value, stmt_of, stores_to,
                       tuple_def_component, walk_no_nested)
from ..cfg import CFG
from ..loader import dotted_name
from ..resolve import closure, resolve_call

Q = 'missions/query.py'
F = 'missions/filter.py'


# ---------------------------------------------------------------- R1 -----
def _mutations(fi):
    """[(attr, node, how)] mutations of self.<attr> in fi (not plain re-binding)"""
    out = []
    for t, st, how in stores_to(fi.node):
        b = t
        elem = False
        while isinstance(b, ast.Subscript):
            b, elem = b.value, True
        if isinstance(b, ast.Attribute) and norm(b.value) == 'self':
            if how == 'aug' or elem:
                out.append((b.attr, st, how if not elem else 'elem-' + how))
    for c in calls_in(fi.node):
        if isinstance(c.func, ast.Attribute) and c.func.attr in MUTATING_METHODS:
            b = c.func.value
            while isinstance(b, ast.Subscript):
                b = b.value
            if isinstance(b, ast.Attribute) and norm(b.value) == 'self':
                out.append((b.attr, stmt_of(c), 'call-' + c.func.attr))
        if call_name(c) == 'setattr' and c.args and norm(c.args[0]) == 'self':
            out.append(('<dynamic>', stmt_of(c), 'setattr'))
    return out


def _resets(fi):
    out = []
    for t, st, how in stores_to(fi.node):
        if how == 'assign' and isinstance(t, ast.Attribute) and norm(t.value) == 'self':
            v = st.value
            fresh = isinstance(v, (ast.List, ast.Dict, ast.Set, ast.Tuple, ast.Constant)) or \
                (isinstance(v, ast.Call) and call_name(v) in ('list', 'dict', 'set'))
            if fresh:
                out.append((t.attr, st))
    return out


def rule_pure(ctx):
    prog = ctx.prog
    classes = [c for c in prog.subclasses_of('QueryBase') if c.name != 'QueryBase']
    classes.append(prog.cls(F, 'Filter'))
    ctx.floor('C14-R1', len(classes), 4, 'query classes and Filter')
    for cls in classes:
        ts = cls.find_method('to_sql')
        if ts is None:
            continue
        reach = [f for f in closure(prog, [ts]) if f.cls is not None and f.cls in cls.mro() or f is ts]
        reach = [f for f in reach if f.cls is not None and (f.cls in cls.mro())]
        cfgs = {f.qualname: CFG(f.node) for f in reach}
        resets = {}
        for f in reach:
            for a, st in _resets(f):
                resets.setdefault(a, []).append((f, st))
        found = 0
        for f in reach:
            for attr, st, how in _mutations(f):
                found += 1
                if attr == '<dynamic>':
                    gs = [norm(t) for t, pol, _ in guards_of(st) if pol]
                    c = st.value if isinstance(st, ast.Expr) else None
                    idem = any(g.startswith('isinstance(getattr(self, ') and g.endswith(', str)') for g in gs) and \
                        isinstance(c, ast.Call) and len(c.args) == 3 and isinstance(c.args[2], ast.List) \
                        and len(c.args[2].elts) == 1 and norm(c.args[2].elts[0]).startswith('getattr(self, ')
                    ctx.ob('C14-R1', f, f'{cls.name}.to_sql: {norm(st)[:60]}', idem,
                           'idempotent normalisation (str → one-element list, only while it is still a str)' if idem
                           else 'to_sql rewrites attributes of the query object: a second call sees different state',
                           line=st.lineno)
                    continue
                ok = False
                why = (f'self.{attr} is mutated ({how}) during to_sql but never re-initialised in that call: '
                       'building the SQL twice accumulates conditions/parameters')
                g = cfgs[f.qualname]
                mn = g.nodes_of(st)
                dom = g.dominators(edge_ok=lambda a, b, lab: lab != 'e')
                for rf, rst in resets.get(attr, []):
                    if rf == f:
                        rn = g.nodes_of(rst)
                        if rn and mn and all(rn[0] in dom[x] for x in mn):
                            ok, why = True, f'reset `{norm(rst)}` dominates the mutation'
                    else:
                        # reset in a helper: helper call dominates the mutation, reset dominates helper exit
                        gr = cfgs[rf.qualname]
                        domr = gr.dominators(edge_ok=lambda a, b, lab: lab != 'e')
                        rn = gr.nodes_of(rst)
                        if not rn or rn[0] not in domr.get(gr.exit, set()):
                            continue
                        for n in g.nodes:
                            if n.stmt is not None and n.kind == 'stmt' and any(
                                    resolve_call(prog, f, c) == rf for c in calls_in(n.stmt)):
                                if mn and all(n.id in dom[x] for x in mn):
                                    ok, why = True, (f'`{n.text()[:40]}` dominates the mutation and always runs '
                                                     f'`{norm(rst)}`')
                ctx.ob('C14-R1', f, f'{cls.name}.to_sql: self.{attr} {how} at `{norm(st)[:50]}`', ok, why,
                       line=st.lineno)
        if cls.name != 'Filter':
            ctx.floor(f'C14-R1/{cls.name}', found, 2, f'mutations reachable from {cls.name}.to_sql')


# ------------------------------------------------------ expanded view -----
# The condition builders are analysed on an *expanded view* of each function: a private copy of the (already
# normalised) function in which
#   * a `for` loop or comprehension over a literal table (tuple / list / dict literal, `.items()`, `zip(...)`,
#     `enumerate(...)` of literals, or a never-mutated local bound once to one) is unrolled, the loop variables
#     replaced by the elements of each row,
#   * a statement-call of a helper that pushes onto a list of its caller (a nested closure, a method or a module
#     function that appends to a parameter / free variable and returns nothing) is replaced by the helper's body,
#   * guard clauses `if c: continue` / `if c: return` inside those become `if c: ... else: <rest>`,
#   * `getattr(x, '<literal>')`, f-strings with literal fields and `'a' + 'b'` are folded.
# Every rule below that asks "which value is tested / pushed with which text" reads the view, so that a table-driven
# loop, four closure calls and four hand-written `if` blocks are one and the same thing to it.
_SINGLETONS = (ast.expr_context, ast.operator, ast.unaryop, ast.cmpop, ast.boolop)
_DEFS = (ast.FunctionDef, ast.AsyncFunctionDef, ast.ClassDef, ast.Lambda)
_COMPS = (ast.ListComp, ast.SetComp, ast.GeneratorExp, ast.DictComp)
_MAX_ROWS = 64


def _clone(n, env=None):
    """structural copy without the loader's parent links; loads of names bound in env become copies of the
    bound expression"""
    if isinstance(n, list):
        return [_clone(x, env) for x in n]
    if not isinstance(n, ast.AST) or isinstance(n, _SINGLETONS):
        return n
    if env and isinstance(n, ast.Name) and isinstance(n.ctx, ast.Load) and n.id in env:
        return _clone(env[n.id])
    if env:
        bound = set()
        if isinstance(n, (ast.Lambda, ast.FunctionDef, ast.AsyncFunctionDef)):
            a = n.args
            bound = {x.arg for x in a.posonlyargs + a.args + a.kwonlyargs}
            bound |= {x.arg for x in (a.vararg, a.kwarg) if x is not None}
        elif isinstance(n, _COMPS):
            bound = {x for g in n.generators for x in assigned_names(g.target)}
        if bound & set(env):
            env = {k: v for k, v in env.items() if k not in bound}
    new = type(n)()
    for f in n._fields:
        if hasattr(n, f):
            setattr(new, f, _clone(getattr(n, f), env))
    for a in n._attributes:
        if hasattr(n, a):
            setattr(new, a, getattr(n, a))
    return new


def _set_parents(root):
    for p in ast.walk(root):
        for ch in ast.iter_child_nodes(p):
            if not isinstance(ch, _SINGLETONS):
                ch._parent = p  # type: ignore[attr-defined]
    return root


def _is_str(e):
    return isinstance(e, ast.Constant) and isinstance(e.value, str)


class _Fold(ast.NodeTransformer):
    def visit_JoinedStr(self, n):
        self.generic_visit(n)
        parts = []
        for v in n.values:
            if isinstance(v, ast.FormattedValue) and v.conversion == -1 and v.format_spec is None and _is_str(v.value):
                v = v.value
            if _is_str(v) and parts and _is_str(parts[-1]):
                parts[-1] = ast.copy_location(ast.Constant(parts[-1].value + v.value), parts[-1])
            else:
                parts.append(v)
        if all(_is_str(v) for v in parts):
            return ast.copy_location(ast.Constant(''.join(v.value for v in parts)), n)
        n.values = parts
        return n

    def visit_BinOp(self, n):
        self.generic_visit(n)
        if isinstance(n.op, ast.Add) and _is_str(n.left) and _is_str(n.right):
            return ast.copy_location(ast.Constant(n.left.value + n.right.value), n)
        return n

    def visit_Subscript(self, n):
        self.generic_visit(n)
        if _is_str(n.value) and isinstance(n.ctx, ast.Load):
            sl = n.slice
            try:
                if isinstance(sl, ast.Slice):
                    b = [None if x is None else const_value(x) for x in (sl.lower, sl.upper, sl.step)]
                    if all(x is None or isinstance(x, int) for x in b) and \
                            all((x is None) == (y is None) for x, y in zip(b, (sl.lower, sl.upper, sl.step))):
                        return ast.copy_location(ast.Constant(n.value.value[slice(*b)]), n)
                elif isinstance(const_value(sl), int):
                    return ast.copy_location(ast.Constant(n.value.value[const_value(sl)]), n)
            except (IndexError, ValueError):
                pass
        return n

    def visit_Call(self, n):
        self.generic_visit(n)
        if isinstance(n.func, ast.Name) and n.func.id == 'getattr' and len(n.args) == 2 and not n.keywords \
                and _is_str(n.args[1]) and n.args[1].value.isidentifier():
            return ast.copy_location(ast.Attribute(value=n.args[0], attr=n.args[1].value, ctx=ast.Load()), n)
        return n


def _jumps(stmts, kinds, loop_scoped=True):
    """does the block contain a break/continue of *its own* loop (or, loop_scoped=False, any return/yield)?"""
    st = list(stmts)
    while st:
        x = st.pop()
        if isinstance(x, kinds):
            return True
        if isinstance(x, _DEFS):
            continue
        if loop_scoped and isinstance(x, (ast.For, ast.AsyncFor, ast.While)):
            st.extend(x.orelse)
            continue
        st.extend(ast.iter_child_nodes(x))
    return False


def _guard_to_else(stmts, kind):
    """`if c: ...; continue` followed by rest  ==>  `if c: ... else: rest` (kind=Return: a bare `return` of a helper)"""
    out = []
    for i, s in enumerate(stmts):
        last = s.body[-1] if isinstance(s, ast.If) and s.body else None
        if isinstance(last, kind) and getattr(last, 'value', None) is None:
            new = ast.If(test=s.test, body=list(s.body[:-1]) or [ast.copy_location(ast.Pass(), s)],
                         orelse=_guard_to_else(list(s.orelse) + list(stmts[i + 1:]), kind))
            out.append(ast.copy_location(new, s))
            return out
        if isinstance(s, kind) and getattr(s, 'value', None) is None:
            return out  # what follows is dead
        out.append(s)
    return out


def _stable_value(fn, e):
    """e itself, or for a local bound exactly once and never mutated in place, the expression it is bound to"""
    if not isinstance(e, ast.Name):
        return e
    v = single_def_value(fn, e.id)
    if v is None:
        return None
    for x in ast.walk(fn):
        if isinstance(x, ast.Call) and isinstance(x.func, ast.Attribute) and x.func.attr in MUTATING_METHODS \
                and isinstance(x.func.value, ast.Name) and x.func.value.id == e.id:
            return None
        if isinstance(x, ast.Subscript) and isinstance(x.ctx, (ast.Store, ast.Del)) and isinstance(x.value, ast.Name) \
                and x.value.id == e.id:
            return None
    return v


def _tuple_of(elts, at):
    return ast.copy_location(ast.Tuple(elts=list(elts), ctx=ast.Load()), at)


def _rows(fn, it, depth=0):
    """the rows of a literal table, in iteration order, or None"""
    it = _stable_value(fn, it)
    if it is None or depth > 3:
        return None
    if isinstance(it, (ast.Tuple, ast.List)):
        return None if any(isinstance(x, ast.Starred) for x in it.elts) else list(it.elts)
    if isinstance(it, ast.Dict):
        return None if any(k is None for k in it.keys) else list(it.keys)
    if isinstance(it, ast.Call) and not it.keywords and not any(isinstance(a, ast.Starred) for a in it.args):
        f = it.func
        if isinstance(f, ast.Attribute) and not it.args and f.attr in ('items', 'keys', 'values'):
            d = _stable_value(fn, f.value)
            if isinstance(d, ast.Dict) and all(k is not None for k in d.keys):
                if f.attr == 'keys':
                    return list(d.keys)
                if f.attr == 'values':
                    return list(d.values)
                return [_tuple_of([k, v], k) for k, v in zip(d.keys, d.values)]
            return None
        if isinstance(f, ast.Name) and f.id in ('list', 'tuple', 'iter') and len(it.args) == 1:
            return _rows(fn, it.args[0], depth + 1)
        if isinstance(f, ast.Name) and f.id == 'reversed' and len(it.args) == 1:
            r = _rows(fn, it.args[0], depth + 1)
            return None if r is None else list(reversed(r))
        if isinstance(f, ast.Name) and f.id == 'zip' and it.args:
            cols = [_rows(fn, a, depth + 1) for a in it.args]
            if any(c is None for c in cols):
                return None
            return [_tuple_of(r, it) for r in zip(*cols)]
        if isinstance(f, ast.Name) and f.id == 'enumerate' and 1 <= len(it.args) <= 2:
            r = _rows(fn, it.args[0], depth + 1)
            start = 0
            if len(it.args) == 2:
                start = const_value(it.args[1])
                if not isinstance(start, int):
                    return None
            if r is None:
                return None
            return [_tuple_of([ast.copy_location(ast.Constant(start + i), x), x], x) for i, x in enumerate(r)]
    return None


def _bind(target, row, env) -> bool:
    if isinstance(target, ast.Name):
        env[target.id] = row
        return True
    if isinstance(target, (ast.Tuple, ast.List)) and isinstance(row, (ast.Tuple, ast.List)) \
            and len(target.elts) == len(row.elts) \
            and not any(isinstance(x, ast.Starred) for x in list(target.elts) + list(row.elts)):
        return all(_bind(t, r, env) for t, r in zip(target.elts, row.elts))
    return False


def _root_name(e):
    while isinstance(e, (ast.Attribute, ast.Subscript)):
        e = e.value
    return e.id if isinstance(e, ast.Name) else None


def _pushes_to_caller(fnode, params) -> bool:
    """the function appends to a list that is not its own: a parameter or a variable of the enclosing scope"""
    for x in walk_no_nested(fnode):
        r = None
        if isinstance(x, ast.Call) and isinstance(x.func, ast.Attribute) and x.func.attr in ('append', 'extend', 'insert'):
            r = _root_name(x.func.value)
        elif isinstance(x, ast.AugAssign) and isinstance(x.op, ast.Add):
            r = _root_name(x.target)
        if r is None or r in ('self', 'cls'):
            continue
        if r in params or not local_defs(fnode, r):
            return True
    return False


class _Expander:
    def __init__(self, prog, fi):
        self.prog = prog
        self.fi = fi
        self.fn = _clone(fi.node)
        self.budget = 800

    def run(self):
        fn = self.fn
        fn.body = self.block(fn.body)
        _CompUnroll(fn).visit(fn)
        _PairLower(self.prog, self.fi.module).visit(fn)
        ast.fix_missing_locations(fn)
        _set_parents(fn)
        from ..loader import FunctionInfo
        return FunctionInfo(self.fi.qualname, fn, self.fi.module, self.fi.cls)

    def block(self, stmts, depth=0):
        out = []
        for s in stmts:
            u = None
            if depth < 5 and isinstance(s, ast.For):
                u = self.unroll(s)
            elif depth < 5 and isinstance(s, ast.Expr) and isinstance(s.value, ast.Call):
                u = self.inline(s)
            if u is not None:
                out += self.block(u, depth + 1)
                continue
            if not isinstance(s, _DEFS):
                for f in ('body', 'orelse', 'finalbody'):
                    v = getattr(s, f, None)
                    if isinstance(v, list) and v and isinstance(v[0], ast.stmt):
                        setattr(s, f, self.block(v, depth))
                for h in getattr(s, 'handlers', None) or []:
                    h.body = self.block(h.body, depth)
                for c in getattr(s, 'cases', None) or []:
                    c.body = self.block(c.body, depth)
            out.append(s)
        return out

    def _read_elsewhere(self, loop, names) -> bool:
        """is a loop variable read outside its loop (where it would hold the value of the last row)?  Readers that
        bind the name themselves — a comprehension, another loop, a nested function's parameter — do not count."""
        st = [(self.fn, names)]
        while st:
            x, live = st.pop()
            if x is loop:
                continue
            if isinstance(x, ast.Name) and isinstance(x.ctx, ast.Load) and x.id in live:
                return True
            if isinstance(x, _COMPS):
                live = live - {n for g in x.generators for n in assigned_names(g.target)}
            elif isinstance(x, (ast.For, ast.AsyncFor)):
                live = live - set(assigned_names(x.target))
            elif isinstance(x, (ast.FunctionDef, ast.AsyncFunctionDef, ast.Lambda)) and x is not self.fn:
                a = x.args
                live = live - {y.arg for y in a.posonlyargs + a.args + a.kwonlyargs}
            if live:
                st.extend((ch, live) for ch in ast.iter_child_nodes(x))
        return False

    def unroll(self, s):
        rows = _rows(self.fn, s.iter)
        if rows is None or len(rows) > _MAX_ROWS:
            return None
        body = _guard_to_else(list(s.body), ast.Continue)
        if _jumps(body, (ast.Break, ast.Continue)):
            return None
        names = assigned_names(s.target)
        if not names or any(local_defs(b, n) for b in body for n in names):
            return None
        # the loop variables must not be read after the loop (their last value is not represented)
        if self._read_elsewhere(s, set(names)):
            return None
        out = []
        for r in rows:
            env = {}
            if not _bind(s.target, r, env):
                return None
            out += [_Fold().visit(_clone(b, env)) for b in body]
        out += [_clone(b) for b in s.orelse]
        self.budget -= len(out)
        if self.budget < 0:
            return None
        return out or [ast.copy_location(ast.Pass(), s)]

    def inline(self, s):
        c = s.value
        if any(isinstance(a, ast.Starred) for a in c.args) or any(k.arg is None for k in c.keywords):
            return None
        callee = resolve_call(self.prog, self.fi, c)
        if callee is None or callee.module is not self.fi.module or callee == self.fi:
            return None
        fnode = callee.node
        a = fnode.args
        if isinstance(fnode, ast.AsyncFunctionDef) or a.vararg or a.kwarg or a.kwonlyargs or fnode.decorator_list:
            return None
        params = [x.arg for x in a.posonlyargs + a.args]
        env = {}
        rest = list(params)
        if callee.cls is not None and callee.qualname == f'{callee.cls.name}.{fnode.name}' and params[:1] in (['self'], ['cls']):
            if not isinstance(c.func, ast.Attribute):
                return None
            env[params[0]] = c.func.value
            rest = params[1:]
        if len(c.args) > len(rest):
            return None
        for p, v in zip(rest, c.args):
            env[p] = v
        for k in c.keywords:
            if k.arg not in rest or k.arg in env:
                return None
            env[k.arg] = k.value
        for p, d in zip(params[len(params) - len(a.defaults):], a.defaults):
            env.setdefault(p, d)
        if any(p not in env for p in params):
            return None
        if not _pushes_to_caller(fnode, set(params) - {'self', 'cls'}) or any(local_defs(fnode, p) for p in params):
            return None
        body = list(fnode.body)
        if body and isinstance(body[0], ast.Expr) and _is_str(body[0].value):
            body = body[1:]
        body = _guard_to_else(body, ast.Return)
        if _jumps(body, (ast.Return, ast.Yield, ast.YieldFrom, ast.Await, ast.Global, ast.Nonlocal), loop_scoped=False):
            return None
        out = [_Fold().visit(_clone(b, env)) for b in body]
        self.budget -= len(out)
        if self.budget < 0:
            return None
        return out or [ast.copy_location(ast.Pass(), s)]


class _CompUnroll(ast.NodeTransformer):
    """[elt for row in <literal table> if c]  ==>  [*([elt_1] if c_1 else []), *([elt_2] if c_2 else []), ...]"""

    def __init__(self, fn):
        self.fn = fn

    def _comp(self, n):
        g0 = n.generators[0]
        rows = None if g0.is_async else _rows(self.fn, g0.iter)
        if rows is None or len(rows) > _MAX_ROWS:
            return self.generic_visit(n)
        elts = []
        for r in rows:
            env = {}
            if not _bind(g0.target, r, env):
                return self.generic_visit(n)
            if len(n.generators) > 1:
                item = ast.ListComp(elt=_clone(n.elt, env), generators=_clone(n.generators[1:], env))
            else:
                item = ast.List(elts=[_clone(n.elt, env)], ctx=ast.Load())
            tests = [_clone(t, env) for t in g0.ifs]
            if tests:
                test = tests[0] if len(tests) == 1 else ast.BoolOp(op=ast.And(), values=tests)
                e = ast.Starred(value=ast.IfExp(test=test, body=item, orelse=ast.List(elts=[], ctx=ast.Load())),
                                ctx=ast.Load())
            elif len(n.generators) > 1:
                e = ast.Starred(value=item, ctx=ast.Load())
            else:
                e = item.elts[0]
            elts.append(e)
        new = ast.copy_location(ast.List(elts=elts, ctx=ast.Load()), n)
        for x in ast.walk(new):
            if not hasattr(x, 'lineno') and isinstance(x, (ast.expr, ast.stmt)):
                ast.copy_location(x, n)
        return self.generic_visit(_Fold().visit(new))

    visit_ListComp = _comp
    visit_GeneratorExp = _comp


def _pair_classes(prog, module):
    """{id of class node: [field, field]} for the two-field NamedTuple classes visible in the module: their instances
    *are* 2-tuples, `C(a, b)` builds the pair (a, b) and `.field` reads one of its components"""
    cache = prog.__dict__.setdefault('_c14_pair_classes', {})
    if module.relpath not in cache:
        out = {}
        for ci in prog.all_classes(src_only=False):
            if any(b.split('.')[-1] == 'NamedTuple' for b in ci.base_exprs):
                fields = list(ci.annotated_fields())
                if len(fields) == 2:
                    out[id(ci.node)] = fields
        cache[module.relpath] = out
    return cache[module.relpath]


def _pair_fields(prog, module):
    out = {}
    for fields in _pair_classes(prog, module).values():
        for i, f in enumerate(fields):
            if out.setdefault(f, i) != i:
                out[f] = None
    return {f: i for f, i in out.items() if i is not None}


class _PairLower(ast.NodeTransformer):
    """Cond(text, params) / Cond(sql=text, params=params) of a two-field NamedTuple  ==>  (text, params)"""

    def __init__(self, prog, module):
        self.prog, self.module = prog, module
        self.classes = _pair_classes(prog, module)

    def visit_Call(self, n):
        self.generic_visit(n)
        if not self.classes or any(isinstance(a, ast.Starred) for a in n.args) or any(k.arg is None for k in n.keywords):
            return n
        ci = self.prog.resolve_class_expr(self.module, n.func)
        fields = self.classes.get(id(ci.node)) if ci is not None else None
        if fields is None:
            return n
        vals = dict(zip(fields, n.args))
        for k in n.keywords:
            if k.arg not in fields or k.arg in vals:
                return n
            vals[k.arg] = k.value
        if len(vals) != 2 or len(n.args) > 2:
            return n
        return ast.copy_location(ast.Tuple(elts=[vals[f] for f in fields], ctx=ast.Load()), n)


def _view(prog, fi):
    cache = prog.__dict__.setdefault('_c14_views', {})
    k = (fi.file, fi.qualname, id(fi.node))
    if k not in cache:
        cache[k] = _Expander(prog, fi).run()
    return cache[k]


def _block_of(st):
    p = getattr(st, '_parent', None)
    if p is None:
        return None, None
    for _, v in ast.iter_fields(p):
        if isinstance(v, list) and any(x is st for x in v):
            return p, v
    return p, None


def _reaching_def(fn, use):
    """the value of the one plain assignment `name = value` that reaches this load of a local, or None when some
    other binding of the name may reach it"""
    name = use.id
    for a in ancestors(use):
        if isinstance(a, _COMPS) and any(name in assigned_names(g.target) for g in a.generators):
            return None
        if isinstance(a, ast.Lambda) or a is fn:
            break
    st = stmt_of(use)
    while st is not None and st is not fn:
        p, blk = _block_of(st)
        if blk is None:
            return None
        i = next(j for j, x in enumerate(blk) if x is st)
        for prev in reversed(blk[:i]):
            if isinstance(prev, ast.Assign) and len(prev.targets) == 1 and isinstance(prev.targets[0], ast.Name) \
                    and prev.targets[0].id == name:
                return prev.value
            if isinstance(prev, ast.AnnAssign) and isinstance(prev.target, ast.Name) and prev.target.id == name \
                    and prev.value is not None:
                return prev.value
            if local_defs(prev, name):
                return None
        if isinstance(p, (ast.For, ast.AsyncFor, ast.While)) and local_defs(p, name):
            return None
        if isinstance(p, (ast.With, ast.AsyncWith)) and local_defs(p, name) and not any(local_defs(b, name) for b in p.body):
            return None
        if isinstance(p, _DEFS):
            break
        st = p if isinstance(p, ast.stmt) else stmt_of(p)
    return None


def _resolve(fi, e):
    """follow a local through its (single or reaching) plain definitions"""
    for _ in range(6):
        if not isinstance(e, ast.Name):
            break
        d = single_def_value(fi.node, e.id)
        if d is None and getattr(e, '_parent', None) is not None:
            d = _reaching_def(fi.node, e)
        if d is None:
            break
        e = d
    return e


# ---------------------------------------------------------------- R2 -----
_R2_CONTROL = '''
def bare(xs):
    a, b = zip(*xs)
    return a, b
def early(xs):
    if len(xs) == 0:
        return (), ()
    a, b = map(list, zip(*xs))
    return a, b
def rebound(xs, ys):
    if not xs:
        return (), ()
    xs = ys
    a, b = zip(*xs)
    return a, b
'''


def _emptiness_fact(e, pol, xs) -> int:
    """+1: `e` having truth value pol implies xs is non-empty; -1: implies xs is empty; 0: says nothing"""
    s = 0
    if norm(e) in (xs, f'len({xs})', f'bool({xs})'):
        s = 1
    elif isinstance(e, ast.Compare) and len(e.ops) == 1:
        left, op, right = norm(e.left), type(e.ops[0]), norm(e.comparators[0])
        flip = {ast.Lt: ast.Gt, ast.Gt: ast.Lt, ast.LtE: ast.GtE, ast.GtE: ast.LtE}
        if right in (f'len({xs})', xs) and left not in (f'len({xs})', xs):
            left, right, op = right, left, flip.get(op, op)
        if left == f'len({xs})':
            s = {(ast.Gt, '0'): 1, (ast.GtE, '1'): 1, (ast.NotEq, '0'): 1,
                 (ast.Eq, '0'): -1, (ast.Lt, '1'): -1, (ast.LtE, '0'): -1}.get((op, right), 0)
        elif left == xs and right in ('[]', '()', 'list()', 'tuple()'):
            s = {ast.NotEq: 1, ast.Eq: -1}.get(op, 0)
    return s if pol else -s


def _zip_unpack_sites(fn):
    """[(assignment, zip call, text of xs)] for `a, b = ...zip(*xs)...`"""
    out = []
    for x in walk_no_nested(fn):
        if isinstance(x, ast.Assign) and any(isinstance(t, (ast.Tuple, ast.List)) for t in x.targets):
            for c in ast.walk(x.value):
                if isinstance(c, ast.Call) and call_name(c) == 'zip' and len(c.args) == 1 \
                        and isinstance(c.args[0], ast.Starred):
                    out.append((x, c, norm(c.args[0].value)))
                    break
    return out


def _rebinds(node, xs) -> bool:
    """does executing this CFG node possibly change (the emptiness of) xs?"""
    st = node.stmt
    if st is None:
        return False
    root = xs.split('.')[0].split('[')[0]
    if node.kind == 'iter':
        return any(norm(t) in (xs, root) for t in _flat_targets(st.target))
    if node.kind == 'with':
        return any(it.optional_vars is not None and norm(t) in (xs, root)
                   for it in st.items for t in _flat_targets(it.optional_vars))
    if node.kind != 'stmt' or isinstance(st, _DEFS):
        return False
    for t, _, _ in stores_to(st):
        if norm(t) in (xs, root) or (isinstance(t, ast.Subscript) and norm(t.value) == xs):
            return True
    for c in calls_in(st):
        if isinstance(c.func, ast.Attribute) and norm(c.func.value) == xs and c.func.attr in ('clear', 'pop', 'remove', 'popitem'):
            return True
    return False


def _flat_targets(t):
    if isinstance(t, (ast.Tuple, ast.List)):
        return [y for e in t.elts for y in _flat_targets(e)]
    if isinstance(t, ast.Starred):
        return _flat_targets(t.value)
    return [t]


def _nonempty_on_every_path(fn, site, zc, xs):
    """a reason why xs is known to be non-empty whenever the unpack runs, or None"""
    for t, pol, _ in guards_of(zc):
        if any(_emptiness_fact(a, p, xs) > 0 for a, p in conjuncts(t, pol)):
            return f'evaluated only under `{norm(t)}`' if pol else f'evaluated only when `{norm(t)}` is false'
    g = CFG(fn)
    nodes = {n.id: n for n in g.nodes}
    target = set(g.nodes_of(site))
    if not target:
        return None
    # search over (node, is xs known to be non-empty); the site must be unreachable in the state "not known"
    seen = {(g.entry, False)}
    work = [(g.entry, False)]
    why = None
    while work:
        a, known = work.pop()
        if a in target and not known:
            return None
        n = nodes[a]
        if known and _rebinds(n, xs):
            known = False
        for b, lab in g.succ[a]:
            k = known
            if not k and n.kind == 'test' and lab in ('t', 'f') and hasattr(n.stmt, 'test') and \
                    any(_emptiness_fact(at, p, xs) > 0 for at, p in conjuncts(n.stmt.test, lab == 't')):
                k = True
                why = n.text()
            if (b, k) not in seen:
                seen.add((b, k))
                work.append((b, k))
    return f'`{why}` sends the empty case elsewhere on every path to the unpack' if why else None


def rule_unpack(ctx):
    prog = ctx.prog
    # positive control: the matcher and the path search on embedded examples (the obligation is conditional —
    # IF a collection is unpacked with zip(*xs) THEN it is known to be non-empty — so the tree may contain no site)
    tree = _set_parents(ast.parse(_R2_CONTROL))
    got = {}
    for f in tree.body:
        sites = _zip_unpack_sites(f)
        got[f.name] = [(_nonempty_on_every_path(f, s, zc, xs) is not None) for s, zc, xs in sites]
    ctx.control('C14-R2', got == {'bare': [False], 'early': [True], 'rebound': [False]},
                'embedded zip(*xs) unpack examples: unguarded, guarded by an early return, guard invalidated by a re-binding')
    fns = prog.all_functions() if ctx.tier == 'thorough' else \
        [f for f in prog.all_functions() if f.file.endswith((Q, F))]
    n = 0
    for fi in fns:
        for x, zc, xs in _zip_unpack_sites(fi.node):
            n += 1
            why = _nonempty_on_every_path(fi.node, x, zc, xs)
            ctx.ob('C14-R2', fi, f'{norm(x.targets[0])} = …zip(*{xs})', why is not None,
                   why if why is not None else
                   f'unpacking zip(*{xs}) fails with "not enough values to unpack" when {xs} is empty: '
                   'a filter with no conditions must select everything', line=x.lineno)
    ctx.rules_run.setdefault('C14-R2', {})['found'] = n


# ---------------------------------------------------------------- R3 -----
def _scale(c: Counter, k: int) -> Counter:
    return Counter({s: v * k for s, v in c.items() if v * k})


class _Count:
    """symbolic counting of `?` placeholders in a text expression and of the parameters pushed with it, as linear
    forms over len(<collection>)"""

    def __init__(self, prog, scalars=()):
        self.prog = prog
        self.scalars = set(scalars)  # names of fields of `self` that hold one scalar (not a list)

    # -- helpers
    def sym(self, fi, e, env):
        s = norm(_resolve(fi, e))
        return env.get('@' + s, s)

    def count_of(self, fi, e, env, depth=0) -> Counter | None:
        """an integer expression"""
        e = _resolve(fi, e)
        if depth > 6:
            return None
        v = const_value(e)
        if isinstance(v, int) and not isinstance(v, bool) and v >= 0:
            return Counter({'1': v}) if v else Counter()
        if isinstance(e, ast.Call) and call_name(e) == 'len' and len(e.args) == 1:
            return Counter({f'len({self.sym(fi, e.args[0], env)})': 1})
        if isinstance(e, ast.BinOp) and isinstance(e.op, ast.Add):
            a, b = self.count_of(fi, e.left, env, depth + 1), self.count_of(fi, e.right, env, depth + 1)
            return None if a is None or b is None else a + b
        if isinstance(e, ast.BinOp) and isinstance(e.op, ast.Mult):
            for k, o in ((e.left, e.right), (e.right, e.left)):
                kv = const_value(k)
                if isinstance(kv, int) and not isinstance(kv, bool) and kv >= 0:
                    c = self.count_of(fi, o, env, depth + 1)
                    return None if c is None else _scale(c, kv)
        return None

    def marks(self, fi, a, env, depth=0) -> Counter | None:
        """number of `?` contributed by the items of iterable a (the argument of str.join)"""
        a = _resolve(fi, a)
        if depth > 6:
            return None
        if _is_str(a):
            return Counter({'1': a.value.count('?')}) if '?' in a.value else Counter()
        if isinstance(a, (ast.List, ast.Tuple)) and all(_is_str(x) for x in a.elts):
            k = sum(x.value.count('?') for x in a.elts)
            return Counter({'1': k}) if k else Counter()
        if isinstance(a, ast.BinOp) and isinstance(a.op, ast.Mult):
            for seq, cnt in ((a.left, a.right), (a.right, a.left)):
                seq = _resolve(fi, seq)
                if _is_str(seq) or isinstance(seq, (ast.List, ast.Tuple)):
                    base = self.marks(fi, seq, env, depth + 1)
                    c = self.count_of(fi, cnt, env)
                    if base is None or c is None or set(base) - {'1'}:
                        return None
                    return _scale(c, base.get('1', 0))
            return None
        if isinstance(a, (ast.ListComp, ast.GeneratorExp)) and len(a.generators) == 1 and not a.generators[0].ifs \
                and _is_str(a.elt):
            it = a.generators[0].iter
            if isinstance(it, ast.Call) and call_name(it) == 'range' and len(it.args) == 1:
                c = self.count_of(fi, it.args[0], env)
            else:
                c = Counter({f'len({self.sym(fi, it, env)})': 1})
            return None if c is None else _scale(c, a.elt.value.count('?'))
        if isinstance(a, ast.Call) and call_name(a) in ('list', 'tuple') and len(a.args) == 1:
            return self.marks(fi, a.args[0], env, depth + 1)
        return None

    def _param_ok(self, fi, name, env, depth):
        """a str parameter (the table prefix) is taken to carry no placeholder; its local re-bindings must not
        add one"""
        for d in local_defs(fi.node, name):
            v = getattr(d, 'value', None)
            if not isinstance(d, (ast.Assign, ast.AugAssign, ast.AnnAssign)) or v is None:
                return False
            if not (isinstance(d, ast.AugAssign) or norm(getattr(d, 'target', None) or d.targets[0]) == name):
                return False
            c = self.q(fi, v, env, depth + 1)
            if c is None or +c:
                return False
        return True

    # -- placeholders in a text expression
    def q(self, fi, e, env=None, depth=0) -> Counter | None:
        env = env or {}
        if depth > 8:
            return None
        if isinstance(e, ast.Constant):
            return Counter({'1': e.value.count('?')}) if isinstance(e.value, str) and '?' in e.value else Counter()
        if isinstance(e, ast.JoinedStr):
            tot = Counter()
            for v in e.values:
                c = self.q(fi, v, env, depth + 1)
                if c is None:
                    return None
                tot += c
            return tot
        if isinstance(e, ast.FormattedValue):
            return self.q(fi, e.value, env, depth + 1)
        if isinstance(e, ast.BinOp) and isinstance(e.op, ast.Add):
            a, b = self.q(fi, e.left, env, depth + 1), self.q(fi, e.right, env, depth + 1)
            return None if a is None or b is None else a + b
        if isinstance(e, ast.BinOp) and isinstance(e.op, ast.Mult):
            for s, cnt in ((e.left, e.right), (e.right, e.left)):
                s = _resolve(fi, s)
                if _is_str(s):
                    c = self.count_of(fi, cnt, env)
                    return None if c is None else _scale(c, s.value.count('?'))
            return None
        if isinstance(e, ast.IfExp):
            a, b = self.q(fi, e.body, env, depth + 1), self.q(fi, e.orelse, env, depth + 1)
            return a if a is not None and b is not None and +a == +b else None
        if isinstance(e, ast.Name):
            if e.id in env:
                return env[e.id]
            r = _resolve(fi, e)
            if r is not e:
                return self.q(fi, r, env, depth + 1)
            f2 = fi
            while f2 is not None:
                if e.id in f2.params:
                    return Counter() if self._param_ok(f2, e.id, env, depth) else None
                if '.<locals>.' not in f2.qualname:
                    break
                f2 = f2.module.functions.get(f2.qualname.rsplit('.<locals>.', 1)[0])
                if f2 is not None:
                    d = single_def_value(f2.node, e.id)
                    if d is not None:
                        return self.q(f2, d, env, depth + 1)
            return None
        if isinstance(e, ast.Call):
            if isinstance(e.func, ast.Attribute) and e.func.attr == 'join' and len(e.args) == 1 and not e.keywords:
                sep = _resolve(fi, e.func.value)
                if not _is_str(sep) or '?' in sep.value:
                    return None
                return self.marks(fi, e.args[0], env)
            if call_name(e) == 'str' and len(e.args) == 1:
                return self.q(fi, e.args[0], env, depth + 1)
            # a helper of the repository that returns the text: count in its single return, with the lengths
            # expressed in the caller's collections
            callee = resolve_call(self.prog, fi, e)
            if callee is not None and callee.module is fi.module and not e.keywords:
                ps = callee.params
                if callee.cls is not None and ps[:1] in (['self'], ['cls']) and isinstance(e.func, ast.Attribute):
                    ps = ps[1:]
                rets = [n for n in walk_no_nested(callee.node) if isinstance(n, ast.Return)]
                if len(rets) == 1 and rets[0].value is not None and len(e.args) == len(ps):
                    env2 = {'@' + p: self.sym(fi, a, env) for p, a in zip(ps, e.args)}
                    return self.q(callee, rets[0].value, env2, depth + 1)
            return None
        if isinstance(e, ast.Attribute) and norm(e) in ('self._where_clause',):
            return Counter()
        return None

    # -- parameters pushed with it
    def p(self, fi, e, env=None, depth=0) -> Counter | None:
        env = env or {}
        e = _resolve(fi, e)
        if depth > 6:
            return None
        if isinstance(e, (ast.List, ast.Tuple)):
            tot = Counter()
            for x in e.elts:
                c = self.p(fi, x.value, env, depth + 1) if isinstance(x, ast.Starred) else Counter({'1': 1})
                if c is None:
                    return None
                tot += c
            return tot
        if isinstance(e, ast.BinOp) and isinstance(e.op, ast.Add):
            a, b = self.p(fi, e.left, env, depth + 1), self.p(fi, e.right, env, depth + 1)
            return None if a is None or b is None else a + b
        if isinstance(e, ast.BinOp) and isinstance(e.op, ast.Mult):
            for k, o in ((e.left, e.right), (e.right, e.left)):
                kv = const_value(k)
                if isinstance(kv, int) and not isinstance(kv, bool) and kv >= 0:
                    c = self.p(fi, o, env, depth + 1)
                    return None if c is None else _scale(c, kv)
            return None
        if isinstance(e, ast.IfExp):
            a, b = self.p(fi, e.body, env, depth + 1), self.p(fi, e.orelse, env, depth + 1)
            return a if a is not None and b is not None and +a == +b else None
        if isinstance(e, ast.Call) and call_name(e) in ('list', 'tuple', 'sorted') and len(e.args) == 1:
            return self.p(fi, e.args[0], env, depth + 1)
        if isinstance(e, ast.Call) and isinstance(e.func, ast.Attribute) and e.func.attr == 'copy' and not e.args:
            return self.p(fi, e.func.value, env, depth + 1)
        if isinstance(e, ast.Subscript) and isinstance(e.slice, ast.Slice) and e.slice.lower is None \
                and e.slice.upper is None and e.slice.step is None:
            return self.p(fi, e.value, env, depth + 1)
        if isinstance(e, ast.Constant) and not isinstance(e.value, (str, bytes)) and e.value is not None:
            return Counter({'1': 1})
        if isinstance(e, ast.Attribute) and norm(e.value) == 'self' and e.attr in self.scalars:
            return Counter({'1': 1})
        if isinstance(e, (ast.Attribute, ast.Name)):
            return Counter({f'len({self.sym(fi, e, env)})': 1})
        return None


def _sink_of(t):
    """how a tuple enters a list of conditions: ('push', <receiver>), ('bind', <name>), ('ret', None) or None"""
    p = getattr(t, '_parent', None)
    if isinstance(p, ast.Call) and isinstance(p.func, ast.Attribute) and p.func.attr in ('append', 'insert') \
            and p.args and p.args[-1] is t:
        return 'push', norm(p.func.value)
    if not isinstance(p, ast.List):
        return None
    x = p
    while True:
        q = getattr(x, '_parent', None)
        if isinstance(q, (ast.List, ast.Starred)) or (isinstance(q, ast.IfExp) and x is not q.test) or \
                (isinstance(q, ast.BinOp) and isinstance(q.op, ast.Add)) or \
                (isinstance(q, ast.Call) and call_name(q) in ('list', 'tuple') and x in q.args):
            x = q
            continue
        break
    if isinstance(q, ast.Return):
        return 'ret', None
    if isinstance(q, ast.Assign) and len(q.targets) == 1 and isinstance(q.targets[0], ast.Name) and q.value is x:
        return 'bind', q.targets[0].id
    if isinstance(q, ast.AnnAssign) and isinstance(q.target, ast.Name) and q.value is x:
        return 'bind', q.target.id
    if isinstance(q, ast.AugAssign) and isinstance(q.op, ast.Add) and q.value is x:
        return 'push', norm(q.target)
    if isinstance(q, ast.Call) and isinstance(q.func, ast.Attribute) and q.func.attr == 'extend' and x in q.args:
        return 'push', norm(q.func.value)
    return None


def _pairs_into(view, lists=None):
    """2-tuples that enter a list of conditions of this function: a returned list, or one of the named lists"""
    if lists is None:
        lists = set()
        for r in walk_no_nested(view.node):
            if isinstance(r, ast.Return) and r.value is not None:
                lists |= {x.id for x in ast.walk(r.value) if isinstance(x, ast.Name)}
    out = []
    for t in walk_no_nested(view.node):
        if isinstance(t, ast.Tuple) and len(t.elts) == 2 and isinstance(t.ctx, ast.Load):
            s = _sink_of(t)
            if s is not None and (s[0] == 'ret' or s[1] in lists):
                out.append(t)
    out.sort(key=lambda t: (t.lineno, t.col_offset))
    return out


def _list_inflows(view):
    """(receiver name, expression) for every statement that adds to / binds a local list"""
    for x in walk_no_nested(view.node):
        if isinstance(x, ast.Assign) and len(x.targets) == 1 and isinstance(x.targets[0], ast.Name):
            yield x.targets[0].id, x.value
        elif isinstance(x, ast.AugAssign) and isinstance(x.op, ast.Add) and isinstance(x.target, ast.Name):
            yield x.target.id, x.value
        elif isinstance(x, ast.Call) and isinstance(x.func, ast.Attribute) and isinstance(x.func.value, ast.Name) \
                and x.func.attr in ('append', 'extend', 'insert') and x.args:
            yield x.func.value.id, x.args[-1]


def _listify_subject(e):
    """X for `X if isinstance(X, list) else [X]` (either polarity), else None"""
    if not isinstance(e, ast.IfExp):
        return None
    t, a, b = e.test, e.body, e.orelse
    if isinstance(t, ast.UnaryOp) and isinstance(t.op, ast.Not):
        t, a, b = t.operand, b, a
    x = _isinstance_list(t)
    if x is not None and norm(a) == norm(x) and isinstance(b, (ast.List, ast.Tuple)) and len(b.elts) == 1 \
            and norm(b.elts[0]) == norm(x):
        return x
    return None


def _isinstance_list(t):
    """X for the test `isinstance(X, list)`"""
    if isinstance(t, ast.Call) and call_name(t) == 'isinstance' and len(t.args) == 2 \
            and norm(t.args[1]) in ('list', '(list, tuple)', '(tuple, list)', 'list | tuple', 'tuple | list'):
        return t.args[0]
    return None


class _Flatten:
    """abstract evaluation of the step that turns the list of (text, parameters) pairs into the WHERE text and one
    flat parameter list.  Values: 'conds' (the pair list), 'firsts' / 'seconds' (its components, in order),
    'listified' (seconds, each wrapped into a list unless it is one), 'flat' (seconds flattened in order),
    ('pair', a, b), ('join', sep, v), ('str', s), 'empty', ('bad', why), None (unknown)."""

    def __init__(self, view, conds: str, fields=None):
        self.fn = view.node
        self.C = conds
        self.bound = {}
        self.fields = fields or {}  # component names of pair classes: {'sql': 0, 'params': 1}

    def elem(self, e):
        """what one loop / comprehension element expression denotes"""
        if isinstance(e, ast.Name):
            return self.bound.get(e.id)
        if isinstance(e, ast.Subscript) and isinstance(e.value, ast.Name) and self.bound.get(e.value.id) == 'e12':
            i = const_value(e.slice)
            return {0: 'e1', 1: 'e2', -2: 'e1', -1: 'e2'}.get(i)
        if isinstance(e, ast.Attribute) and isinstance(e.value, ast.Name) and self.bound.get(e.value.id) == 'e12':
            return {0: 'e1', 1: 'e2'}.get(self.fields.get(e.attr))
        x = _listify_subject(e)
        if x is not None and self.elem(x) == 'e2':
            return 'eL'
        return None

    def bind(self, target, it):
        """bind loop targets for iteration over abstract value it; False if not understood"""
        if it == 'conds':
            if isinstance(target, (ast.Tuple, ast.List)) and len(target.elts) == 2 and \
                    all(isinstance(x, ast.Name) for x in target.elts):
                self.bound[target.elts[0].id] = 'e1'
                self.bound[target.elts[1].id] = 'e2'
                return True
            if isinstance(target, ast.Name):
                self.bound[target.id] = 'e12'
                return True
            return False
        tag = {'firsts': 'e1', 'seconds': 'e2', 'listified': 'eL'}.get(it)
        if tag and isinstance(target, ast.Name):
            self.bound[target.id] = tag
            return True
        return False

    def comp(self, c, depth):
        gens = c.generators
        if any(g.ifs or g.is_async for g in gens) or len(gens) > 2:
            return None
        if not self.bind(gens[0].target, self.val(gens[0].iter, depth + 1)):
            return None
        if len(gens) == 1:
            return {'e1': 'firsts', 'e2': 'seconds', 'eL': 'listified', 'e12': 'conds'}.get(self.elem(c.elt))
        inner = self.elem(gens[1].iter)
        if not isinstance(gens[1].target, ast.Name) or not isinstance(c.elt, ast.Name) or c.elt.id != gens[1].target.id:
            return None
        if inner == 'eL':
            return 'flat'
        if inner == 'e2':
            return 'bad', 'each parameter entry is iterated as if it were a list, but range bounds are pushed as scalars'
        return None

    def accumulated(self, name, depth):
        """a local initialised to an empty list and filled inside one loop over the pairs"""
        defs = local_defs(self.fn, name)
        init = [d for d in defs if isinstance(d, (ast.Assign, ast.AnnAssign))]
        if len(init) != 1 or any(not isinstance(d, (ast.Assign, ast.AnnAssign, ast.AugAssign)) for d in defs):
            return None
        iv = init[0].value
        if not ((isinstance(iv, ast.List) and not iv.elts) or (isinstance(iv, ast.Call) and call_name(iv) == 'list' and not iv.args)):
            return None
        muts = [d for d in defs if isinstance(d, ast.AugAssign)]
        for x in walk_no_nested(self.fn):
            if isinstance(x, ast.Call) and isinstance(x.func, ast.Attribute) and x.func.attr in MUTATING_METHODS \
                    and isinstance(x.func.value, ast.Name) and x.func.value.id == name:
                muts.append(stmt_of(x))
        if not muts:
            return None
        loops = {id(a): a for m in muts for a in ancestors(m) if isinstance(a, (ast.For, ast.While, ast.AsyncFor))}
        if len(loops) != 1:
            return None
        loop = next(iter(loops.values()))
        if not isinstance(loop, ast.For) or loop.orelse or _jumps(loop.body, (ast.Break, ast.Continue)) \
                or any(x is loop for x in ancestors(init[0])):
            return None
        if not self.bind(loop.target, self.val(loop.iter, depth + 1)):
            return None
        units = [s for s in loop.body if any(m is s or any(a is s for a in ancestors(m)) for m in muts)]
        if len(units) != 1:
            return None
        u = units[0]

        def push(st):
            """('append' | 'extend', element expression) of a single statement pushing onto `name`"""
            if isinstance(st, ast.AugAssign) and isinstance(st.op, ast.Add) and norm(st.target) == name:
                v = st.value
                if isinstance(v, (ast.List, ast.Tuple)) and len(v.elts) == 1 and not isinstance(v.elts[0], ast.Starred):
                    return 'append', v.elts[0]
                return 'extend', v
            if isinstance(st, ast.Expr) and isinstance(st.value, ast.Call) and isinstance(st.value.func, ast.Attribute) \
                    and norm(st.value.func.value) == name and len(st.value.args) == 1 and not st.value.keywords:
                if st.value.func.attr in ('append', 'extend'):
                    return st.value.func.attr, st.value.args[0]
            return None

        pu = push(u)
        if pu is not None:
            how, e = pu
            tag = self.elem(e)
            if how == 'append':
                return {'e1': 'firsts', 'e2': 'seconds', 'eL': 'listified', 'e12': 'conds'}.get(tag)
            if tag == 'eL':
                return 'flat'
            if tag == 'e2':
                return 'bad', 'each parameter entry is extended as if it were a list, but range bounds are pushed as scalars'
            return None
        if isinstance(u, ast.If) and len(real_body(u.body)) == 1 and len(real_body(u.orelse)) == 1:
            t, a, b = u.test, real_body(u.body)[0], real_body(u.orelse)[0]
            if isinstance(t, ast.UnaryOp) and isinstance(t.op, ast.Not):
                t, a, b = t.operand, b, a
            x = _isinstance_list(t)
            pa, pb = push(a), push(b)
            if x is not None and self.elem(x) == 'e2' and pa is not None and pb is not None \
                    and pa[0] == 'extend' and pb[0] == 'append' and norm(pa[1]) == norm(x) and norm(pb[1]) == norm(x):
                return 'flat'
        return None

    def val(self, e, depth=0):
        if e is None or depth > 10:
            return None
        if isinstance(e, ast.Name):
            if e.id == self.C:
                return 'conds'
            tc = tuple_def_component(self.fn, e.id)
            if tc is not None:
                v = self.val(tc[0], depth + 1)
                if isinstance(v, tuple) and v[0] == 'pair' and tc[1] < 2:
                    return v[1 + tc[1]]
                return None
            acc = self.accumulated(e.id, depth)
            if acc is not None:
                return acc
            d = single_def_value(self.fn, e.id)
            return self.val(d, depth + 1) if d is not None else None
        if isinstance(e, ast.Constant) and isinstance(e.value, str):
            return 'str', e.value
        if isinstance(e, (ast.List, ast.Tuple)) and not e.elts:
            return 'empty'
        if isinstance(e, (ast.ListComp, ast.GeneratorExp)):
            return self.comp(e, depth)
        if isinstance(e, ast.Subscript):
            v = self.val(e.value, depth + 1)
            i = const_value(e.slice)
            if isinstance(v, tuple) and v[0] == 'pair' and i in (0, 1):
                return v[1 + i]
            return None
        if isinstance(e, ast.Call):
            cn = call_name(e)
            if cn in ('list', 'tuple', 'iter') and len(e.args) == 1 and not e.keywords:
                return self.val(e.args[0], depth + 1)
            if cn == 'list' and not e.args:
                return 'empty'
            if cn == 'zip' and len(e.args) == 1 and isinstance(e.args[0], ast.Starred):
                return ('pair', 'firsts', 'seconds') if self.val(e.args[0].value, depth + 1) == 'conds' else None
            if cn == 'map' and len(e.args) == 2 and norm(e.args[0]) in ('list', 'tuple'):
                v = self.val(e.args[1], depth + 1)
                return v if isinstance(v, tuple) and v[0] == 'pair' else None
            if isinstance(e.func, ast.Attribute) and e.func.attr == 'join' and len(e.args) == 1 and _is_str(e.func.value):
                return 'join', e.func.value.value, self.val(e.args[0], depth + 1)
            flat_of = None
            if cn.endswith('chain.from_iterable') and len(e.args) == 1:
                flat_of = e.args[0]
            elif cn.split('.')[-1] == 'chain' and len(e.args) == 1 and isinstance(e.args[0], ast.Starred):
                flat_of = e.args[0].value
            elif cn == 'sum' and len(e.args) == 2 and self.val(e.args[1], depth + 1) == 'empty':
                flat_of = e.args[0]
            if flat_of is not None:
                v = self.val(flat_of, depth + 1)
                if v == 'listified':
                    return 'flat'
                if v == 'seconds':
                    return 'bad', 'the parameter entries are chained as if each were a list, but range bounds are pushed as scalars'
            return None
        return None


def _text_constant(fi, e, depth=0) -> str:
    """the literal part of a text expression, in source order, locals followed to their definitions"""
    if depth > 4:
        return ''
    if isinstance(e, ast.Name):
        r = _resolve(fi, e)
        return '' if r is e else _text_constant(fi, r, depth + 1)
    if _is_str(e):
        return e.value
    if isinstance(e, ast.Call) and not (isinstance(e.func, ast.Attribute) and e.func.attr == 'format'):
        return ''
    return ''.join(_text_constant(fi, ch, depth) for ch in ast.iter_child_nodes(e))


def rule_placeholders(ctx):
    prog = ctx.prog
    fm = prog.module(F)
    fcls = prog.cls(F, 'Filter')
    numeric = _numeric_optionals(fcls)
    cnt = _Count(prog, numeric)
    ts = fcls.find_method('to_sql')
    tv = _view(prog, ts)
    pfields = _pair_fields(prog, fm)
    # condition builders: the other methods of Filter that return (text, parameters) pairs
    builders = {}
    for m in fcls.methods.values():
        if m is ts or m.qualname == ts.qualname:
            continue
        v = _view(prog, m)
        pairs = _pairs_into(v)
        if pairs:
            builders[m.qualname] = (v, pairs)
    ctx.floor('C14-R3/builders', len(builders), 4, 'methods of Filter returning (text, parameters) pairs')
    # the list of pairs in to_sql: the local that receives the builders' results / pushed pairs
    into = {}
    for name, e in _list_inflows(tv):
        for c in [x for x in ast.walk(e) if isinstance(x, ast.Call)]:
            callee = resolve_call(prog, tv, c)
            if callee is not None and callee.qualname in builders:
                into.setdefault(name, set()).add(callee.qualname)
    cands = set(into)
    for t in walk_no_nested(tv.node):
        if isinstance(t, ast.Tuple) and len(t.elts) == 2 and isinstance(t.ctx, ast.Load):
            s = _sink_of(t)
            if s is not None and s[0] in ('push', 'bind') and s[1].isidentifier():
                cands.add(s[1])
    rets = []
    for r in walk_no_nested(tv.node):
        if isinstance(r, ast.Return) and r.value is not None:
            v = _resolve(tv, r.value)
            if isinstance(v, ast.Tuple) and len(v.elts) == 2:
                rets.append((r, v))
    # … is the one the returned text is joined from
    shaped = []
    for c in sorted(cands):
        for r, v in rets:
            tvv = _Flatten(tv, c, pfields).val(v.elts[0])
            if isinstance(tvv, tuple) and tvv[0] == 'join' and tvv[2] == 'firsts':
                shaped.append(c)
                break
    if len(shaped) != 1:
        ctx.undecided('C14-R3', tv, 'to_sql return value',
                      f'cannot identify the list of (text, parameters) pairs the WHERE text is joined from (candidates: {sorted(cands)})')
    conds = shaped[0]
    for q, (v, _) in sorted(builders.items()):
        ok = q in into.get(conds, ())
        ctx.ob('C14-R3', tv, f'conditions of {q} are part of the WHERE clause', ok,
               f'its result is added to `{conds}`' if ok else
               f'{q} builds conditions that never reach the list the WHERE clause is built from: those filters are ignored')
    # closures that push pairs but could not be merged into their caller
    for v in [tv] + [b[0] for b in builders.values()]:
        pref = v.qualname + '.<locals>.'
        for q, g in fm.functions.items():
            if q.startswith(pref) and '.<locals>.' not in q[len(pref):] and _pushes_to_caller(g.node, set(g.params)):
                if any(isinstance(x, ast.Name) and x.id == g.name and isinstance(x.ctx, ast.Load) for x in walk_no_nested(v.node)):
                    ctx.undecided('C14-R3', g, g.name, 'a local helper pushes conditions but is not (only) called as a plain statement')
    n = 0
    sites = [(tv, t) for t in _pairs_into(tv, {conds})] + [(v, t) for v, ps in builders.values() for t in ps]
    for fi, t in sites:
        text, params = t.elts
        qc = cnt.q(fi, text)
        pc = cnt.p(fi, params)
        n += 1
        if qc is None or pc is None:
            ctx.undecided('C14-R3', fi, norm(t)[:80], 'cannot count placeholders / parameters symbolically')
        ok = +qc == +pc
        ctx.ob('C14-R3', fi, f'condition `{norm(text)[:50]}` with params `{norm(params)[:50]}`', ok,
               f'placeholders {dict(+qc)} = parameters {dict(+pc)}' if ok else
               f'{dict(+qc)} placeholders but {dict(+pc)} parameters: the statement cannot bind '
               '(or binds values to the wrong placeholders)', line=t.lineno)
        # a scalar bound min_<c> / max_<c> constrains column <c> from the right side
        pr = _resolve(fi, params)
        if isinstance(pr, ast.Attribute) and norm(pr.value) == 'self' and pr.attr in numeric:
            attr = pr.attr
            col = re.search(r'(\w+)\s*(<=|>=|<|>|=|!=|<>)\s*\?', _text_constant(fi, text))
            okr = col is not None and ((attr.startswith('min_') and col.group(2) == '>=') or
                                       (attr.startswith('max_') and col.group(2) == '<=')) and attr[4:] == col.group(1)
            ctx.ob('C14-R3', fi, f'{attr} ↔ {col.group(1) if col else "?"} {col.group(2) if col else ""}', bool(okr),
                   'min → >=, max → <= on the column of the same name' if okr else
                   'range bound compares the wrong column or in the wrong direction', line=t.lineno)
    ctx.floor('C14-R3', n, 15, 'filter conditions')
    # every numeric bound of the filter is turned into a condition
    pushed = {norm(_resolve(fi, t.elts[1])) for fi, t in sites}
    for a in sorted(numeric):
        ok = f'self.{a}' in pushed
        ctx.ob('C14-R3', tv, f'bound {a} becomes a condition', ok, 'pushed with its own placeholder' if ok else
               f'no condition carries self.{a}: the bound is ignored', nontrivial=False)
    # flatten step in to_sql
    general = 0
    for r, v in rets:
        a, b = _Flatten(tv, conds, pfields).val(v.elts[0]), _Flatten(tv, conds, pfields).val(v.elts[1])
        what = f'return {norm(v)[:90]}'
        if a == ('str', '') and b == 'empty':
            facts = [f for t, pol, _ in guards_of(r) for at, p in conjuncts(t, pol) for f in [_emptiness_fact(at, p, conds)]]
            ok = any(f < 0 for f in facts)
            ctx.ob('C14-R3', tv, what, ok, f'only when `{conds}` is empty: no condition, no parameter' if ok else
                   f'returns "no condition" although `{conds}` may hold conditions', line=r.lineno, nontrivial=False)
            continue
        bad = None
        if isinstance(a, tuple) and a[0] == 'join' and a[2] == 'firsts':
            if a[1].strip().upper() != 'AND' or a[1] == a[1].strip() or not a[1][0].isspace() or not a[1][-1].isspace():
                bad = f'the condition texts are joined with {a[1]!r}, not with AND'
        elif isinstance(a, tuple) and a[0] == 'bad':
            bad = a[1]
        else:
            a = None
        if isinstance(b, tuple) and b[0] == 'bad':
            bad = bad or b[1]
        elif b == 'seconds' or b == 'listified':
            bad = bad or 'the per-condition parameter groups are returned without being flattened into one list'
        elif b != 'flat':
            b = None
        if bad is None and (a is None or b is None):
            ctx.undecided('C14-R3', tv, what, 'cannot decide that the texts are AND-ed and the parameters flattened in condition order')
        general += 1
        ctx.ob('C14-R3', tv, 'conditions AND-ed, parameters flattened in condition order', bad is None,
               what if bad is None else bad, line=r.lineno)
    ctx.floor('C14-R3/flatten', general, 1, 'return of (joined text, flat parameters)')
    # origin/destination column roles in the spatial helpers
    for q, (f2, pairs) in sorted(builders.items()):
        for t in pairs:
            txt, par = norm(t.elts[0]), norm(_resolve(f2, t.elts[1]))
            for role in ('origin', 'destination'):
                if f'self.{role}_' in par:
                    other = 'destination' if role == 'origin' else 'origin'
                    ok = f'{{table}}{role} IN' in txt and f'{{table}}{other} IN' not in txt
                    ctx.ob('C14-R3', f2, f'{role} filter constrains the {role} column', ok,
                           'column matches the filter attribute' if ok else
                           f'the {role}_* filter is applied to the {other} column', line=t.lineno)
    # query-level conditions: per block, '?' appended == params pushed
    qcnt = _Count(prog)
    qm = prog.module(Q)
    pending = []
    for qn in ('QueryBase._common_conditions', 'Query.to_sql'):
        fq = qm.func(qn)
        blocks = {}
        for x in walk_no_nested(fq.node):
            if isinstance(x, ast.Expr) and isinstance(x.value, ast.Call):
                cn = call_name(x.value)
                if cn in ('self._conditions.append', 'self._params.append', 'self._params.extend'):
                    blocks.setdefault(id(getattr(x, '_parent', None)), []).append(x)
            if isinstance(x, ast.AugAssign) and norm(x.target) == 'self._params':
                blocks.setdefault(id(getattr(x, '_parent', None)), []).append(x)
        for blk in blocks.values():
            q = Counter()
            p = Counter()
            und = False
            for x in blk:
                if isinstance(x, ast.AugAssign):
                    pc = qcnt.p(fq, x.value)
                    p += pc if pc else Counter()
                    und = und or pc is None
                    continue
                c = x.value
                cn = call_name(c)
                if cn.endswith('_conditions.append'):
                    if isinstance(c.args[0], ast.Name) and c.args[0].id == 'cond':
                        q += Counter({'filter': 1})
                    else:
                        qc = qcnt.q(fq, c.args[0])
                        und = und or qc is None
                        q += qc or Counter()
                elif cn.endswith('_params.append'):
                    p += Counter({'1': 1})
                elif cn.endswith('_params.extend'):
                    if norm(c.args[0]) == 'p':
                        p += Counter({'filter': 1})
                    else:
                        pc = qcnt.p(fq, c.args[0])
                        und = und or pc is None
                        p += pc or Counter()
            if und:
                pending.append((fq, norm(blk[0])[:60]))
                continue
            ok = +q == +p
            ctx.ob('C14-R3', fq, f'block at `{norm(blk[0])[:50]}`', ok,
                   f'{dict(+q)} placeholders = {dict(+p)} parameters' if ok else
                   (f'{dict(+q)} placeholders but {dict(+p)} parameters pushed in the same block: the condition list and the '
                    'parameter list are built in parallel, so a condition whose text is appended elsewhere binds the values of '
                    'its neighbours (e.g. the sample fraction to the day modulus)'), line=blk[0].lineno)
    for fq, what in pending:
        ctx.undecided('C14-R3', fq, what, 'cannot count symbolically')


def _numeric_optionals(cls):
    """fields annotated `int | None` / `float | None` (Optional[...]): one scalar or unset"""
    out = set()
    for f, ann in cls.all_fields().items():
        a = norm(ann)
        if 'None' in a and any(k in a for k in ('float', 'int')) and 'list' not in a and 'str' not in a:
            out.add(f)
    return out


# ---------------------------------------------------------------- R4..R6 ---
def _module_values(fi):
    """module-level names bound exactly once to a literal or to a constructor call with literal arguments
    (`_EPOCH = date(1970, 1, 1)`), not shadowed in fi: reading the name is reading that value"""
    out = {}
    seen = Counter()
    for st in fi.module.tree.body:
        for t, _, _ in stores_to(st):
            if isinstance(t, ast.Name):
                seen[t.id] += 1
    for name, v in fi.module.constants.items():
        if seen[name] != 1 or name in fi.params or local_defs(fi.node, name):
            continue
        args = list(v.args) + [k.value for k in v.keywords] if isinstance(v, ast.Call) else None
        if const_value(v) is not None or (args is not None and dotted_name(v.func) and
                                          all(const_value(a) is not None for a in args)):
            out[name] = v
    return out


def _body_text(fi) -> str:
    """normalised text of the function's statements, module-level constant values written out"""
    env = _module_values(fi)
    return ' '.join(norm(_clone(s_, env) if env else s_) for s_ in fi.node.body)


def _sql_text(fi, name='sql'):
    d = [st for t, st, how in stores_to(fi.node) if isinstance(t, ast.Name) and t.id == name and how in ('assign',)]
    if not d:
        return None, None
    v = d[0].value
    parts = []
    for x in ast.walk(v):
        if isinstance(x, ast.Constant) and isinstance(x.value, str):
            parts.append((x.lineno, x.col_offset, x.value))
    parts.sort()
    return ''.join(p[2] for p in parts), d[0]


def rule_columns(ctx):
    prog = ctx.prog
    qm = prog.module(Q)
    qs = qm.func('Query.to_sql')
    sql, st = _sql_text(qs)
    if sql is None:
        ctx.undecided('C14-R4', qs, 'sql', 'SQL literal not found')
    msel = re.search(r'SELECT (.*?) FROM', sql, re.S)
    cols = []
    for c in msel.group(1).split(','):
        c = c.strip()
        ma = re.search(r'\bAS (\w+)$', c, re.I)
        cols.append(ma.group(1) if ma else c.split('.')[-1])
    fr = qm.func('QueryResult.from_row')
    call = next(c for c in calls_in(fr.node) if call_name(c) == 'cls')
    alias = {'departure': 'departure_timestamp', 'arrival': 'arrival_timestamp'}
    n = 0
    for k in call.keywords:
        idx = None
        for x in ast.walk(k.value):
            if isinstance(x, ast.Subscript) and norm(x.value) == 'row' and isinstance(x.slice, ast.Constant):
                idx = x.slice.value
        if idx is None:
            ctx.undecided('C14-R4', fr, k.arg, 'row index not found')
        n += 1
        want = alias.get(k.arg, k.arg)
        ok = idx < len(cols) and cols[idx] == want
        ctx.ob('C14-R4', fr, f'{k.arg} = row[{idx}] ({cols[idx] if idx < len(cols) else "?"})', ok,
               'field reads the column of the same name' if ok else
               f'field `{k.arg}` reads column {idx} which the SELECT list defines as `{cols[idx] if idx < len(cols) else "out of range"}`',
               line=k.value.lineno)
    ctx.floor('C14-R4', n, 15, 'QueryResult fields')
    ok = len(cols) == n
    ctx.ob('C14-R4', qs, f'{len(cols)} selected columns for {n} result fields', ok, 'same number' if ok else 'arity differs',
           nontrivial=False)
    ok = sql.rstrip().endswith('ORDER BY s.departure_timestamp') and not guards_of(st)
    ctx.ob('C14-R4', qs, 'results ordered by departure time', ok, 'ORDER BY s.departure_timestamp on every path' if ok else
           'results are not (always) ordered by departure time', line=st.lineno)
    joins = ['JOIN flights f ON f.id = s.flight_id', 'JOIN airports ao ON f.origin = ao.id',
             'JOIN airports ad ON f.destination = ad.id']
    for j in joins:
        ctx.ob('C14-R4', qs, j, j in sql, 'join present' if j in sql else 'join changed: rows pair the wrong airports/flights',
               line=st.lineno, nontrivial=False)
    ok = 'ao.iata_code AS origin' in sql and 'ad.iata_code AS destination' in sql and \
        'ao.country AS origin_country' in sql and 'ad.country AS destination_country' in sql
    ctx.ob('C14-R4', qs, 'origin columns from ao, destination columns from ad', ok, 'aliases agree with joins' if ok else
           'origin/destination columns are taken from the wrong airport alias', line=st.lineno)
    # limit / offset
    src = _body_text(qs)
    ok = "sql += f' LIMIT {self.limit}'" in src and "sql += f' OFFSET {self.offset}'" in src
    ctx.ob('C14-R6', qs, 'limit and offset appended after ordering', ok, 'LIMIT then OFFSET' if ok else 'limit/offset handling changed')
    # frequent routes
    ff = qm.func('FrequentFlightQuery.to_sql')
    sql2, st2 = _sql_text(ff)
    ok = sql2 is not None and 'COUNT(s.id) AS nflights' in sql2 and 'GROUP BY od_pair' in sql2 and \
        'ORDER BY nflights DESC' in sql2 and 'substring(od_pair, 1, 3) AS airport1' in sql2 and \
        'substring(od_pair, 4) AS airport2' in sql2
    ctx.ob('C14-R4', ff, 'frequent routes: count per direction-independent pair, descending', bool(ok),
           'GROUP BY od_pair ORDER BY nflights DESC' if ok else 'frequent-route SQL changed')
    ffr = qm.func('FrequentFlightQueryResult.from_row')
    c = next(c for c in calls_in(ffr.node) if call_name(c) == 'cls')
    got = {k.arg: norm(k.value) for k in c.keywords}
    ok = got == {'airport1': 'row[0]', 'airport2': 'row[1]', 'number_of_flights': 'row[2]'}
    ctx.ob('C14-R4', ffr, f'{got}', ok, 'fields follow the SELECT order' if ok else 'frequent-route fields read the wrong columns')
    cq = qm.func('CountQuery.to_sql')
    src = _body_text(cq)
    ok = "sql = 'SELECT COUNT(s.id) FROM schedules s'" in src and 'JOIN flights f ON f.id = s.flight_id' in src
    ctx.ob('C14-R4', cq, 'count query counts instances with the same joins', ok, 'COUNT(s.id)' if ok else 'count query changed')

    # R6 dates
    cc = qm.func('QueryBase._common_conditions')
    src = _body_text(cc)
    ok = "self._conditions.append('s.departure_timestamp >= ?')" in src and \
        'self._params.append(int(date_to_timestamp(self.start_date).timestamp()))' in src
    ctx.ob('C14-R6', cc, 'start date inclusive from midnight UTC', ok, '>= midnight(start)' if ok else 'start bound changed')
    ok = "self._conditions.append('s.departure_timestamp < ?')" in src and \
        'int((date_to_timestamp(self.end_date) + timedelta(days=1)).timestamp())' in src
    ctx.ob('C14-R6', cc, 'end date inclusive: strictly before midnight of the following day', ok,
           '< midnight(end + 1 day)' if ok else 'end bound changed (end date no longer inclusive, or a day too many)')
    dt = qm.func('date_to_timestamp')
    ok = 'pd.Timestamp(d, tzinfo=UTC)' in _body_text(dt)
    ctx.ob('C14-R6', dt, 'dates are UTC midnights', ok, 'tzinfo=UTC' if ok else 'date conversion is no longer UTC midnight', nontrivial=False)
    src = _body_text(qs)
    ok = "'(s.day - ?) % ? = 0'" in src and '(self.start_date - date(1970, 1, 1)).days' in src and \
        "'(s.day - (SELECT MIN(day) FROM schedules)) % ? = 0'" in src
    ctx.ob('C14-R6', qs, 'every-nth-day anchored at the start day (or first day in the data)', ok,
           '(day − anchor) % n = 0' if ok else 'every-nth-day selection changed')
    # guard of the every_nth block
    blk = [n for n in walk_no_nested(qs.node) if isinstance(n, ast.If) and 'every_nth' in norm(n.test) and not isinstance(first_stmt(n.body), ast.Raise)]
    ok = bool(blk) and norm(blk[0].test) == 'self.every_nth is not None and self.every_nth > 1'
    ctx.ob('C14-R6', qs, 'every_nth applied when > 1', ok, norm(blk[0].test) if ok else 'every_nth guard changed', nontrivial=False)
    # sampling
    ok = "'(random() + 9223372036854775808) / 18446744073709551615.0 < ?'" in src
    ctx.ob('C14-R6', qs, 'sampling probability from SQLite random()', ok, 'uniform (0,1) < sample' if ok else 'sampling expression changed', nontrivial=False)

    # R5 spatial rule
    fm = prog.module(F)
    nm = fm.func('Filter._normalize')
    okd = single_def_value(nm.node, 'ok')
    ok = okd is not None
    if ok:
        import itertools
        from ..astutil import eval_pred
        try:
            for c_, o_, d_ in itertools.product(range(4), repeat=3):
                want = (c_ == 1 and o_ == 0 and d_ == 0) or (c_ == 0 and o_ <= 1 and d_ <= 1)
                if bool(eval_pred(okd, {'combined': c_, 'origin': o_, 'destination': d_})) != want:
                    ok = False
        except ValueError as e:
            ctx.undecided('C14-R5', nm, norm(okd), f'cannot tabulate the rule: {e}')
    kinds = [norm(c.args[0]) for c in calls_in(nm.node) if call_name(c) == 'self._spatial']
    ok = ok and sorted(kinds) == ["'airport'", "'bounding_box'", "'continent'", "'country'"]
    rs = [n for n in walk_no_nested(nm.node) if isinstance(n, ast.Raise) and any(norm(t) == 'not ok' for t, _, _ in guards_of(n))]
    ok = ok and bool(rs)
    ctx.ob('C14-R5', nm, 'spatial compatibility: one combined filter, or at most one origin and one destination', bool(ok),
           'counts airport/country/continent/bounding_box in each of the three positions' if ok else
           'the compatibility rule of spatial filters changed')
    sp = fm.func('Filter._spatial')
    src = _body_text(sp)
    ok = "origin = getattr(self, 'origin_' + attr)" in src and "destination = getattr(self, 'destination_' + attr)" in src \
        and 'both = getattr(self, attr)' in src
    ctx.ob('C14-R5', sp, 'positions read the attribute of their own prefix', ok, 'both / origin_ / destination_' if ok else
           'spatial positions read the wrong attribute', nontrivial=False)


# ---------------------------------------------------------------- R7 -----
def _truth_atoms(t):
    if isinstance(t, ast.BoolOp):
        for v in t.values:
            yield from _truth_atoms(v)
    elif isinstance(t, ast.UnaryOp) and isinstance(t.op, ast.Not):
        yield from _truth_atoms(t.operand)
    else:
        yield t


def _truth_tested(fn):
    """(atom, enclosing test) for every expression whose truth value decides something: tests of if / while /
    conditional expressions / assert / comprehension filters, operands of `not`, and the operands of and/or that
    are tested before the last one is taken"""
    seen = set()
    for x in walk_no_nested(fn):
        tests = []
        if isinstance(x, (ast.If, ast.While, ast.IfExp, ast.Assert)):
            tests.append(x.test)
        elif isinstance(x, ast.comprehension):
            tests += x.ifs
        elif isinstance(x, ast.BoolOp):
            tests += x.values[:-1]
        elif isinstance(x, ast.UnaryOp) and isinstance(x.op, ast.Not):
            tests.append(x.operand)
        elif isinstance(x, ast.Call) and call_name(x) == 'bool' and len(x.args) == 1:
            tests.append(x.args[0])
        for t in tests:
            for a in _truth_atoms(t):
                if id(a) not in seen:
                    seen.add(id(a))
                    yield a, t


def rule_is_set(ctx):
    """"is this optional numeric set?" must be decided by `is (not) None`, never
    by truthiness: 0 is a legitimate bound (max_seat_capacity=0 selects all-cargo
    flights), and a dropped bound silently selects everything.  The tests are read on the expanded view, so the
    value tested may reach the test through a table-driven loop, a comprehension filter, a local or a helper's
    parameter."""
    prog = ctx.prog
    classes = [prog.cls(F, 'Filter')] + [c for c in prog.subclasses_of('QueryBase')]
    n = 0
    for cls in classes:
        numeric = _numeric_optionals(cls)
        if not numeric:
            continue
        fns = [f for f in cls.module.functions.values() if f.cls is cls]
        for fi in fns:
            view = _view(prog, fi)
            # parameters of helpers (not merged into the view) that receive such a field
            tainted = {}
            for c in calls_in(view.node):
                callee = resolve_call(prog, view, c)
                if callee is None:
                    continue
                off = 1 if callee.params[:1] in (['self'], ['cls']) else 0
                for i, a in enumerate(c.args):
                    a = _resolve(view, a)
                    if isinstance(a, ast.Attribute) and norm(a.value) == 'self' and a.attr in numeric \
                            and i + off < len(callee.params):
                        tainted.setdefault(callee.qualname, {})[callee.params[i + off]] = a.attr
            scopes = [(view, {f'self.{x}': x for x in numeric})]
            for q, prm in tainted.items():
                callee = fi.module.functions.get(q)
                if callee is not None:
                    scopes.append((callee, dict(prm)))
            for fn, subj in scopes:
                def subject(e):
                    txt = norm(_resolve(fn, e)) if isinstance(e, ast.Name) else norm(e)
                    if isinstance(e, ast.Name) and norm(e) in subj:
                        txt = norm(e)
                    return subj.get(txt)
                for a, t in _truth_tested(fn.node):
                    s = subject(a)
                    if s is not None:
                        n += 1
                        ctx.ob('C14-R7', fn, f'`{norm(t)}` tests {s} by truthiness', False,
                               f'the optional numeric `{s}` counts as "not set" when it is 0: a bound of 0 '
                               '(e.g. max_seat_capacity=0) is silently dropped and the query selects everything',
                               line=t.lineno)
                    elif isinstance(a, ast.Compare) and len(a.ops) == 1 and subject(a.left) is not None and \
                            isinstance(a.ops[0], (ast.Is, ast.IsNot, ast.Eq, ast.NotEq)) and norm(a.comparators[0]) == 'None':
                        n += 1
                        ctx.ob('C14-R7', fn, f'`{norm(a)}`', True, 'compared with None itself', line=a.lineno,
                               nontrivial=False)
    ctx.floor('C14-R7', n, 6, 'is-set tests of optional numeric fields')


def rule_cursor(ctx):
    """R8: query results are lazy generators over a database cursor; each query
    must iterate a cursor of its own, created in the call that runs the query —
    a cursor kept on the Database object is shared iteration state, and a second
    query silently truncates or mixes the rows of the first."""
    prog = ctx.prog
    dbm = prog.module('missions/database.py')
    fi = dbm.func('Database.__call__')
    ex = [c for c in calls_in(fi.node) if isinstance(c.func, ast.Attribute) and c.func.attr == 'execute']
    yr = [c for c in calls_in(fi.node) if call_name(c) == 'self._yield_results']
    n = 0
    for c in ex + yr:
        recv = c.func.value if c in ex else (c.args[0] if c.args else None)
        n += 1
        ok = False
        why = 'the cursor is not a fresh local of this call'
        if isinstance(recv, ast.Name):
            d = single_def_value(fi.node, recv.id)
            ok = isinstance(d, ast.Call) and call_name(d) == 'self._conn.cursor'
            why = f'{recv.id} = self._conn.cursor() created for this query' if ok else why
        elif recv is not None:
            why = f'`{norm(recv)}` lives on the Database object and is shared by every query issued through it'
        ctx.ob('C14-R8', fi, f'query runs on cursor `{norm(recv) if recv is not None else "?"}`', ok, why, line=c.lineno)
    ctx.floor('C14-R8', n, 2, 'cursor uses in Database.__call__')
    r = [st for st in walk_no_nested(fi.node) if isinstance(st, ast.Assign) and isinstance(st.targets[0], ast.Tuple)
         and [norm(e) for e in st.targets[0].elts] == ['sql', 'params']]
    ok = len(r) == 1 and norm(r[0].value) == 'query.to_sql()'
    ctx.ob('C14-R8', fi, 'SQL and parameters come from one to_sql() call', ok, 'sql, params = query.to_sql()' if ok else
           'SQL text and parameters are not taken from the same to_sql() call', nontrivial=False)
    yf = dbm.func('Database._yield_results')
    src = ' '.join(norm(s_) for s_ in yf.node.body)
    ok = 'for row in cur.execute(sql, params)' in src and 'yield result_type.from_row(row)' in src
    ctx.ob('C14-R8', yf, 'every row is converted by the query\'s own result type', ok, 'result_type.from_row(row)' if ok else 'row conversion changed', nontrivial=False)


def rule_criteria_values(ctx):
    """R7: the numbers a caller puts into a bounding box are the numbers compared in SQL: BoundingBox is a plain
    value (no method rewrites its fields) and _bounding_box_condition passes the four bounds as they are."""
    fm = ctx.prog.module(F)
    bb = fm.cls('BoundingBox')
    fields = set(bb.annotated_fields())
    ctx.floor('C14-R7', len(fields), 4, 'BoundingBox fields')
    n = 0
    for meth in bb.methods.values():
        for t, st, how in stores_to(meth.node):
            if isinstance(t, ast.Attribute) and norm(t.value) == 'self' and t.attr in fields:
                n += 1
                ctx.ob('C14-R7', meth, f'{norm(st)[:60]}', False,
                       (f'BoundingBox.{t.attr} is rewritten after construction: the box that is compared in SQL is not the box '
                        'the caller asked for (wrapping an eastern edge of 180° to −180° makes `longitude <= ?` match nothing)'),
                       line=st.lineno)
    ctx.ob('C14-R7', (fm.relpath, 'BoundingBox'), f'{n} method(s) rewrite the bounds', n == 0,
           'the bounds are stored as given' if n == 0 else 'see above', nontrivial=False)
    bc = fm.func('Filter._bounding_box_condition')
    uses = [x for x in ast.walk(bc.node) if isinstance(x, ast.Attribute) and x.attr in fields]
    ctx.floor('C14-R7/uses', len(uses), 4, 'bounds used by _bounding_box_condition')
    for u in uses:
        p = getattr(u, '_parent', None)
        ok = isinstance(p, (ast.List, ast.Tuple))
        ctx.ob('C14-R7', bc, f'bound {norm(u)} passed as a parameter unchanged', ok,
               'element of the parameter list' if ok else f'the bound enters an expression (`{norm(p)[:50]}`) before being compared',
               line=u.lineno, nontrivial=False)


def run(ctx):
    rule_criteria_values(ctx)
    rule_cursor(ctx)
    rule_is_set(ctx)
    rule_pure(ctx)
    rule_unpack(ctx)
    rule_placeholders(ctx)
    rule_columns(ctx)
    ctx.assumptions += ['SQL semantics / SQLite planner are trusted; the rules decide the text/parameter construction only']
