"""C05 — gridded pieces land in the cells the path actually crosses.

The core of C05 — which latitude/longitude cell a piece is attributed to, path
order, and that shares equal length shares — is searchsorted / midpoint
arithmetic over real coordinates.  No sound static argument in reach bounds
it; it is NOT decided.  Only these sub-clauses are visible in code shape:

R1  starting-point attribution: per-segment altitude and time cell indices are
    the per-point indices with the *last* point dropped ([:-1]); state
    variables likewise; at the antimeridian split, on every path to a return,
    latitude / altitude / time / each state variable are the way-points on that
    side of element k plus ONE inserted point whose value is a plain copy of
    element k (the crossing segment's start) — an inserted value computed any
    other way (element k+1, an interpolation, ...) is reported as such — and the
    inserted longitude is ±π on the side the path is on (decided by evaluating
    it for both crossing signs).
R2  matching lengths: cell, altitude, time, state and integrated outputs are
    all expanded by the one count vector (shared with C04-R3); flattened
    lat/lon cell indices are masked by their own NaN masks; the four arrays of
    the horizontal intersection are received under names of the same axis and
    kind through whatever container carries them (nested tuples, records read
    by position or field).
R3  part-suffix agreement (T-ROLE): every first-/second-part quantity is
    computed from inputs of its own part, each output is looked up with its own
    index array (altitude indices index the altitude grid, ...), and halves are
    concatenated first-then-second.
R8  every cell index is `np.searchsorted(<own axis>, coordinates) − 1`, directly
    or through one helper that passes axis and coordinates on unaltered; no
    spacing arithmetic anywhere in the module.
R9  the public entry points pass way-points, times, altitudes and variables to
    the gridding as received (no rebinding on the way).
R4  the same searchsorted-minus-one cell rule is used for the per-point and the
    per-segment index helpers, on the matching grid axis.
R6  the latitude and longitude halves of the horizontal intersection are mirror
    images of each other, up to a consistent one-to-one renaming of temporaries
    (whose own statements must then mirror each other too).
"""

from __future__ import annotations

import ast
import re

from ..algebra import AlgebraError, normal_form, poly_equal
from ..astutil import call_name, calls_in, eval_pred, names_in, norm, single_def_value, stores_to, walk_no_nested
from .c04 import (SPLITS, SeqView, Undecided, _ix, _ph, closed, elem_form, index_param, marker, ret_elts, rule_suffix,
                  show_parts)

GRID = 'gridding/grid.py'
SHARE_FN = 'Gridder._cell_idxs_touched_by_trajectory_with_state_and_integrated_vars'
AXES = ('lat', 'lon', 'altitude', 'time')


def axis_of(name: str) -> str | None:
    t = re.split(r'[_\W]+', name.lower())
    hits = []
    for a, words in (('lat', ('lat', 'lats', 'latitude', 'latitudes')), ('lon', ('lon', 'lons', 'longitude', 'longitudes')),
                     ('altitude', ('altitude', 'altitudes')), ('time', ('time', 'times'))):
        if any(w in t for w in words):
            hits.append(a)
    return hits[0] if len(hits) == 1 else None


LOOKUPS = [
    # (function, target local or None for the return value, axis attribute)
    ('Gridder._trajectory_intersection_points_and_cells_horizontal', 'lat_grid_indices', 'self.grid_latitudes'),
    ('Gridder._trajectory_intersection_points_and_cells_horizontal', 'lon_grid_indices', 'self.grid_longitudes'),
    ('Gridder._trajectory_intersection_points_and_cells_horizontal', 'midpoint_lat_indices', 'self.grid_latitudes'),
    ('Gridder._trajectory_intersection_points_and_cells_horizontal', 'midpoint_lon_indices', 'self.grid_longitudes'),
    ('Gridder._trajectory_time_grid_indices', None, 'self.grid_times'),
    ('Gridder._trajectory_altitude_grid_indices', None, 'self.grid_altitudes'),
    ('Gridder._trajectory_segment_time_grid_indices', None, 'self.grid_times'),
    ('Gridder._trajectory_segment_altitude_grid_indices', None, 'self.grid_altitudes'),
    ('Gridder._polygon_touched_cells', 'min_lat_idx', 'self.grid_latitudes'),
    ('Gridder._polygon_touched_cells', 'max_lat_idx', 'self.grid_latitudes'),
    ('Gridder._polygon_touched_cells', 'min_lon_idx', 'self.grid_longitudes'),
    ('Gridder._polygon_touched_cells', 'max_lon_idx', 'self.grid_longitudes'),
]


def _strip_index_wrappers(e):
    """peel `.astype(int)`, `[:-1]`, and `- 1`; returns (core, number of `- 1` peeled) or (None, 0)"""
    minus = 0
    for _ in range(6):
        if isinstance(e, ast.Call) and isinstance(e.func, ast.Attribute) and e.func.attr == 'astype' and len(e.args) == 1 \
                and norm(e.args[0]) in ('int', 'np.int64', 'np.intp'):
            e = e.func.value
        elif isinstance(e, ast.Subscript) and isinstance(e.slice, ast.Slice):
            e = e.value
        elif isinstance(e, ast.BinOp) and isinstance(e.op, ast.Sub) and norm(e.right) == '1':
            e, minus = e.left, minus + 1
        else:
            break
    return e, minus


def rule_lookup(ctx, m, rule):
    """Every cell index is obtained by searching the grid axis itself: `np.searchsorted(axis, coordinates) − 1`
    (left side) on the axis of the index's own role, with the coordinates as given.  That is the only form that is
    right for every monotone axis; index arithmetic from a spacing, a cast of the coordinates, or another side
    changes the cell of some point on some grid."""
    from ..resolve import resolve_call
    prog = ctx.prog
    n = 0
    for fq, target, axis in LOOKUPS:
        fi = m.func(fq)
        if target is None:
            vals = [r.value for r in walk_no_nested(fi.node) if isinstance(r, ast.Return) and r.value is not None]
        else:
            vals = [st.value for t, st, how in stores_to(fi.node) if isinstance(t, ast.Name) and t.id == target
                    and how == 'assign' and not (isinstance(st.value, ast.Call) and call_name(st.value) == 'np.where')]
        if not vals:
            ctx.undecided(rule, fi, target or 'return', 'cell look-up not found')
        for v in vals:
            n += 1
            core, minus = _strip_index_wrappers(v)
            why = None
            if isinstance(core, ast.Call) and call_name(core) == 'np.searchsorted':
                call, sub = core, None
            elif isinstance(core, ast.Call) and resolve_call(prog, fi, core) is not None:
                # one level of helper: its return must be the same form over its own first two parameters, unaltered
                h = resolve_call(prog, fi, core)
                rets = [r.value for r in walk_no_nested(h.node) if isinstance(r, ast.Return) and r.value is not None]
                ps = [p for p in h.params if p not in ('self', 'cls')]
                call, sub = None, h
                if len(rets) == 1 and len(ps) >= 2:
                    hc, hm = _strip_index_wrappers(rets[0])
                    minus += hm
                    rebinds = [norm(st) for t, st, how in stores_to(h.node) if isinstance(t, ast.Name) and t.id in ps[:2]]
                    if isinstance(hc, ast.Call) and call_name(hc) == 'np.searchsorted' and len(hc.args) >= 2 \
                            and [norm(a) for a in hc.args[:2]] == ps[:2] and not rebinds:
                        call = ast.Call(func=hc.func, args=list(core.args[:2]), keywords=hc.keywords)
                    elif rebinds:
                        why = (f'{h.name} alters what it searches for before searching (`{rebinds[0][:60]}`): a value just above a '
                               'grid line can land on or below it and is attributed to the cell below')
                if call is None and why is None:
                    why = (f'{h.name}(…) does not search the axis: `{norm(rets[0])[:70] if rets else "?"}` is index arithmetic that '
                           'is only right for one kind of axis (evenly spaced), so on other grids the start/end cells are wrong, '
                           'intersection points are generated for grid lines the segment never reaches and shares no longer sum to 1')
            else:
                call = None
                why = (f'`{norm(v)[:70]}` is not a search of the grid axis: index arithmetic is only right for evenly spaced axes')
            if call is not None:
                side = next((k.value for k in call.keywords if k.arg == 'side'), None)
                okc = len(call.args) >= 2 and norm(call.args[0]) == axis and minus == 1 and \
                    (side is None or (isinstance(side, ast.Constant) and side.value == 'left')) and \
                    not any(k.arg == 'sorter' for k in call.keywords)
                if not okc:
                    why = (f'look-up is `{norm(v)[:70]}`: expected searchsorted({axis}, coordinates) − 1 on the left side '
                           f'(axis {norm(call.args[0]) if call.args else "?"}, {minus} × “− 1”)')
            ok = why is None
            ctx.ob(rule, fi, f'{target or "return"} = {norm(v)[:60]}', ok,
                   f'searchsorted({axis}, coordinates) − 1' if ok else why, line=v.lineno)
    ctx.floor(rule + '/lookups', n, 12, 'cell look-ups')
    # no spacing arithmetic anywhere in the gridding module (zero expected; positive control embedded)
    def spacing(x):
        return isinstance(x, ast.BinOp) and isinstance(x.op, ast.Sub) and isinstance(x.left, ast.Subscript) \
            and isinstance(x.right, ast.Subscript) and norm(x.left.value) == norm(x.right.value) \
            and isinstance(x.left.slice, ast.Constant) and isinstance(x.right.slice, ast.Constant)
    ctx.control(rule, spacing(ast.parse('axis[1] - axis[0]').body[0].value), 'embedded `axis[1] - axis[0]` is recognised as a spacing')
    for fi in m.functions.values():
        for x in ast.walk(fi.node):
            if spacing(x):
                ctx.ob(rule, fi, f'spacing `{norm(x)}`', False,
                       'a single spacing is taken from two elements of an axis: whatever is computed from it assumes an evenly '
                       'spaced axis, which the gridder does not require', line=x.lineno)


def _root(e):
    while isinstance(e, (ast.Subscript, ast.Attribute, ast.Starred)):
        e = e.value
    return e.id if isinstance(e, ast.Name) else None


def _kind_of(name: str) -> str:
    t = re.split(r'[_\W]+', name.lower())
    return 'cell index' if any(w in t for w in ('indices', 'index', 'idx', 'idxs', 'cells', 'cell')) else 'coordinate'


def _produced_leaves(prog, fi, e, at_fn, path=(), depth=0):
    """leaves of a returned structure: {access path: local name}; a path step is (position, field name or None)"""
    from ..resolve import resolve_class_call
    if depth > 6:
        return None
    if isinstance(e, ast.Name):
        d = single_def_value(at_fn, e.id)
        if isinstance(d, (ast.Tuple, ast.Call)) and (isinstance(d, ast.Tuple) or resolve_class_call(prog, fi, d) is not None):
            return _produced_leaves(prog, fi, d, at_fn, path, depth + 1)
        return {path: e.id}
    if isinstance(e, ast.Tuple):
        out = {}
        for i, x in enumerate(e.elts):
            sub = _produced_leaves(prog, fi, x, at_fn, path + ((i, None),), depth + 1)
            if sub is None:
                return None
            out.update(sub)
        return out
    if isinstance(e, ast.Call):
        ci = resolve_class_call(prog, fi, e)
        if ci is None or any(isinstance(a, ast.Starred) for a in e.args) or any(k.arg is None for k in e.keywords):
            return None
        fields = list(ci.annotated_fields())
        got = dict(zip(fields, e.args))
        got.update({k.arg: k.value for k in e.keywords})
        out = {}
        for i, f in enumerate(fields):
            if f not in got:
                return None
            sub = _produced_leaves(prog, fi, got[f], at_fn, path + ((i, f),), depth + 1)
            if sub is None:
                return None
            out.update(sub)
        return out
    return None


def _consumed_leaves(fn_node, target, path=(), depth=0):
    """leaves of the receiving side: [(access path, local name)]; a step is a position (int) or a field name (str).
    A received name that is only taken apart again (`x = name.field`, `x = name[0]`, `a, b = name`) is followed."""
    if isinstance(target, (ast.Tuple, ast.List)):
        out = []
        for i, t in enumerate(target.elts):
            sub = _consumed_leaves(fn_node, t, path + (i,), depth + 1)
            if sub is None:
                return None
            out += sub
        return out
    if not isinstance(target, ast.Name) or depth > 6:
        return None
    out = []
    seen = set()
    for t, st, how in stores_to(fn_node):
        v = getattr(st, 'value', None)
        if how != 'assign' or v is None or len(st.targets) != 1 or id(st) in seen:
            continue
        seen.add(id(st))
        if isinstance(v, ast.Attribute) and isinstance(v.value, ast.Name) and v.value.id == target.id:
            sub = _consumed_leaves(fn_node, st.targets[0], path + (v.attr,), depth + 1)
        elif isinstance(v, ast.Subscript) and isinstance(v.value, ast.Name) and v.value.id == target.id \
                and isinstance(v.slice, ast.Constant) and isinstance(v.slice.value, int):
            sub = _consumed_leaves(fn_node, st.targets[0], path + (v.slice.value,), depth + 1)
        elif isinstance(v, ast.Name) and v.id == target.id and isinstance(st.targets[0], (ast.Tuple, ast.List)):
            sub = _consumed_leaves(fn_node, st.targets[0], path, depth + 1)
        else:
            continue
        if sub is None:
            return None
        out += sub
    return out or [(path, target.id)]


def rule_result_roles(ctx, m, fn):
    """The four arrays the horizontal intersection returns (point latitudes / longitudes, cell latitude / longitude
    indices) are received under names of the same axis and kind, whatever the container (nested tuples, records read
    by position or by field)."""
    from ..resolve import resolve_call
    prog = ctx.prog
    hz = m.func('Gridder._trajectory_intersection_points_and_cells_horizontal')
    rets = [r for r in walk_no_nested(hz.node) if isinstance(r, ast.Return) and r.value is not None]
    unp = next((st for t, st, how in stores_to(fn.node) if isinstance(st, ast.Assign) and isinstance(st.value, ast.Call)
                and (lambda c: c is not None and c.node is hz.node)(resolve_call(prog, fn, st.value))), None)
    if unp is None or len(rets) != 1 or len(unp.targets) != 1:
        ctx.undecided('C05-R2', fn, 'intersection result', 'call of the horizontal intersection / its single return not found')
    ok = [norm(a) for a in unp.value.args] == ['lats', 'lons'] and not unp.value.keywords
    ctx.ob('C05-R2', fn, 'horizontal intersection called with (lats, lons)', ok, 'way-points as received' if ok else
           'latitudes / longitudes are passed to the intersection in the wrong order', line=unp.lineno)
    produced = _produced_leaves(prog, hz, rets[0].value, hz.node)
    consumed = _consumed_leaves(fn.node, unp.targets[0])
    if produced is None or consumed is None:
        ctx.undecided('C05-R2', fn, 'intersection result', 'returned / received structure is not tuples or records of names')
    n = 0
    for path, name in consumed:
        cands = [nm for pp, nm in produced.items() if len(pp) == len(path)
                 and all(step == (i if isinstance(step, int) else f) for step, (i, f) in zip(path, pp))]
        if len(cands) != 1:
            ctx.undecided('C05-R2', fn, f'intersection result → {name}', f'access path {path} does not name one returned array')
        n += 1
        got, want = (axis_of(name), _kind_of(name)), (axis_of(cands[0]), _kind_of(cands[0]))
        ok = got == want and got[0] is not None
        ctx.ob('C05-R2', fn, f'intersection result {"".join(f"[{p}]" if isinstance(p, int) else "." + p for p in path)} → {name}', ok,
               f'{want[0]} {want[1]} array received as such' if ok else
               f'the {want[0]} {want[1]} array `{cands[0]}` of the intersection result is received as `{name}` '
               f'({got[0]} {got[1]}): latitude/longitude (or coordinate/index) arrays are swapped', line=unp.lineno)
    ctx.floor('C05-R2/result', n, 4, 'arrays received from the horizontal intersection')


POINT_ROLES = ('lats', 'altitudes', 'times', 'state_variables')
PI_ATOMS = ('np.pi', 'numpy.pi', 'math.pi', 'pi')


def _role_sequences(view, x, at):
    """(role, base, alternatives) of one returned component: role is the array parameter (or tuple-of-arrays
    parameter) it is built from"""
    try:
        alts = view.seq(x, at)
        bases = {p[1] for parts in alts for p in parts if p[0] in ('slice', 'whole')}
        if not alts:
            return None, None, []
        if len(bases) == 1 and next(iter(bases)) in view.params:
            b = next(iter(bases))
            return b, b, alts
        raise Undecided(f'`{norm(x)[:60]}` mixes {sorted(bases)}')
    except Undecided as first:
        try:
            calts = view.coll(x, at)
        except Undecided:
            raise first
        out, role, base = [], None, None
        for a in calts:
            if a[0] == 'empty':
                continue
            _, src, var, expr, at2, bound = a
            if role not in (None, src):
                raise Undecided(f'`{norm(x)[:60]}` is built from {role} and {src}')
            role, base = src, var
            out += view.seq(expr, at2, bound)
        return role, base, out


def _antimeridian_side(view, part):
    """sign of π of the inserted longitude for crossing sign -1 and +1: {-1: ±1, 1: ±1}"""
    _, x, at, bound = part
    e = closed(view, x, at, bound)
    ps = sorted(n for n in names_in(e) if n in view.params)
    if len(ps) != 1:
        raise Undecided(f'inserted longitude `{norm(e)[:60]}` depends on {ps} (expected the crossing sign only)')

    def pick(x_, val):
        if isinstance(x_, ast.IfExp):
            try:
                return pick(x_.body if eval_pred(x_.test, {ps[0]: val}) else x_.orelse, val)
            except ValueError as ex:
                raise Undecided(f'condition `{norm(x_.test)[:50]}`: {ex}')
        return x_
    out = {}
    for val in (-1, 1):
        try:
            r = normal_form(pick(e, val), {}, {ps[0]: val})
        except AlgebraError as ex:
            raise Undecided(f'inserted longitude `{norm(e)[:60]}`: {ex}')
        sign = None
        for pi in PI_ATOMS:
            for sg in (1, -1):
                want = ast.Name(id=pi, ctx=ast.Load()) if '.' not in pi else ast.parse(pi, mode='eval').body
                if poly_equal(r, normal_form(ast.UnaryOp(op=ast.USub(), operand=want) if sg < 0 else want, {})):
                    sign = sg
        out[val] = sign
    return out, norm(e)


def rule_split_points(ctx, m):
    """Every path through a split function returns, for latitude / altitude / time / each state variable, the way-points
    on its side of the crossing plus ONE inserted point that is a plain copy of the crossing segment's starting
    element k; the inserted longitude is ±π on the side the path is on."""
    for part, qn in SPLITS:
        sp = m.func(qn)
        view = SeqView(sp, ctx.prog)
        n = 0
        for ri, r in enumerate(view.returns()):
            tag = f'{part} part, return #{ri + 1}'
            for x, at in ret_elts(view, r):
                role, base, alts = _role_sequences(view, x, at)
                if role not in POINT_ROLES + ('lons',):
                    continue
                for parts in alts:
                    desc = show_parts(parts)
                    elems = [p for p in parts if p[0] == 'elem']
                    rest = [p for p in parts if p[0] != 'elem']
                    if len(elems) != 1:
                        ctx.ob('C05-R1', sp, f'{tag}: {role} has one inserted antimeridian point in {desc}', False,
                               (f'on the path that returns at line {r.lineno} the {part} part\'s {role} are `{desc}` without a point on '
                                'the antimeridian: the leg of the crossing segment on this side is not gridded (its cells receive nothing)')
                               if not elems else f'`{desc}` inserts {len(elems)} points', line=r.lineno)
                        continue
                    katoms = index_param(view, [(rest, base)] + ([(elems, base)] if role != 'lons' else []))
                    if len(katoms) != 1 or not katoms <= set(sp.params):
                        ctx.undecided('C05-R1', sp, tag, f'`{desc}` is not cut at one index parameter ({sorted(map(str, katoms))})')
                    k = next(iter(katoms))
                    if part == 'first':
                        okk = len(rest) == 1 and rest[0][0] == 'slice' and rest[0][2] in (None, (None, 0)) and rest[0][3] == (k, 1) \
                            and parts[-1][0] == 'elem'
                    else:
                        okk = len(rest) == 1 and rest[0][0] == 'slice' and rest[0][2] == (k, 1) and rest[0][3] is None \
                            and parts[0][0] == 'elem'
                    ctx.ob('C05-R1', sp, f'{tag}: {role} keeps points {show_parts(rest)}', okk,
                           'points up to (from) the crossing, the inserted point at the antimeridian end' if okk else
                           f'`{desc}`: the retained point range of the split changed (expected the points up to / from element {k} + 1 '
                           'with the inserted point at the crossing end)', line=r.lineno, nontrivial=not okk)
                    if role == 'lons':
                        side, shown = _antimeridian_side(view, elems[0])
                        want = {-1: 1, 1: -1} if part == 'first' else {-1: -1, 1: 1}
                        ok = side == want
                        ctx.ob('C05-R1', sp, f'{tag}: meets the antimeridian at {shown[:60]}', ok,
                               'the side of ±π the path is on' if ok else
                               'the inserted longitude is on the wrong side of the antimeridian', line=getattr(elems[0][1], 'lineno', r.lineno))
                        continue
                    f, marks, _, shown = elem_form(view, elems[0], base)
                    n += 1
                    ph = _ph(k, 0)
                    ok = poly_equal(f, normal_form(ast.Name(id=ph, ctx=ast.Load()), {}))
                    if ok:
                        why = 'the crossing segment\'s starting point'
                    else:
                        single = next((mk for mk in marks if poly_equal(f, normal_form(ast.Name(id=mk, ctx=ast.Load()), {}))), None)
                        if single is not None:
                            why = (f'the inserted antimeridian point copies {base}[{_ix(marks[single])}], a point other than the crossing '
                                   f'segment\'s start {base}[{k}]')
                        else:
                            why = (f'the inserted antimeridian point\'s value is `{shown[:90]}`, not a copy of the crossing segment\'s '
                                   f'starting element {base}[{k}]: the pieces of that segment on this side of the antimeridian are '
                                   'reported with the altitude / time cell (state value) of a different point than the segment\'s start')
                    ctx.ob('C05-R1', sp, f'{tag}: inserted point takes {role}[{k}]', ok, why, line=getattr(elems[0][1], 'lineno', r.lineno))
        ctx.floor(f'C05-R1/{part}', n, 4, f'inserted-point values in the {part} split (latitude, altitude, time, state)')


def run(ctx):
    prog = ctx.prog
    m = prog.module(GRID)
    fn = m.func(SHARE_FN)

    # ---- R4 / R1: index helpers ----------------------------------------------
    helpers = {
        'Gridder._trajectory_time_grid_indices': ('self.grid_times', 'times', False),
        'Gridder._trajectory_altitude_grid_indices': ('self.grid_altitudes', 'altitudes', False),
        'Gridder._trajectory_segment_time_grid_indices': ('self.grid_times', 'times', True),
        'Gridder._trajectory_segment_altitude_grid_indices': ('self.grid_altitudes', 'altitudes', True),
    }
    for qn, (grid, arg, seg) in helpers.items():
        h = m.func(qn)
        r = [n for n in walk_no_nested(h.node) if isinstance(n, ast.Return)]
        if len(r) != 1:
            ctx.undecided('C05-R4', h, 'return', 'not a single-return helper')
        v = r[0].value
        txt = norm(v)
        base = f'(np.searchsorted({grid}, {arg}) - 1)'
        ok_rule = base in txt
        ctx.ob('C05-R4', h, f'cell index = searchsorted({grid}, {arg}) − 1', ok_rule,
               'index of the grid value at or below the coordinate' if ok_rule else
               f'cell rule changed or applied to the wrong grid axis: {txt[:70]}', line=v.lineno)
        if seg:
            ok = txt.endswith('[:-1]')
            ctx.ob('C05-R1', h, f'per-segment index = per-point index{txt[len(base):] if ok_rule else ""}', ok,
                   'the last point is dropped: each segment takes the cell of its starting point' if ok else
                   ('each segment takes the altitude/time cell of a point other than its start '
                    f'(`{txt[-12:]}`): pieces are attributed to the wrong level / time bin'), line=v.lineno)
    # ---- R1: state variables and the calls ---------------------------------------
    sv = single_def_value(fn.node, 'state_variable_values')
    ok = sv is not None and 'np.repeat(variable[:-1], count_subsegments)' in norm(sv)
    ctx.ob('C05-R1', fn, 'state values of the segment start repeated per piece', ok,
           'variable[:-1]' if ok else 'state variables are not taken from the segment\'s starting point',
           line=(sv.lineno if sv is not None else fn.node.lineno))
    for var, helper, arg in (('segment_altitude_indices', 'self._trajectory_segment_altitude_grid_indices', 'altitudes'),
                             ('segment_time_indices', 'self._trajectory_segment_time_grid_indices', 'times')):
        d = single_def_value(fn.node, var)
        ok = isinstance(d, ast.Call) and call_name(d) == helper and [norm(a) for a in d.args] == [arg]
        ctx.ob('C05-R1', fn, f'{var} = {norm(d) if d is not None else "?"}', ok,
               'per-segment helper on the matching coordinate' if ok else
               'altitude/time cells come from the wrong helper or coordinate', line=(d.lineno if d is not None else fn.node.lineno))
    # ---- R2: expansion with the one count vector -----------------------------------
    reps = {}
    for t, st, how in stores_to(fn.node):
        v = getattr(st, 'value', None)
        if isinstance(t, ast.Name) and isinstance(v, ast.Call) and call_name(v) == 'np.repeat':
            reps[t.id] = v
    for out, src in (('touched_cells_altitude_indices', 'segment_altitude_indices'),
                     ('touched_cells_time_indices', 'segment_time_indices')):
        v = reps.get(out)
        ok = v is not None and [norm(a) for a in v.args] == [src, 'count_subsegments']
        ctx.ob('C05-R2', fn, f'{out} = {norm(v) if v is not None else "?"}', ok,
               'own per-segment indices expanded by the shared count vector' if ok else
               f'{out} is expanded from the wrong array or count vector', line=(v.lineno if v is not None else fn.node.lineno))
    for out, src in (('touched_cells_lat_indices', 'all_subsegment_lat_indices'), ('touched_cells_lon_indices', 'all_subsegment_lon_indices')):
        d = single_def_value(fn.node, out)
        ok = d is not None and norm(d) == f'{src}[~np.isnan({src})].flatten().astype(int)'
        ctx.ob('C05-R2', fn, f'{out} from {src} masked by its own NaN mask', ok, norm(d)[:80] if ok else
               f'{out} is masked/flattened from a different array: cell rows and columns no longer pair up',
               line=(d.lineno if d is not None else fn.node.lineno))
    cnt = single_def_value(fn.node, 'count_subsegments')
    ok = cnt is not None and norm(cnt) == 'np.count_nonzero(~np.isnan(all_subsegment_lat_indices), axis=1)'
    ctx.ob('C05-R2', fn, 'count vector = touched cells per segment', ok, norm(cnt) if ok else 'count vector changed')
    ret = [n for n in walk_no_nested(fn.node) if isinstance(n, ast.Return)]
    want = ['touched_cells_lat_indices', 'touched_cells_lon_indices', 'touched_cells_altitude_indices',
            'touched_cells_time_indices', 'state_variable_values', 'integrated_variable_values']
    ok = len(ret) == 1 and isinstance(ret[0].value, ast.Tuple) and [norm(e) for e in ret[0].value.elts] == want
    ctx.ob('C05-R2', fn, 'outputs returned in the documented order', ok, 'lat, lon, altitude, time, state, integrated' if ok else
           'the output tuple order changed: callers read the wrong arrays')
    rule_result_roles(ctx, m, fn)

    # ---- R1: split repeats element i -------------------------------------------------
    try:
        rule_split_points(ctx, m)
    except Undecided as e:
        ctx.undecided('C05-R1', (GRID, 'Gridder._dateline_split_*'), 'antimeridian split', str(e))

    # ---- R5: direction signs come from the coordinates themselves ------------------------
    hz = m.func('Gridder._trajectory_intersection_points_and_cells_horizontal')
    for ax, coord in (('lat', 'lats'), ('lon', 'lons')):
        d = single_def_value(hz.node, f'{ax}_change_signs')
        ok = d is not None and norm(d) == f'np.sign(np.diff({coord}))'
        ctx.ob('C05-R5', hz, f'{ax}_change_signs = {norm(d) if d is not None else "?"}', ok,
               'direction of travel along this axis, from the coordinates' if ok else
               ('the ordering direction is not the sign of the coordinate difference: a leg that stays inside one '
                f'{ax} band (index change 0) still has a direction, and its intersection points get mis-ordered'),
               line=(d.lineno if d is not None else hz.node.lineno))
    # ---- R6: mirrored lat/lon statements agree (sibling cross-check) ------------------------
    swap = {'lat': 'lon', 'lats': 'lons', 'latitude': 'longitude', 'latitudes': 'longitudes'}
    swap.update({v: k for k, v in list(swap.items())})

    def mirror(txt: str) -> str:
        return re.sub(r'[A-Za-z]+', lambda mo: swap.get(mo.group(0), mo.group(0)), txt)

    hz_locals = {x.id for x in ast.walk(hz.node) if isinstance(x, ast.Name) and isinstance(x.ctx, ast.Store)}
    ren: dict[str, str] = {}

    def mirror_eq(a_txt: str, b_txt: str) -> bool:
        """b is the lat↔lon mirror image of a, up to a consistent one-to-one renaming of temporaries"""
        ta = re.findall(r'[A-Za-z_]\w*|\S', mirror(a_txt))
        tb = re.findall(r'[A-Za-z_]\w*|\S', b_txt)
        if len(ta) != len(tb):
            return False
        trial = dict(ren)
        for x, y in zip(ta, tb):
            if x == y and trial.get(x, x) == x:
                continue
            if x in hz_locals and y in hz_locals and trial.get(x, y) == y and \
                    all(v != y or k == x for k, v in trial.items()):
                trial[x] = y
                continue
            return False
        ren.update(trial)
        return True

    def rooted(name):
        """top-level statements that bind or alter local `name`, in order"""
        out = []
        for st in hz.node.body:
            if isinstance(st, ast.Assign) and len(st.targets) == 1 and _root(st.targets[0]) == name:
                out.append(st)
            elif isinstance(st, ast.AugAssign) and _root(st.target) == name:
                out.append(st)
            elif isinstance(st, ast.Expr) and isinstance(st.value, ast.Call) and isinstance(st.value.func, ast.Attribute) \
                    and _root(st.value.func.value) == name:
                out.append(st)
        return out

    tops = {}
    for st in hz.node.body:
        if isinstance(st, ast.Assign) and len(st.targets) == 1:
            tops.setdefault(norm(st.targets[0]), []).append(st)
    npairs = 0
    for tgt, sts in sorted(tops.items()):
        mt = mirror(tgt)
        if mt == tgt or mt not in tops or tgt > mt:
            continue
        a, b = tops[tgt], tops[mt]
        npairs += 1
        bad = next(((x, y) for x, y in zip(a, b) if not mirror_eq(norm(x.value), norm(y.value))), None)
        ok = len(a) == len(b) and bad is None
        ctx.ob('C05-R6', hz, f'{tgt} ↔ {mt}', ok, 'latitude and longitude halves are mirror images' if ok else
               (f'latitude and longitude are treated differently: `{norm(bad[0].value)[:60]}` vs '
                f'`{norm(bad[1].value)[:60]}`' if bad else 'one axis has more definitions than the other'),
               line=(bad[1].lineno if bad else sts[0].lineno))
    # temporaries that stand for each other in the two halves must themselves be built and altered as mirror images
    done = set()
    for _ in range(8):
        todo = [(x, y) for x, y in ren.items() if x != y and (x, y) not in done]
        if not todo:
            break
        for x, y in todo:
            done.add((x, y))
            a, b = rooted(x), rooted(y)
            bad = next(((p, q) for p, q in zip(a, b) if not mirror_eq(norm(p), norm(q))), None)
            ok = len(a) == len(b) and bad is None
            ctx.ob('C05-R6', hz, f'temporary {x} ↔ {y}', ok, 'built and altered as mirror images' if ok else
                   (f'latitude and longitude are treated differently: `{norm(bad[0])[:60]}` vs `{norm(bad[1])[:60]}`'
                    if bad else 'one axis has more statements on its temporary than the other'),
                   line=(bad[1].lineno if bad else (b[0].lineno if b else hz.node.lineno)))
    ctx.floor('C05-R6', npairs, 12, 'mirrored lat/lon statement pairs')

    # ---- R7: guarded divisions are guarded exactly on their denominator ------------------
    ndiv = 0
    for fi in m.functions.values():
        for c in calls_in(fi.node):
            if call_name(c) in ('np.divide', 'numpy.divide') and len(c.args) >= 2:
                w = next((k.value for k in c.keywords if k.arg == 'where'), None)
                if w is None:
                    continue
                ndiv += 1
                den = norm(c.args[1])
                wd = w
                if isinstance(wd, ast.Name):
                    d_ = single_def_value(fi.node, wd.id)
                    wd = d_ if d_ is not None else wd
                ok = isinstance(wd, ast.Compare) and len(wd.ops) == 1 and (
                    (isinstance(wd.ops[0], ast.NotEq) and norm(wd.left) == den and norm(wd.comparators[0]) in ('0', '0.0')) or
                    (isinstance(wd.ops[0], ast.Gt) and norm(wd.left) in (f'np.abs({den})', f'abs({den})') and norm(wd.comparators[0]) in ('0', '0.0')))
                ctx.ob('C05-R7', fi, f'np.divide(…, {den}, where={norm(w)})', ok,
                       'the division is skipped exactly where the denominator is zero' if ok else
                       (f'the guard `{norm(wd)[:60]}` is not the exact test `{den} != 0`: with a tolerance, a segment whose '
                        'coordinate difference is tiny but non-zero is treated as degenerate and its grid-line crossing is '
                        'lost (NaN intersection, output arrays of different lengths)'), line=c.lineno)
    ctx.floor('C05-R7', ndiv, 2, 'guarded divisions in grid.py')

    # ---- R3: suffix + axis agreement ------------------------------------------------------
    rule_suffix(ctx, m, rule='C05-R3')
    cs = m.func('Gridder._cell_idxs_and_variables_for_dateline_split_trajectory')
    nax = 0
    for f2 in (cs, m.func('Gridder._grid_trajectory_without_dateline_crossing')):
        for t, st, how in stores_to(f2.node):
            v = getattr(st, 'value', None)
            if not isinstance(t, ast.Name) or v is None:
                continue
            for x in ast.walk(v):
                if isinstance(x, ast.Subscript) and norm(x.value).startswith('self.grid_') and isinstance(x.slice, ast.Name):
                    ga, ia, ta = axis_of(norm(x.value)), axis_of(x.slice.id), axis_of(t.id)
                    nax += 1
                    ok = ga == ia == ta and ga is not None
                    ctx.ob('C05-R3', f2, f'{t.id} = {norm(x)}', ok, f'{ga} grid indexed by {ga} indices' if ok else
                           f'{ta} output looks up the {ga} grid with {ia} indices', line=x.lineno)
    ctx.floor('C05-R3/axes', nax, 12, 'grid look-ups')
    rule_lookup(ctx, m, 'C05-R8')
    from .c04 import rule_forwarding
    rule_forwarding(ctx, m, 'C05-R9', ('lats', 'lons', 'altitudes', 'times', 'state_variables', 'integrated_variables'),
                    'the cells are then attributed from altered coordinates (a wrap into [-π, π) moves a way-point on 180°E to '
                    '180°W and sends a track that never crosses the antimeridian through the split path)')
    ctx.note('NOT decided: lat/lon cell attribution, path order of pieces, equality of shares with length shares '
             '(grid-line intersection ordering and midpoint look-up are real-valued geometry)')
    ctx.assumptions += ['np.searchsorted(grid, x) − 1 is the index of the last grid value ≤ x (left side)']
