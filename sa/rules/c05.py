"""C05 — gridded pieces land in the cells the path actually crosses.

The core of C05 — which latitude/longitude cell a piece is attributed to, path
order, and that shares equal length shares — is searchsorted / midpoint
arithmetic over real coordinates.  No sound static argument in reach bounds
it; it is NOT decided.  Only these sub-clauses are decided, all on CLOSED
VALUES (c04.Values: locals replaced by their reaching definitions, helpers
opened, tuples / records taken apart, one canonical spelling; for arrays that
are altered in place, STATE VALUES - class States - : the value bound, then
the alterations that reach the use, in order), i.e. on what flows where and
not on how it is written:

R1  starting-point attribution: the altitude / time cells returned by the share
    computation are the per-point look-up of the coordinate as received with
    the LAST point dropped ([:-1]; slicing before or after the search is the
    same), state values are variable[:-1]; `[1:]` (end point) or no reduction is
    reported.  A gather through the piece -> segment index array,
    `A[np.repeat(np.arange(N), C)]`, is read as `np.repeat(A[:N], C)`; on a
    per-point array a slice bound written with the number of segments
    (`len(lats) − 1`) is read as what it keeps: `[:len(lats) − 1]` is `[:-1]`,
    `[-(len(lats) − 1):]` is `[1:]` (end point, reported).  At the antimeridian split, on every path to a return, latitude /
    altitude / time / each state variable are the way-points on that side of
    element k plus ONE inserted point whose value is a plain copy of element k
    (the crossing segment's start) — an inserted value computed any other way
    (element k+1, an interpolation, ...) is reported as such, except for the
    altitude / time / state value of the point that ENDS the first part, which
    starts no segment and is dropped by [:-1] — and the inserted longitude is ±π
    on the side the path is on (decided by evaluating it for both crossing
    signs, through helpers with early returns).
R2  matching lengths: latitude / longitude cells are the intersection's own
    index array of that axis with the NaN padding masked out (a following
    flatten is the identity); altitude, time, state and integrated outputs are
    all repeated by the number of cells per segment (shared with C04-R3); the
    four arrays of the horizontal intersection are received under names of the
    same axis and kind through whatever container carries them (nested tuples,
    records read by position or field); a component that is read in place
    (`cells.lat_indices[mask]`) has no receiving name and is decided on values
    by the first clause.
R3  part agreement by provenance (T-ROLE, c04.rule_suffix): what the
    antimeridian driver returns is closed over the two split calls and the two
    share computations, everything in between opened.  Every array a share
    computation receives is a component of ONE split call's result, in the slot
    of its own role (the role of a component is read from its value: the
    way-points / variable it is cut from); the two share computations take
    their arrays from the two different split functions; every output joins
    the half computed from the first split with the half computed from the
    second, in that order; each output is looked up with its own index array
    (altitude indices index the altitude grid, ...).  No name marker is read.
R4  the altitude / time cell of a segment is searchsorted(<own grid axis>,
    <own coordinate as received>) − 1: wrong axis, cast coordinates, another
    side are reported (value followed through any helpers).  An axis of n grid
    values has n cells (the top cell is open-ended): a look-up clamped from
    above to len(axis) − K, K ≥ 2 (np.clip / .clip / np.minimum) moves points
    at or above the last grid value into a cell below and is reported (also
    in R8); any other clamp is not decided (exit 2).
R5  ordering direction: the rows of intersection coordinates sorted descending
    (every negation step in the state value of the array: negate – sort –
    negate, in place or through a sorted copy, inline or in a helper) are those
    where the way-point coordinate of the same axis decreases, read from the
    coordinates themselves; the axis of an array is the returned coordinate
    array it flows into; the piece end points are the way-points of that axis
    (way-point i … way-point i + 1).  Rows negated before the sort and not
    negated back, a mask that selects the rows where the coordinate INcreases,
    a direction read from cell-index changes are reported.
R6  mirror symmetry on state values: each latitude-side array the horizontal
    intersection returns holds what its longitude-side counterpart holds under
    the exchange σ of the received coordinates (lats <-> lons), the grid axes
    (grid_latitudes <-> grid_longitudes) and the per-axis arrays filled in the
    loops over the crossed grid lines (paired one-to-one as they are met; σ is
    an involution).  Temporaries, helpers, hoisted masks, np.full vs np.empty +
    fill, x.sort() vs np.sort(x), `op=` vs rebinding, `if` steps vs conditional
    expression, + * & | in either order, differently written but equal
    arithmetic (rational normal form), len() of either coordinate, axis=-1 vs 1
    do not matter.  The loop-filled arrays are compared in turn: allocation,
    iteration, positions written always; the values written when they are
    values of ONE axis (the crossing coordinates on the other axis solve
    lon = slope·lat + intercept for one or the other coordinate and are no
    mirror images by nature); skip guards (`if …: continue`, a filtered
    iteration, a write under an `if` on one side) are not compared.  A
    coordinate / axis / per-axis array / loop variable / numeric constant /
    slice that is not the mirror image, a different number of in-place steps
    (also none at all on one side), or a different rational expression of the
    same quantities is a violation; sides written with other functions or
    shapes are exit 2.  A value computed element-wise from BOTH coordinates
    (the crossing coordinate solved from the line equation, wherever it is
    written: in the fill loops or as one vectorised expression) has no mirror
    image and is left to R11.
R7  every guarded division (np.divide(where=) or np.where with the quotient in
    either arm) is guarded exactly on its denominator: the mask, wherever it is
    built, closes to `denominator != 0` or has the same truth table on every
    kind of element (c04.guard_verdict); a tolerance / one-sided test / extra
    test of the numerator (unless the default is zero, where it changes
    nothing) / looser mask is reported.  A division guarded on the FINITENESS
    of its denominator (the slope of a constant-latitude segment) is another
    kind of guard: R11.
R8  look-up provenance: the four index helpers return, and the intersection's
    cell-index arrays are built as [start cell | midpoint cells | end cell] from,
    `np.searchsorted(<grid's own axis of that role>, coordinates) − 1` on the
    left side: the searched axis is the grid's axis directly or through a guard
    helper that returns it, the coordinates are the way-points as received /
    the midpoints of the SAME axis' intersection coordinates with the NaN
    padding restored, the result is searchsorted − 1.  Index arithmetic on the
    grid lines, a cast of the coordinates, a lost NaN restoration are reported.
    Every other np.searchsorted in the module searches an axis of the role of
    what it looks up; no spacing taken from two axis elements on the gridding
    path.
R9  the public entry points pass way-points, times, altitudes and variables to
    the gridding as received (closed value of every forwarded argument is the
    caller's own parameter).
R10 crossing index: the crossing flags are signed (+1 westward, −1 eastward).
    Every position derived from them (slice bounds, element reads, arguments
    passed on) is the position of the first NON-ZERO flag (where / nonzero /
    flatnonzero / argmax of a `!= 0` / abs test); argmax / argmin of the signed
    array and one-sided tests (`> 0`, `== 1`) are reported; the crossing sign is
    the flag at that same position; whole-array tests test `!= 0`.
R11 crossing points lie on the segment's straight map line: every block of
    columns stacked into the latitude-side intersection coordinates is either
    the latitude grid lines crossed or the latitude at which the line through
    way-points i, i + 1 meets a crossed longitude line - lat_i + (line − lon_i)
    · Δlat / Δlon - and the other way round on the longitude side.  Decided by
    computing one element EXACTLY (rationals, ±inf / NaN as numpy has them) on
    sample segments, every helper opened - the line parameters included, so a
    segment of constant latitude has whatever slope / intercept the guarded
    division of the line parameters leaves (∞, ∓∞ or NaN on the equator) - with
    the selections that depend on the kind of segment applied (np.isinf(slope)
    masks, where=, np.where) and the others (rows of one index change, column
    ranges, NaN padding) left alone.  On a constant-latitude segment the
    latitude at a crossed longitude line must come out as the way-point
    latitude: an unguarded (line − intercept) / slope is inf / inf = NaN there
    (the crossing loses its latitude, lat- and lon-side arrays differ in
    length).  A wrong sign / array / coordinate in either line equation, a guard
    on the wrong rows or the wrong array is reported with the sample values.
R12 group independence: what is worked out for one group of segments inside a
    loop (the grid lines crossed, their crossing coordinates) depends on that
    group only.  In every function on the gridding path, no array that is
    created once BEFORE a loop and used nowhere but inside it is altered in
    place inside the loop by a read-modify-write (`op=`, `x[..] = f(x)`,
    `.sort()`) through a basic-slice view that is retaken from a fixed
    starting position at every iteration (`w = base[:n]; w *= -1`, or
    `base[:n] *= -1` directly): the slice shares memory with the array, the
    next iteration starts from what the previous ones left.  A copy
    (`.copy()`, mask / index-array subscripts, arithmetic), an array created
    per iteration, an accumulator that is read after the loop, a fill by
    position (`out[..] = value`), a window that moves with the iteration, a
    Python list are none of this.  Judged where it is written (also inside a
    generator function), positive control embedded.
R13 which grid lines: a segment that goes from cell s to cell e of an axis
    (cell i lies between grid lines i and i + 1: index = searchsorted − 1)
    crosses exactly the lines min(s, e) + 1 … max(s, e).  For every write,
    inside a loop of the horizontal intersection, of `self.grid_<axis>[INDEX]`
    into a per-axis array, the closed state value of INDEX (start cells,
    offsets with their in-place steps read functionally, helpers / generators
    opened) is computed exactly for sample segments (s, e) - the per-point
    cell indices `[:-1]` / `[1:]` are s / e, the loop variable is e − s, row
    selections leave the value alone, a maximum over all segments stands for
    "large enough" - and must give those lines, each once, in any order (they
    are sorted afterwards, R5).  Offsets 0 … n − 1 going up, a flipped sign
    test, the end cell as base are reported with the sample.  This is the one
    clause R6 cannot see when both axes share the code (a helper / generator
    used for latitude and longitude alike is its own mirror image).

Before the rules read them, the functions of the gridding module are rewritten
in place: `specialise_selector_calls` - a helper that is told by a CONSTANT
argument what to do (`self._require_axis('time')`: the parameter is tested,
selects from a display or names an attribute) is replaced at that call by its
copy for that constant, tests on it evaluated - `open_value_objects` - a local bound once to `K(args)`, K a class
of the module that only holds what it is given and whose methods never store to the receiver, used only by field /
property / cached_property reads, calls of methods that are one `return <expression>` and as the iterable of a
generator method, IS its fields: reads and calls are replaced by the returned expression over the fields wherever they
stand (arms of conditional expressions, comprehensions), a generator method becomes a generator function over the fields
(not when a field or a cached value is written through) - `open_generator_loops` - `for T in gen(args): BODY` over a generator
function of the module of the shape `prefix; for v in it: before; yield value;
after` becomes the one loop that is executed (`params = args; prefix; for v in
it: before; T = value; BODY; after`, the generator's names renamed apart), so
a loop whose state moved into a generator is read like the loop it was - and
`split_tuple_locals` (a local bound once to a display and used by
component only is taken apart into one local per component; a loop over such a
display of locals is unrolled): the values follow a local that holds an array
and is altered in place, not a component of a tuple that is.  Closed values
are canonical also in that a constant selection from a display is the selected
member (`{'altitude': self.grid_altitudes, 'time': self.grid_times}['time']`
is `self.grid_times`: a guard helper that is told by a constant which axis it
is about).  The components of what an un-opened function returns are named from
ALL its returns (GridValues._result_shape): guard clauses that return the same
structure with an empty display / constant in a slot (`return a, b, ()` before
the general case) leave each slot the role of the local the other paths return;
paths that disagree in nesting or role leave the result without roles (exit 2).
"""

from __future__ import annotations

import ast
import os
import re

from ..algebra import AlgebraError, normal_form, poly_equal
from ..astutil import (call_name, calls_in, const_value, eval_pred, kwarg, names_in, norm, single_def_value, stmt_of, stores_to,
                       walk_no_nested)
from .c04 import canon as _canon04
from .c04 import (DIST_FN, HZ_FN, MUT, RES, SPLITS, Pending, SeqView, Undecided, Values, _ix, _mk, _ph, alts, module_calls, as_received,
                  closed, describe_count, elem_form, grid_values, guard_verdict, hz_leaf, index_param, is_mask, is_mk, leaf_role,
                  lookup_verdict, mentions, parse_lookup, pervar_values, plain_value, pm, pm_any, ret_elts, rule_suffix, run_rules, same,
                  share_model, show, show_parts, strip_casts, tcopy)

GRID = 'gridding/grid.py'


class _FoldSelect(ast.NodeTransformer):
    """a constant selection from a display is the selected member: `{'a': x, 'b': y}['a']` / `dict(a=x, b=y)['a']` is x
    (a helper that is told by a constant which of the grid's axes it is about), `(x, y)[1]` is y.  Closed values are pure
    expressions: the members that are not selected have no effect."""
    def visit_Subscript(self, n):
        self.generic_visit(n)
        k, d = n.slice, n.value
        if not (isinstance(k, ast.Constant) and isinstance(k.value, (str, int)) and not isinstance(k.value, bool)):
            return n
        if isinstance(d, ast.Dict) and d.keys and all(isinstance(x, ast.Constant) for x in d.keys):
            hits = [v for kk, v in zip(d.keys, d.values) if type(kk.value) is type(k.value) and kk.value == k.value]
            return hits[-1] if hits else n
        if isinstance(d, ast.Call) and isinstance(d.func, ast.Name) and d.func.id == 'dict' and not d.args and d.keywords and \
                all(x.arg is not None for x in d.keywords):
            hits = [x.value for x in d.keywords if x.arg == k.value]
            return hits[-1] if hits else n
        if isinstance(d, (ast.Tuple, ast.List)) and isinstance(k.value, int) and not any(isinstance(x, ast.Starred) for x in d.elts) \
                and -len(d.elts) <= k.value < len(d.elts):
            return d.elts[k.value]
        return n

    def visit_Call(self, n):
        self.generic_visit(n)
        # {..}.get('a') / {..}.get('a', default) with constant keys
        if isinstance(n.func, ast.Attribute) and n.func.attr == 'get' and isinstance(n.func.value, ast.Dict) and 1 <= len(n.args) <= 2 \
                and not n.keywords and isinstance(n.args[0], ast.Constant) and n.func.value.keys and \
                all(isinstance(x, ast.Constant) for x in n.func.value.keys):
            k, d = n.args[0], n.func.value
            hits = [v for kk, v in zip(d.keys, d.values) if type(kk.value) is type(k.value) and kk.value == k.value]
            return hits[-1] if hits else (n.args[1] if len(n.args) == 2 else ast.Constant(None))
        return n


def canon(e):
    """c04.canon + constant selections from displays folded (see _FoldSelect); an attribute of the receiver (`self.grid_times`)
    is worded as itself, not as the local of a helper that happened to hold it (verdicts that read the wording of an axis
    must not depend on `g = self.grid_times; ...; return g` vs `return self.grid_times`)"""
    out = _FoldSelect().visit(_canon04(e))
    for x in ast.walk(out):
        if isinstance(x, ast.Attribute) and isinstance(x.value, ast.Name) and hasattr(x, '_nm'):
            del x._nm
    return out
SHARE_FN = 'Gridder._cell_idxs_touched_by_trajectory_with_state_and_integrated_vars'
AXES = ('lat', 'lon', 'altitude', 'time')


def axis_of(name: str) -> str | None:
    t = re.split(r'[_\W]+', name.lower())
    hits = []
    for a, words in (('lat', ('lat', 'lats', 'latitude', 'latitudes')), ('lon', ('lon', 'lons', 'longitude', 'longitudes')),
                     ('altitude', ('altitude', 'altitudes')), ('time', ('time', 'times'))):
        if any(w in t for w in words):
            hits.append(a)
    return hits[0] if len(hits) == 1 else None


def _kind_of(name: str) -> str:
    t = re.split(r'[_\W]+', name.lower())
    return 'cell index' if any(w in t for w in ('indices', 'index', 'idx', 'idxs', 'cells', 'cell')) else 'coordinate'


def _produced_leaves(prog, fi, e, at_fn, path=(), depth=0):
    """leaves of a returned structure: {access path: local name}; a path step is (position, field name or None)"""
    from ..resolve import resolve_class_call
    if depth > 6:
        return None
    if isinstance(e, ast.Name):
        d = single_def_value(at_fn, e.id)
        if isinstance(d, (ast.Tuple, ast.Call)) and (isinstance(d, ast.Tuple) or resolve_class_call(prog, fi, d) is not None):
            return _produced_leaves(prog, fi, d, at_fn, path, depth + 1)
        return {path: e.id}
    if isinstance(e, ast.Tuple):
        out = {}
        for i, x in enumerate(e.elts):
            sub = _produced_leaves(prog, fi, x, at_fn, path + ((i, None),), depth + 1)
            if sub is None:
                return None
            out.update(sub)
        return out
    if isinstance(e, ast.Call):
        ci = resolve_class_call(prog, fi, e)
        if ci is None or any(isinstance(a, ast.Starred) for a in e.args) or any(k.arg is None for k in e.keywords):
            return None
        fields = list(ci.annotated_fields())
        got = dict(zip(fields, e.args))
        got.update({k.arg: k.value for k in e.keywords})
        out = {}
        for i, f in enumerate(fields):
            if f not in got:
                return None
            sub = _produced_leaves(prog, fi, got[f], at_fn, path + ((i, f),), depth + 1)
            if sub is None:
                return None
            out.update(sub)
        return out
    return None


def _consumed_leaves(fn_node, target, path=(), depth=0):
    """leaves of the receiving side: [(access path, local name | None)]; a step is a position (int) or a field name (str).
    A received name that is taken apart again (`x = name.field`, `x = name[0]`, `a, b = name`) is followed; a component
    that is read in place (`name[0][mask]`, `name.field.sum()`) is a leaf without a receiving name (None): what is done
    with it is decided on values by the other clauses of R2."""
    from ..astutil import parent
    if isinstance(target, (ast.Tuple, ast.List)):
        out = []
        for i, t in enumerate(target.elts):
            sub = _consumed_leaves(fn_node, t, path + (i,), depth + 1)
            if sub is None:
                return None
            out += sub
        return out
    if not isinstance(target, ast.Name) or depth > 6:
        return None
    out, whole = [], False
    for x in walk_no_nested(fn_node):
        if not (isinstance(x, ast.Name) and x.id == target.id and isinstance(x.ctx, ast.Load)):
            continue
        p = parent(x)
        step = None
        if isinstance(p, ast.Attribute) and p.value is x:
            step = p.attr
        elif isinstance(p, ast.Subscript) and p.value is x and isinstance(const_value(p.slice), int) and not isinstance(const_value(p.slice), bool):
            step = const_value(p.slice)
        if step is not None:
            pp = parent(p)
            if isinstance(pp, ast.Assign) and pp.value is p and len(pp.targets) == 1 and isinstance(pp.targets[0], (ast.Name, ast.Tuple, ast.List)):
                sub = _consumed_leaves(fn_node, pp.targets[0], path + (step,), depth + 1)
                if sub is None:
                    return None
                out += sub
            elif (path + (step,), None) not in out:
                out.append((path + (step,), None))
        elif isinstance(p, ast.Assign) and p.value is x and len(p.targets) == 1 and isinstance(p.targets[0], (ast.Tuple, ast.List)):
            sub = _consumed_leaves(fn_node, p.targets[0], path, depth + 1)
            if sub is None:
                return None
            out += sub
        else:
            whole = True
    if whole or not out:
        out.append((path, target.id))
    return out


def rule_result_roles(ctx, m, fn):
    """The four arrays the horizontal intersection returns (point latitudes / longitudes, cell latitude / longitude
    indices) are received under names of the same axis and kind, whatever the container (nested tuples, records read
    by position or by field)."""
    from ..resolve import resolve_call
    prog = ctx.prog
    hz = m.func('Gridder._trajectory_intersection_points_and_cells_horizontal')
    rets = [r for r in walk_no_nested(hz.node) if isinstance(r, ast.Return) and r.value is not None]
    unp = next((st for t, st, how in stores_to(fn.node) if isinstance(st, ast.Assign) and isinstance(st.value, ast.Call)
                and (lambda c: c is not None and c.node is hz.node)(resolve_call(prog, fn, st.value))), None)
    if unp is None or len(rets) != 1 or len(unp.targets) != 1:
        ctx.undecided('C05-R2', fn, 'intersection result', 'call of the horizontal intersection / its single return not found')
    ok = [norm(a) for a in unp.value.args] == ['lats', 'lons'] and not unp.value.keywords
    ctx.ob('C05-R2', fn, 'horizontal intersection called with (lats, lons)', ok, 'way-points as received' if ok else
           'latitudes / longitudes are passed to the intersection in the wrong order', line=unp.lineno)
    produced = _produced_leaves(prog, hz, rets[0].value, hz.node)
    consumed = _consumed_leaves(fn.node, unp.targets[0])
    if produced is None or consumed is None:
        ctx.undecided('C05-R2', fn, 'intersection result', 'returned / received structure is not tuples or records of names')
    n = 0
    for path, name in consumed:
        cands = [nm for pp, nm in produced.items() if len(pp) == len(path)
                 and all(step == (i if isinstance(step, int) else f) or (isinstance(step, int) and step < 0) for step, (i, f) in zip(path, pp))]
        if len(cands) != 1 or any(isinstance(step, int) and step < 0 for step in path):
            ctx.undecided('C05-R2', fn, f'intersection result → {name or "(read in place)"}', f'access path {path} does not name one returned array')
        n += 1
        if name is None:
            ctx.ob('C05-R2', fn, f'intersection result {"".join(f"[{p}]" if isinstance(p, int) else "." + p for p in path)} read in place', True,
                   f'`{cands[0]}` of the intersection, used without a receiving name (decided on values)', line=unp.lineno, nontrivial=False)
            continue
        got, want = (axis_of(name), _kind_of(name)), (axis_of(cands[0]), _kind_of(cands[0]))
        ok = got == want and got[0] is not None
        ctx.ob('C05-R2', fn, f'intersection result {"".join(f"[{p}]" if isinstance(p, int) else "." + p for p in path)} → {name}', ok,
               f'{want[0]} {want[1]} array received as such' if ok else
               f'the {want[0]} {want[1]} array `{cands[0]}` of the intersection result is received as `{name}` '
               f'({got[0]} {got[1]}): latitude/longitude (or coordinate/index) arrays are swapped', line=unp.lineno)
    ctx.floor('C05-R2/result', n, 4, 'arrays received from the horizontal intersection')


POINT_ROLES = ('lats', 'altitudes', 'times', 'state_variables')
PI_ATOMS = ('np.pi', 'numpy.pi', 'math.pi', 'pi')


def _role_sequences(view, x, at, role_of=None):
    """(role, base, alternatives) of one returned component: role is the array parameter (or tuple-of-arrays
    parameter) it is built from; when the inputs travel in a record (`trajectory[0]`, `part.lats`), `role_of(base)`
    says which of the driver's own parameters that component is at the call"""
    try:
        alts = view.seq(x, at)
        bases = {p[1] for parts in alts for p in parts if p[0] in ('slice', 'whole')}
        if not alts:
            return None, None, []
        if len(bases) == 1:
            b = next(iter(bases))
            if b in view.params:
                return b, b, alts
            r = role_of(b) if role_of is not None else None
            if r is not None:
                return r, b, alts
        raise Undecided(f'`{norm(x)[:60]}` mixes {sorted(bases)}')
    except Undecided as first:
        try:
            calts = view.coll(x, at)
        except Undecided:
            raise first
        out, role, base = [], None, None
        for a in calts:
            if a[0] == 'empty':
                continue
            _, src, var, expr, at2, bound = a
            if src not in view.params and role_of is not None:
                src = role_of(src) or src
            if role not in (None, src):
                raise Undecided(f'`{norm(x)[:60]}` is built from {role} and {src}')
            role, base = src, var
            out += view.seq(expr, at2, bound)
        return role, base, out


def _antimeridian_side(view, part):
    """sign of π of the inserted longitude for crossing sign -1 and +1: {-1: ±1, 1: ±1}"""
    _, x, at, bound = part
    e = closed(view, x, at, bound)
    ps = sorted(n for n in names_in(e) if n in view.params)
    if len(ps) != 1:
        raise Undecided(f'inserted longitude `{norm(e)[:60]}` depends on {ps} (expected the crossing sign only)')

    def pick(x_, val):
        if isinstance(x_, ast.IfExp):
            try:
                return pick(x_.body if eval_pred(x_.test, {ps[0]: val}) else x_.orelse, val)
            except ValueError as ex:
                raise Undecided(f'condition `{norm(x_.test)[:50]}`: {ex}')
        return x_
    out = {}
    for val in (-1, 1):
        try:
            r = normal_form(pick(e, val), {}, {ps[0]: val})
        except AlgebraError as ex:
            raise Undecided(f'inserted longitude `{norm(e)[:60]}`: {ex}')
        sign = None
        for pi in PI_ATOMS:
            for sg in (1, -1):
                want = ast.Name(id=pi, ctx=ast.Load()) if '.' not in pi else ast.parse(pi, mode='eval').body
                if poly_equal(r, normal_form(ast.UnaryOp(op=ast.USub(), operand=want) if sg < 0 else want, {})):
                    sign = sg
        out[val] = sign
    return out, norm(e)


def rule_split_points(ctx, m):
    """Every path through a split function returns, for latitude / altitude / time / each state variable, the way-points
    on its side of the crossing plus ONE inserted point that is a plain copy of the crossing segment's starting
    element k; the inserted longitude is ±π on the side the path is on."""
    for part, qn in SPLITS:
        sp = m.func(qn)
        view = SeqView(sp, ctx.prog)
        n = 0
        site = []

        def role_of(base, sp=sp, view=view, site=site):
            """the driver's own parameter that a component of a record parameter of the split function is at the call"""
            from . import c04 as _c04
            if not hasattr(_c04, 'CallSite'):
                return None
            if not site:
                gc = m.func(_c04.DRIVER_FN)
                site.append(_c04.CallSite(ctx, grid_values(ctx), gc, sp, view, *_c04.split_call(ctx, 'C05-R1', gc, sp)))
            return site[0].received(base)

        def index_params(sp=sp, view=view):
            """the parameters - and components of record parameters - of the split function that can hold the crossing index"""
            out = set(sp.params)
            if hasattr(view, 'record_params'):
                for x in ast.walk(sp.node):
                    k = view.component(x, sp.node.body[0]) if isinstance(x, (ast.Subscript, ast.Attribute)) else None
                    if k is not None:
                        out.add(k)
            return out

        for ri, r in enumerate(view.returns()):
            tag = f'{part} part, return #{ri + 1}'
            for x, at in ret_elts(view, r):
                role, base, alts = _role_sequences(view, x, at, role_of)
                if role not in POINT_ROLES + ('lons',):
                    continue
                for parts in alts:
                    desc = show_parts(parts)
                    elems = [p for p in parts if p[0] == 'elem']
                    rest = [p for p in parts if p[0] != 'elem']
                    if len(elems) != 1:
                        ctx.ob('C05-R1', sp, f'{tag}: {role} has one inserted antimeridian point in {desc}', False,
                               (f'on the path that returns at line {r.lineno} the {part} part\'s {role} are `{desc}` without a point on '
                                'the antimeridian: the leg of the crossing segment on this side is not gridded (its cells receive nothing)')
                               if not elems else f'`{desc}` inserts {len(elems)} points', line=r.lineno)
                        continue
                    katoms = index_param(view, [(rest, base)] + ([(elems, base)] if role != 'lons' else []))
                    if len(katoms) != 1 or not katoms <= index_params():
                        ctx.undecided('C05-R1', sp, tag, f'`{desc}` is not cut at one index parameter ({sorted(map(str, katoms))})')
                    k = next(iter(katoms))
                    if part == 'first':
                        okk = len(rest) == 1 and rest[0][0] == 'slice' and rest[0][2] in (None, (None, 0)) and rest[0][3] == (k, 1) \
                            and parts[-1][0] == 'elem'
                    else:
                        okk = len(rest) == 1 and rest[0][0] == 'slice' and rest[0][2] == (k, 1) and rest[0][3] is None \
                            and parts[0][0] == 'elem'
                    ctx.ob('C05-R1', sp, f'{tag}: {role} keeps points {show_parts(rest)}', okk,
                           'points up to (from) the crossing, the inserted point at the antimeridian end' if okk else
                           f'`{desc}`: the retained point range of the split changed (expected the points up to / from element {k} + 1 '
                           'with the inserted point at the crossing end)', line=r.lineno, nontrivial=not okk)
                    if role == 'lons':
                        side, shown = _antimeridian_side(view, elems[0])
                        want = {-1: 1, 1: -1} if part == 'first' else {-1: -1, 1: 1}
                        ok = side == want
                        ctx.ob('C05-R1', sp, f'{tag}: meets the antimeridian at {shown[:60]}', ok,
                               'the side of ±π the path is on' if ok else
                               'the inserted longitude is on the wrong side of the antimeridian', line=getattr(elems[0][1], 'lineno', r.lineno))
                        continue
                    f, marks, _, shown = elem_form(view, elems[0], base)
                    n += 1
                    ph = _ph(k, 0)
                    ok = poly_equal(f, normal_form(ast.Name(id=ph, ctx=ast.Load()), {}))
                    if ok:
                        why = 'the crossing segment\'s starting point'
                    else:
                        single = next((mk for mk in marks if poly_equal(f, normal_form(ast.Name(id=mk, ctx=ast.Load()), {}))), None)
                        if single is not None:
                            why = (f'the inserted antimeridian point copies {base}[{_ix(marks[single])}], a point other than the crossing '
                                   f'segment\'s start {base}[{k}]')
                        else:
                            why = (f'the inserted antimeridian point\'s value is `{shown[:90]}`, not a copy of the crossing segment\'s '
                                   f'starting element {base}[{k}]: the pieces of that segment on this side of the antimeridian are '
                                   'reported with the altitude / time cell (state value) of a different point than the segment\'s start')
                    if not ok and part == 'first' and role != 'lats':
                        # the inserted point ends the first part: it starts no segment, and the share computation drops the last
                        # point of altitude / time / state (first clause of this rule), so this value is never read
                        ctx.ob('C05-R1', sp, f'{tag}: inserted point takes {role}[{k}]', True,
                               f'`{shown[:60]}` - the end point of the first part starts no segment: its {role} value is not read',
                               line=getattr(elems[0][1], 'lineno', r.lineno), nontrivial=False)
                        continue
                    ctx.ob('C05-R1', sp, f'{tag}: inserted point takes {role}[{k}]', ok, why, line=getattr(elems[0][1], 'lineno', r.lineno))
        ctx.floor(f'C05-R1/{part}', n, 4, f'inserted-point values in the {part} split (latitude, altitude, time, state)')


INDEX_HELPERS = {
    # function: (grid axis attribute, parameter, per-segment)
    'Gridder._trajectory_time_grid_indices': ('grid_times', 'times', False),
    'Gridder._trajectory_altitude_grid_indices': ('grid_altitudes', 'altitudes', False),
    'Gridder._trajectory_segment_time_grid_indices': ('grid_times', 'times', True),
    'Gridder._trajectory_segment_altitude_grid_indices': ('grid_altitudes', 'altitudes', True),
}
ENTRY_POINTS = ('Gridder.grid_trajectory', 'Gridder.cells_touched_by_trajectory_with_state_and_integrated_variables')


def _role_words(e):
    """axis words carried by the names of a closed value (locals behind MUT__, intersection roles, parameters)"""
    out = set()
    for x in ast.walk(e):
        w = None
        if isinstance(x, ast.Name):
            w = axis_of(x.id)
        elif isinstance(x, ast.Constant) and isinstance(x.value, str):
            w = axis_of(x.value.split('@')[0])
        elif isinstance(x, ast.Attribute) and x.attr.startswith('grid_'):
            w = axis_of(x.attr)
        if w:
            out.add(w)
    return out


def of_axis(axis):
    """coord_ok: the searched-for values are coordinates of `axis` and are not cast / rounded on the way"""
    def ok(c):
        if mentions(c, lambda x: (isinstance(x, ast.keyword) and x.arg == 'dtype') or
                    (isinstance(x, ast.Attribute) and x.attr in ('astype', 'round', 'floor', 'ceil', 'trunc', 'rint'))):
            return False, (f'the searched-for values are altered before the search (`{show(c, 60, top=True)}`): a value just above a grid line '
                           'can land on or below it and is attributed to the cell below')
        roles = _role_words(c)
        if roles == {axis}:
            return True, ''
        if roles and axis not in roles:
            return False, f'{"/".join(sorted(roles))} values `{show(c, 50, top=True)}` are looked up on the {axis} axis'
        return None, f'searched-for values `{show(c, 60, top=True)}` are not recognised as {axis} coordinates'
    return ok


POINT_PARAMS = ('lats', 'lons', 'altitudes', 'times')


def gather_as_repeat(e):
    """`A[np.repeat(np.arange(N), C)]` - a gather through the piece -> segment index array - IS `np.repeat(A[:N], C)`: the
    index array holds 0 … N − 1, entry i C[i] times, so only the first N entries of A are read, each repeated by its own count
    (`A[:N][:N]` is `A[:N]`; `A[-N:][:N]` is `A[-N:]`, which has N entries at most).  Applied bottom-up wherever it stands."""
    class T(ast.NodeTransformer):
        def visit_Subscript(self, n):
            self.generic_visit(n)
            b = pm_any(['A_[np.repeat(np.arange(N_), C_)]', 'A_[np.repeat(np.arange(0, N_), C_)]',
                        'A_[np.repeat(np.arange(N_), repeats=C_)]', 'A_[np.arange(N_).repeat(C_)]'], n)
            if b is None:
                return n
            a, N = b['A_'], b['N_']
            inner = a.slice if isinstance(a, ast.Subscript) and isinstance(a.slice, ast.Slice) and a.slice.step is None else None
            first_n = inner is not None and inner.lower is None and inner.upper is not None and same(inner.upper, N)
            last_n = inner is not None and inner.upper is None and isinstance(inner.lower, ast.UnaryOp) and \
                isinstance(inner.lower.op, ast.USub) and same(inner.lower.operand, N)
            if not (first_n or last_n):
                a = ast.Subscript(value=a, slice=ast.Slice(lower=None, upper=N, step=None), ctx=ast.Load())
            return ast.Call(func=ast.Attribute(value=ast.Name(id='np', ctx=ast.Load()), attr='repeat', ctx=ast.Load()),
                            args=[a, b['C_']], keywords=[])
    return ast.fix_missing_locations(T().visit(tcopy(e)))


def _plain_slices(e):
    """copy of `e` whose slice bounds are worded as their closed values, not as the local that held them (`[:n_segments]` is
    `[:len(lats) - 1]`): what a slice keeps is read from the value of its bounds"""
    e = tcopy(e)
    for x in ast.walk(e):
        if isinstance(x, ast.Subscript) and isinstance(x.slice, ast.Slice):
            for y in ast.walk(x.slice):
                if hasattr(y, '_nm'):
                    del y._nm
    return e


def per_point_trail(trail, params):
    """slices of a PER-POINT array (one entry per way-point, as many as `lats`: the contract of the gridding) written with the
    number of segments `len(<per-point parameter>) − 1`: `[:len(lats) − 1]` keeps all but the last point (`[:-1]`),
    `[-(len(lats) − 1):]` / `[1 − len(lats):]` all but the first (`[1:]`).  Other slices are left as they are."""
    def nseg(x):
        b = pm('len(P_) - 1', x)
        return b is not None and isinstance(b['P_'], ast.Name) and b['P_'].id in POINT_PARAMS and b['P_'].id in params
    out = []
    for t in trail:
        try:
            sl = ast.parse(f'x[{t}]', mode='eval').body.slice
        except SyntaxError:
            out.append(t)
            continue
        if isinstance(sl, ast.Slice) and sl.step is None:
            if sl.lower is None and sl.upper is not None and nseg(sl.upper):
                t = ':-1'
            elif sl.upper is None and sl.lower is not None:
                lo = sl.lower
                b = pm('1 - len(P_)', lo)
                if (isinstance(lo, ast.UnaryOp) and isinstance(lo.op, ast.USub) and nseg(lo.operand)) or \
                        (b is not None and isinstance(b['P_'], ast.Name) and b['P_'].id in POINT_PARAMS and b['P_'].id in params):
                    t = '1:'
        out.append(t)
    return out


def clamp_below_top(e):
    """why-text when the cell index `e` (casts / slices peeled) is clamped from above - np.clip(I, lo, HI), I.clip(lo, HI),
    np.minimum(I, HI) - to HI = <number of values of a grid axis> − K, K ≥ 2; else None.  An axis of n grid values has n cells:
    every value is the lower edge of its own cell and the top cell (index n − 1 = searchsorted − 1 of anything above the last
    value) is open-ended, so such a clamp moves every point at or above the last grid value into a cell below its own."""
    for _ in range(8):
        s = strip_casts(e)
        if s is not e:
            e = s
            continue
        if isinstance(e, ast.Subscript) and isinstance(e.slice, ast.Slice):
            e = e.value
            continue
        break
    b = pm_any(['np.clip(I_, LO_, HI_)', 'I_.clip(LO_, HI_)', 'np.clip(I_, a_min=LO_, a_max=HI_)', 'np.clip(I_, LO_, a_max=HI_)',
                'np.clip(I_, min=LO_, max=HI_)', 'I_.clip(min=LO_, max=HI_)', 'np.minimum(I_, HI_)', 'np.minimum(HI_, I_)'], e)
    if b is None or parse_lookup(b['I_']) is None:
        return None
    h = pm_any(['len(A_) - K_', 'A_.size - K_', 'A_.shape[0] - K_', 'np.size(A_) - K_'], b['HI_'])
    if h is None:
        return None
    k, ax = const_value(h['K_']), show(canon(h['A_']))
    if not (isinstance(k, int) and not isinstance(k, bool) and k >= 2 and re.fullmatch(r'self\.grid_\w+', ax)):
        return None
    return (f'the cell index is clamped to at most len({ax}) − {k}: an axis of n grid values has n cells (each value is the lower edge '
            f'of its own cell, the top cell n − 1 is open-ended), so a point at or above the last grid value is moved into the cell '
            f'below the one that contains it')


_lookup_verdict04 = lookup_verdict


def lookup_verdict(e, axis_attr, coord_ok):
    """c04.lookup_verdict; a look-up clamped below the top cell is reported as that (clamp_below_top)"""
    why = clamp_below_top(e)
    if why is not None:
        return False, why
    return _lookup_verdict04(e, axis_attr, coord_ok)


def segment_trail(lk_trail, what):
    """(ok, why): the per-point values are reduced to per-segment values by dropping the LAST point"""
    if lk_trail == [':-1']:
        return True, 'the last point is dropped: each segment takes the value of its starting point'
    if lk_trail == ['1:']:
        return False, (f'each segment takes the {what} of its END point (`[1:]`): pieces are attributed to the wrong level / time bin / '
                       'state')
    if not lk_trail:
        return False, f'the per-point {what} are not reduced to one per segment (no `[:-1]`): lengths no longer match'
    return None, f'per-segment reduction `{"".join("[" + t + "]" for t in lk_trail)}` is not recognised'


def rule_lookup(ctx, m, rule):
    """(two NEIGHBOURING elements of an axis subtracted = a spacing; the extent `axis[-1] - axis[0]` is not)
    Every cell index is obtained by searching the grid axis itself: `np.searchsorted(axis, coordinates) − 1`
    (left side) on the axis of the index's own role, with the coordinates as given - decided on the closed value, so
    through any number of helpers (a guard helper that returns the axis, a shared `searchsorted − 1` helper, ...).
    Index arithmetic from a spacing, a cast of the coordinates, another side or another axis changes the cell of some
    point on some grid."""
    from ..resolve import closure
    V = grid_values(ctx)
    pend = Pending(ctx)
    n = 0
    # (a) the four altitude / time index helpers, by what they return
    for qn, (axis, param, seg) in INDEX_HELPERS.items():
        h = m.func(qn)
        V.speak_for(h)
        view = V.view(h)
        for r in view.returns():
            val = canon(V.close(h, r.value, r))
            for alt in alts(val):
                n += 1
                pend.put(rule, h, f'return = {norm(r.value)[:60]}', lookup_verdict(alt, axis, as_received(param)), line=r.lineno)
    # (b) the cell index arrays the horizontal intersection returns: [start cell, midpoint cells ..., end cell] per segment
    hz = m.func(HZ_FN)
    # the ordered intersection coordinates of each axis: the middle of the returned coordinate array of that axis
    inter = {}
    for role, name, val, ret in hz_leaves(ctx, m, rule):
        if role in ('lat coordinate', 'lon coordinate'):
            v_ = canon(V.plain_of(val)) if is_mk(val, MUT) else val
            b_ = pm_any(['np.column_stack((C_[:-1], P_, C_[1:]))', 'np.hstack((C_[:-1, None], P_, C_[1:, None]))',
                         'np.concatenate((C_[:-1, None], P_, C_[1:, None]), axis=1)'], v_)
            if b_ is not None:
                inter[role.split()[0]] = b_['P_']

    def midpoints_of(ax):
        """coord_ok: the searched-for values are the midpoints between neighbouring intersection coordinates of axis `ax`"""
        def ok(c):
            bm_ = pm_any(['(P_[:, :-1] + P_[:, 1:]) / 2', '(P_[:, :-1] + P_[:, 1:]) * 0.5', '(P_[:, :-1] + P_[:, 1:]) / 2.0',
                          'P_[:, :-1] + (P_[:, 1:] - P_[:, :-1]) / 2', 'P_[:, :-1] + np.diff(P_, axis=1) / 2',
                          'np.mean((P_[:, :-1], P_[:, 1:]), axis=0)'], c)
            if bm_ is None:
                return of_axis(ax)(c)
            for a2, p2 in inter.items():
                if same(p2, bm_['P_']):
                    if a2 == ax:
                        return True, ''
                    return False, f'the midpoints of the {a2} intersection coordinates are looked up on the {ax} axis'
            return of_axis(ax)(c)
        return ok

    for role, name, val, ret in hz_leaves(ctx, m, rule):
        if role not in ('lat index', 'lon index'):
            continue
        axis = role.split()[0]
        attr = {'lat': 'grid_latitudes', 'lon': 'grid_longitudes'}[axis]
        coord = {'lat': 'lats', 'lon': 'lons'}[axis]
        rets = [ret]
        if is_mk(val, MUT):
            _, alters = V.alterations_of(val)
            for st in alters:
                okst = isinstance(st, ast.Assign) and len(st.targets) == 1 and isinstance(st.targets[0], ast.Subscript) and \
                    norm(st.value) in ('np.nan', 'numpy.nan', 'float("nan")', "float('nan')", 'math.nan')
                if not okst:
                    pend.put(rule, hz, f'returned {role} array', (None, f'`{norm(st)[:70]}` alters the cell indices after the look-up'))
            val = canon(V.plain_of(val))
        b = pm_any(['np.column_stack((S_[:-1], M_, E_[1:]))', 'np.hstack((S_[:-1, None], M_, E_[1:, None]))',
                    'np.concatenate((S_[:-1, None], M_, E_[1:, None]), axis=1)'], val)
        if b is None:
            pend.put(rule, hz, f'returned {role} array', (None, f'`{show(val, 90)}` is not [start cell | midpoint cells | end cell] per segment'))
            continue
        for tag, e in (('start', b['S_']), ('end', b['E_'])):
            n += 1
            pend.put(rule, hz, f'{axis} cell of the segment {tag} points = {show(e, 50)}', lookup_verdict(e, attr, as_received(coord)),
                     line=rets[0].lineno)
        M = b['M_']
        bm = pm_any(['np.where(np.isnan(X_), np.nan, L_)', 'np.where(~np.isnan(X_), L_, np.nan)'], M)
        n += 1
        if bm is not None:
            def mid_ok(c, x=bm['X_'], ax=axis):
                if not same(c, x):
                    return False, f'the NaN padding is taken from `{show(x, 40)}` but the cells are looked up for `{show(c, 40)}`'
                return midpoints_of(ax)(c)
            pend.put(rule, hz, f'{axis} cells of the piece midpoints = {show(M, 50)}', lookup_verdict(bm['L_'], attr, mid_ok),
                     line=rets[0].lineno)
        else:
            ok, why = lookup_verdict(M, attr, midpoints_of(axis))
            if ok:
                ok, why = False, ('the midpoint cells are looked up without restoring the NaN padding: padding columns get a cell '
                                  'index, the count of pieces per segment is wrong and outputs no longer line up')
            pend.put(rule, hz, f'{axis} cells of the piece midpoints = {show(M, 50)}', (ok, why), line=rets[0].lineno)
    ctx.floor(rule + '/lookups', n, 10, 'cell look-ups (4 index helpers, 3 per horizontal axis)')
    # (c) every other search of an axis in the module: own axis, left side
    nsearch = 0
    for fi in m.functions.values():
        if '<locals>' in fi.qualname:
            continue
        for c in calls_in(fi.node):
            if not call_name(c).endswith('searchsorted') or isinstance(c.func, ast.Name):
                continue
            nsearch += 1
            at = stmt_of(c)
            cc = canon(V.close(fi, c, at))
            if not (isinstance(cc, ast.Call) and call_name(cc) == 'np.searchsorted' and len(cc.args) >= 2):
                continue
            ax, co = cc.args[0], cc.args[1]
            raw_co = (c.args[1] if len(c.args) > 1 else kwarg(c, 'v')) if call_name(c).startswith(('np.', 'numpy.')) else \
                (c.args[0] if c.args else kwarg(c, 'v'))
            sites = []
            if isinstance(ax, ast.Name) and ax.id in fi.params:
                # a helper that searches the axis it is given: every call site must give it a grid axis
                for caller, call, callee_ in module_calls(ctx, m):
                    if callee_ is not fi and callee_ != fi:
                        continue
                    bind = _bind_args(fi, call)
                    if bind is None or ax.id not in bind:
                        pend.put(rule, caller, f'{fi.name}(…)', (None, 'call shape not recognised'))
                        continue
                    a2 = canon(V.close(caller, bind[ax.id], stmt_of(call)))
                    sites.append((caller, call, a2, bind[co.id] if isinstance(co, ast.Name) and co.id in bind else raw_co))
            else:
                sites.append((fi, c, ax, raw_co))
            for where, call, a2, c2 in sites:
                axw = _role_words(a2)
                if not (isinstance(a2, ast.Attribute) and a2.attr.startswith('grid_') and show(a2.value) == 'self'):
                    if isinstance(a2, ast.Name) and a2.id in where.params:
                        continue        # passed further up: checked at that level
                    pend.put(rule, where, f'searched axis {show(a2, 40)}', (None, 'not recognised as one of the grid\'s own axes'))
                    continue
                cw = _role_words(c2) if c2 is not None else set()      # roles of the searched-for values, as written
                ok = not cw or cw == axw
                ctx.ob(rule, where, f'search of {show(a2, 40)} for {norm(c2)[:40] if c2 is not None else "?"}', ok, 'own axis' if ok else
                       f'{"/".join(sorted(cw))} values are looked up on the {"/".join(sorted(axw))} axis', line=call.lineno, nontrivial=False)
    ctx.floor(rule + '/searches', nsearch, 1, 'np.searchsorted calls in the gridding module')
    # no spacing arithmetic on the gridding path (zero expected; positive control embedded)
    def spacing(x):
        return isinstance(x, ast.BinOp) and isinstance(x.op, ast.Sub) and isinstance(x.left, ast.Subscript) \
            and isinstance(x.right, ast.Subscript) and norm(x.left.value) == norm(x.right.value) \
            and isinstance(const_value(x.left.slice), int) and isinstance(const_value(x.right.slice), int) \
            and abs(const_value(x.left.slice) - const_value(x.right.slice)) == 1 \
            and re.search(r'grid_|axis|edges', norm(x.left.value)) is not None
    ctx.control(rule, spacing(ast.parse('axis[1] - axis[0]').body[0].value), 'embedded `axis[1] - axis[0]` is recognised as a spacing')
    roots = [m.func(q) for q in ENTRY_POINTS if q in m.functions]
    for fi in closure(ctx.prog, roots):
        if fi.file != m.relpath:
            continue
        for x in ast.walk(fi.node):
            if spacing(x):
                ctx.ob(rule, fi, f'spacing `{norm(x)}`', False,
                       'a single spacing is taken from two elements of an axis: whatever is computed from it assumes an evenly '
                       'spaced axis, which the gridder does not require', line=x.lineno)
    pend.flush()


def _bind_args(callee, call):
    """{parameter: argument expression} of a plain call of `callee` (self / cls skipped), else None"""
    if any(isinstance(a, ast.Starred) for a in call.args) or any(k.arg is None for k in call.keywords):
        return None
    ps = list(callee.params)
    if callee.cls is not None and 'staticmethod' not in callee.decorators() and ps and isinstance(call.func, ast.Attribute):
        ps = ps[1:]
    if len(call.args) > len(ps):
        return None
    bind = dict(zip(ps, call.args))
    bind.update({k.arg: k.value for k in call.keywords})
    return bind


def rule_outputs(ctx, m):
    """C05-R1 / R2 / R4 on the closed values the share computation returns: latitude / longitude cells are the
    intersection's own index arrays with the NaN padding masked out; altitude / time cells are the per-segment
    look-up (per-point look-up of the coordinate as received, LAST point dropped) repeated by the count vector; state
    values are variable[:-1] repeated by the count vector; the count vector is the number of cells per segment."""
    V, fn, view, rows = share_model(ctx, m)
    V.speak_for(fn)
    pend = Pending(ctx)
    n = 0
    for r, elts in rows:
        for pos, axis in ((0, 'lat'), (1, 'lon')):
            x, at = elts[pos]
            for alt in alts(canon(V.close(fn, x, at))):
                n += 1
                what = f'{axis} cell indices = {show(alt, 60)}'
                b = pm('X_[~np.isnan(Y_)]', strip_casts(alt))
                if b is None:
                    pend.put('C05-R2', fn, what, (None, f'not recognised as the {axis} cell index array with its NaN padding masked out'))
                    continue
                rx, ry = hz_leaf(b['X_']), hz_leaf(b['Y_'])
                if rx == f'{axis} index' and ry in ('lat index', 'lon index'):
                    verdict = (True, 'the intersection\'s own index array, NaN padding masked out')
                elif rx in ('lat index', 'lon index') and ry in ('lat index', 'lon index'):
                    verdict = (False, f'the {axis} cell indices are taken from the {rx} array: cell rows and columns are swapped')
                elif rx is not None and ry is not None:
                    verdict = (False, f'the {axis} cell indices are `{rx}` masked by the NaN mask of `{ry}`: masked/flattened from a '
                                      'different array, cell rows and columns no longer pair up')
                else:
                    verdict = (None, f'`{show(alt, 80)}` is not recognised as an array of the horizontal intersection')
                pend.put('C05-R2', fn, what, verdict, line=getattr(at, 'lineno', r.lineno))
        for pos, attr, param in ((2, 'grid_altitudes', 'altitudes'), (3, 'grid_times', 'times')):
            x, at = elts[pos]
            nrep = 0
            for alt in alts(gather_as_repeat(canon(V.close(fn, x, at)))):
                line = getattr(at, 'lineno', r.lineno)
                if pm_any(['np.array(())', 'np.empty(0)', 'np.zeros(0)', 'np.array((), dtype=T_)', 'np.empty(0, dtype=T_)'], alt) is not None:
                    continue
                b = pm('np.repeat(S_, C_)', alt)
                if b is None:
                    pend.put('C05-R2', fn, f'{param} cells', (None, f'`{show(alt, 80)}` is not repeat(per-segment cell, count)'))
                    continue
                nrep += 1
                okc, whatc = describe_count(b['C_'])
                pend.put('C05-R2', fn, f'{param} cells expanded by the count vector',
                         (okc, ('own per-segment indices expanded by the shared count vector: ' + whatc) if okc else
                          f'the {param} cells are expanded by {whatc}, not by the number of cells each segment touches'), line=line)
                pend.put('C05-R4', fn, f'{param} cell index = searchsorted(self.{attr}, {param}) − 1',
                         lookup_verdict(b['S_'], attr, as_received(param)), line=line)
                lk = parse_lookup(_plain_slices(b['S_']))
                if lk is not None:
                    pend.put('C05-R1', fn, f'per-segment {param} cell = per-point cell{"".join("[" + t + "]" for t in lk["trail"])}',
                             segment_trail(per_point_trail(lk['trail'], fn.params), f'{param} cell'), line=line)
            ctx.floor(f'C05-R2/{param}', nrep, 1, f'expansions of the per-segment {param} cells')
            n += nrep
        x, at = elts[4]
        try:
            pv, _ = pervar_values(V, fn, view, x, at)
        except Undecided as e:
            ctx.undecided('C05-R1', fn, 'state values', str(e))
        for src, var, val, at2 in pv:
            line = getattr(at2, 'lineno', r.lineno)
            if src != 'state_variables':
                ctx.ob('C05-R1', fn, f'state output built from {src}', False,
                       f'the state values of the pieces are computed from `{src}`, not from `state_variables`', line=line)
                continue
            val = gather_as_repeat(val)
            b = pm('np.repeat(S_, C_)', val)
            if b is None:
                pend.put('C05-R1', fn, 'state values', (None, f'`{show(val, 80)}` is not repeat(per-segment state, count)'))
                continue
            n += 1
            okc, whatc = describe_count(b['C_'])
            pend.put('C05-R2', fn, 'state values expanded by the count vector',
                     (okc, whatc if okc else f'the state values are expanded by {whatc}, not by the number of cells each segment touches'),
                     line=line)
            S, trail = b['S_'], []
            while isinstance(S, ast.Subscript) and isinstance(S.slice, ast.Slice):
                trail.insert(0, norm(S.slice))
                S = S.value
            if isinstance(strip_casts(S), ast.Name) and strip_casts(S).id == var:
                pend.put('C05-R1', fn, 'state values of the segment start repeated per piece',
                         segment_trail(per_point_trail(trail, fn.params), 'state value'), line=line)
            else:
                pend.put('C05-R1', fn, 'state values', (None, f'`{show(b["S_"], 60)}` is not the state variable itself'))
    ctx.floor('C05-R2/outputs', n, 5, 'returned outputs recognised (2 horizontal, altitude, time, state)')
    pend.flush()


def _unbroadcast(e):
    """`e` without added axes: x[:, None], x[:, np.newaxis], x[None, :], np.expand_dims(x, ..), x.reshape(-1, 1)"""
    for _ in range(4):
        if isinstance(e, ast.Subscript):
            parts = e.slice.elts if isinstance(e.slice, ast.Tuple) else [e.slice]
            if all((isinstance(p, ast.Slice) and p.lower is None and p.upper is None and p.step is None) or
                   (isinstance(p, ast.Constant) and p.value is None) or norm(p) == 'np.newaxis' for p in parts):
                e = e.value
                continue
        b = pm_any(['np.expand_dims(X_, axis=A_)', 'np.expand_dims(X_, A_)', 'X_.reshape(-1, 1)', 'X_.reshape(1, -1)', 'np.atleast_2d(X_)'], e)
        if b is not None:
            e = b['X_']
            continue
        break
    return e


def rule_guards(ctx, m):
    """C05-R7: every guarded division of the module is guarded exactly on its denominator (by value: a mask held in a
    local, built by a helper or written inline is the same mask)."""
    V = grid_values(ctx)
    pend = Pending(ctx)
    ndiv = nline = 0
    for fi in m.functions.values():
        if '<locals>' in fi.qualname:
            continue
        for c in calls_in(fi.node):
            nm = call_name(c)
            if nm in ('np.divide', 'numpy.divide', 'np.true_divide', 'numpy.true_divide'):
                if kwarg(c, 'where') is None:
                    continue
            elif not (nm in ('np.where', 'numpy.where') and len(c.args) == 3 and any(
                    isinstance(y, ast.BinOp) and isinstance(y.op, ast.Div) or
                    (isinstance(y, ast.Call) and call_name(y) in ('np.divide', 'numpy.divide')) for a in c.args[1:] for y in ast.walk(a))):
                continue
            cc = canon(V.close(fi, c, stmt_of(c)))
            b = pm_any(['np.divide(N_, D_, out=O_, where=W_)', 'np.divide(N_, D_, where=W_)', 'np.true_divide(N_, D_, out=O_, where=W_)',
                        'np.where(W_, N_ / D_, O_)', 'np.where(W_, np.divide(N_, D_), O_)'], cc)
            if b is None:
                # the quotient in the other arm: the division counts where the mask is false
                b = pm_any(['np.where(NW_, O_, N_ / D_)', 'np.where(NW_, O_, np.divide(N_, D_))'], cc)
                if b is not None:
                    b['W_'] = canon(ast.UnaryOp(op=ast.Invert(), operand=b['NW_']))
            if b is None:
                if nm.endswith('where'):
                    continue
                pend.put('C05-R7', fi, norm(c)[:60], (None, 'guarded division not recognised'))
                continue
            # a division guarded against an INFINITE denominator (the slope of a segment of constant latitude) is another
            # kind of guard than the zero test this rule is about: the values it yields are decided by R11
            fin = pm_any(['~np.isinf(X_)', 'np.isfinite(X_)', 'X_ != np.inf', 'np.abs(X_) != np.inf', 'np.abs(X_) < np.inf'], _unbroadcast(b['W_']))
            if fin is not None and same(_unbroadcast(fin['X_']), _unbroadcast(b['D_'])):
                ctx.ob('C05-R7', fi, f'np.divide(…, {show(b["D_"], 40)}, where={show(b["W_"], 50)})', True,
                       'guarded on the finiteness of the denominator (not a zero test): the quotients are decided by R11', line=c.lineno,
                       nontrivial=False)
                continue
            ndiv += 1
            nline += fi.qualname == 'calculate_line_parameters' or fi.qualname == HZ_FN
            nonneg = mentions(b['D_'], lambda x: isinstance(x, ast.Call) and call_name(x) == DIST_FN) and \
                pm_any([f'{DIST_FN}(A_, B_, C_, D_)', f'np.repeat({DIST_FN}(A_, B_, C_, D_), R_)'], b['D_']) is not None
            pend.put('C05-R7', fi, f'np.divide(…, {show(b["D_"], 40)}, where={show(b["W_"], 50)})',
                     guard_verdict(b['W_'], b['D_'], b['N_'], nonneg=nonneg, O=b.get('O_')), line=c.lineno)
    ctx.floor('C05-R7', ndiv, 1, 'guarded divisions in grid.py')
    ctx.floor('C05-R7/line', nline, 1, 'guarded division in the line parameters of the segments')
    pend.flush()


def hz_leaves(ctx, m, rule):
    """[(role, closed canonical value)] of the arrays the horizontal intersection returns"""
    V = grid_values(ctx)
    hz = m.func(HZ_FN)
    view = V.view(hz)
    shape = V._result_shape(hz)
    rets = view.returns()
    if shape is None or len(rets) != 1:
        ctx.undecided(rule, hz, 'return', 'the returned structure is not tuples / records of named arrays')

    def leaves(node, path=()):
        if isinstance(node, dict):
            for (i, f), sub in node.items():
                yield from leaves(sub, path + (i,))
        else:
            yield path, node
    key = '_hz_whole'
    if key not in ctx.__dict__:
        ctx.__dict__[key] = V.close(hz, rets[0].value, rets[0])
    whole = ctx.__dict__[key]
    out = []
    for path, name in leaves(shape):
        val = whole
        for step in path:
            val = V._select(val, step) if val is not None else None
        if val is None:
            ctx.undecided(rule, hz, f'returned array `{name}`', 'component not visible in the returned value')
        out.append((leaf_role(name), name, canon(val), rets[0]))
    return out


def rule_direction(ctx, m, rule):
    """C05-R5 / C04-R5: each coordinate array the horizontal intersection returns is [way-point | ordered intersection
    coordinates | next way-point] of ONE axis; the rows of intersection coordinates that are put in descending order
    (negate - sort - negate) are the segments along which that same coordinate DEcreases, read from the way-point
    coordinates themselves.  Reading the direction from the change of cell index loses the direction of a leg that
    stays inside one band.  Which array is which axis is decided by the returned array it flows into, not by its name."""
    V = grid_values(ctx)
    S = grid_states(ctx)
    hz = m.func(HZ_FN)
    pend = Pending(ctx)
    n = 0
    for role, name, val, ret in hz_leaves(ctx, m, rule):
        if role not in ('lat coordinate', 'lon coordinate'):
            continue
        axis = role.split()[0]
        coord = {'lat': 'lats', 'lon': 'lons'}[axis]
        other = {'lat': 'lons', 'lon': 'lats'}[axis]
        if is_mk(val, MUT):
            val = canon(V.plain_of(val))
        b = pm_any(['np.column_stack((C_[:-1], P_, C_[1:]))', 'np.hstack((C_[:-1, None], P_, C_[1:, None]))',
                    'np.concatenate((C_[:-1, None], P_, C_[1:, None]), axis=1)'], val)
        if b is None:
            # [X | points | Y] with X, Y plain slices of received arrays, but not way-point i and way-point i + 1 of one array
            b3 = pm_any(['np.column_stack((A_[SA_], P_, B_[SB_]))', 'np.hstack((A_[SA_, None], P_, B_[SB_, None]))'], val)
            if b3 is not None and all(isinstance(b3[k], ast.Name) and b3[k].id in hz.params for k in ('A_', 'B_')) and \
                    all(isinstance(b3[k], ast.Slice) for k in ('SA_', 'SB_')):
                pend.put(rule, hz, f'{role}s of the pieces start and end at the way-points',
                         (False, f'the pieces of a segment run from `{norm(b3["A_"])}[{norm(b3["SA_"])}]` to `{norm(b3["B_"])}[{norm(b3["SB_"])}]`, not '
                                 f'from way-point i to way-point i + 1 (`{coord}[:-1]` … `{coord}[1:]`): piece lengths and cells are wrong'),
                         line=ret.lineno)
                n += 2
                continue
            pend.put(rule, hz, f'returned {role} array', (None, f'`{show(val, 90)}` is not [way-point | intersection points | next way-point]'))
            continue
        c = strip_casts(b['C_'])
        pend.put(rule, hz, f'{role}s of the pieces start and end at the way-points',
                 (True, f'{coord}[:-1] … {coord}[1:]') if isinstance(c, ast.Name) and c.id == coord else
                 ((False, f'the {axis} coordinates of the piece end points are taken from `{show(c, 30)}`, not from `{coord}`')
                  if isinstance(c, ast.Name) and c.id in hz.params else (None, f'`{show(c, 50)}` is not recognised as `{coord}` as received')),
                 line=ret.lineno, nontrivial=False)
        # what the intersection coordinates hold, in-place alterations applied in order (see States): every negation step
        # NEG__(mask) in it is one half of a negate - sort - negate
        try:
            state = S.expand(b['P_'])
        except Undecided as e:
            pend.put(rule, hz, f'{axis} intersection coordinates', (None, str(e)))
            continue
        chains = {}
        for x in ast.walk(state):
            if is_mk(x, STEPS):
                chains.setdefault(ast.dump(x), x)
        negs = [st for ch in chains.values() for st in ch.args[1:] if is_mk(st, NEG)]
        # rows negated for the sort and never negated back keep the wrong sign
        unbalanced = False
        for ch in chains.values():
            kinds = ['N' if is_mk(st, NEG) else 'S' if is_mk(st, SORT) else '-' for st in ch.args[1:]]
            if 'S' in kinds and 'N' in kinds[:kinds.index('S')] and 'N' not in kinds[kinds.index('S'):]:
                first = next(st for st in ch.args[1:] if is_mk(st, NEG))
                unbalanced = True
                pend.put(rule, hz, f'{axis} intersection coordinates: negate - sort - negate', (False, (
                    f'the rows negated before the sort (`{show(first.args[0], 50)}`) are not negated back after it: on segments along which '
                    f'the {axis} coordinate decreases the intersection coordinates keep the wrong sign')), line=getattr(first, 'lineno', ret.lineno))
        nneg = 0
        for x in negs:
            mask = x.args[0].elts[0] if isinstance(x.args[0], ast.Tuple) and x.args[0].elts else x.args[0]
            nneg += 1
            M = canon(mask)
            bm = pm_any(['np.sign(np.diff(X_)) == -1', 'np.sign(np.diff(X_)) < 0', 'np.diff(X_) < 0', 'X_[1:] < X_[:-1]',
                         'X_[:-1] > X_[1:]', 'X_[1:] - X_[:-1] < 0', 'np.sign(X_[1:] - X_[:-1]) == -1',
                         'np.sign(X_[1:] - X_[:-1]) < 0', 'np.sign(np.diff(X_)) <= -1', 'np.less(np.diff(X_), 0)'], M)
            what = f'{axis} intersection coordinates: rows sorted descending where {show(M, 60, top=False)}'
            if bm is not None and isinstance(strip_casts(bm['X_']), ast.Name):
                got = strip_casts(bm['X_']).id
                verdict = (True, 'direction of travel along this axis, from the coordinates') if got == coord else \
                    ((False, f'the {axis} intersection coordinates are ordered by the direction of `{got}`, not of `{coord}`')
                     if got == other else (None, f'`{got}` is not recognised as the way-point {axis} coordinates'))
            elif pm_any(['np.sign(np.diff(X_)) == 1', 'np.sign(np.diff(X_)) > 0', 'np.diff(X_) > 0', 'X_[1:] > X_[:-1]', 'X_[:-1] < X_[1:]',
                         'X_[1:] - X_[:-1] > 0', 'np.sign(X_[1:] - X_[:-1]) == 1', 'np.sign(np.diff(X_)) >= 1'], M) is not None:
                verdict = (False, (f'the rows put in descending order are those along which the coordinate INcreases (`{show(M, 50)}`): '
                                   f'the {axis} intersection coordinates of every segment are ordered against the direction of travel'))
            elif mentions(M, lambda y: isinstance(y, ast.Call) and call_name(y).endswith('searchsorted')):
                verdict = (False, ('the ordering direction of the intersection points is not the sign of the coordinate difference '
                                   f'but is derived from cell indices (`{show(M, 70)}`): a leg that stays inside one {axis} band (index '
                                   'change 0) still has a direction; its intersection points get mis-ordered, its pieces zig-zag and '
                                   'its length fractions sum to more than one'))
            else:
                verdict = (None, f'direction mask `{show(M, 70)}` is not recognised')
            pend.put(rule, hz, what, verdict, line=getattr(x, 'lineno', ret.lineno))
        n += nneg + unbalanced
        if (nneg % 2 and not unbalanced) or not nneg:
            pend.put(rule, hz, f'{axis} intersection coordinates ordered along the segment',
                     (None, f'{nneg} negate-in-place statements found on the intersection coordinates (expected negate - sort - negate)'))
    ctx.floor(rule, n, 4, 'negate-sort-negate statements on the intersection coordinates')
    pend.flush()


FLAGS_FN = 'crosses_dateline'


def _is_flags(e):
    return isinstance(e, ast.Call) and call_name(e) == FLAGS_FN


def _only_flags(v):
    """closed value `v` is computed from the crossing flags and constants alone (a position / an element of the flags)"""
    class T(ast.NodeTransformer):
        def visit_Call(self, n):
            if _is_flags(n):
                return ast.Constant(value='FLAGS')
            self.generic_visit(n)
            return n
    from .c04 import tcopy
    w = T().visit(tcopy(v))
    return mentions(v, _is_flags) and not any(isinstance(x, ast.Name) and x.id not in ('np', 'numpy', 'int', 'operator', 'abs', 'bool')
                                              for x in ast.walk(w))


def _nonzero_test(t, allow_bare):
    """(ok, why): `t` is true exactly at the non-zero entries of a signed flags array (closed value)"""
    b = pm_any(['F_ != 0', 'np.abs(F_) > 0', 'np.abs(F_) != 0', 'np.abs(F_) == 1', 'np.abs(F_) >= 1', 'np.abs(F_)', 'F_.astype(bool)',
                'F_ ** 2', 'F_ * F_', 'np.square(F_)'], t)
    if b is not None and _is_flags(b['F_']):
        return True, 'non-zero flags'
    if _is_flags(t):
        if allow_bare:
            return True, 'non-zero flags'
        return False, ('the flags are signed (+1 for a westward, −1 for an eastward crossing): the position of their maximum / minimum is '
                       'the crossing segment for one direction only - for the other it is the first segment that does not cross, the '
                       'sign read there is 0 and the trajectory is split at the wrong segment')
    b = pm_any(['F_ > K_', 'F_ < K_', 'F_ == K_', 'F_ >= K_', 'F_ <= K_'], t)
    if b is not None and _is_flags(b['F_']) and const_value(b['K_']) is not None and not (
            const_value(b['K_']) == 0 and isinstance(t.ops[0], (ast.NotEq, ast.Eq))):
        return False, (f'`{show(t, 50)}` tests one crossing direction only (the flags are +1 westward, −1 eastward): a crossing in the '
                       'other direction is not found')
    return None, f'`{show(t, 60)}` is not recognised as a test for non-zero flags'


def crossing_index_verdict(e):
    """(ok, why) for a closed integer value derived from the crossing flags: it must be the position of the first
    NON-ZERO flag"""
    for _ in range(4):
        b = pm_any(['int(X_)', 'X_.item()', 'np.intp(X_)', 'np.int64(X_)', 'operator.index(X_)'], e)
        if b is None:
            break
        e = b['X_']
    b = pm_any(['np.where(T_)[0][0]', 'np.nonzero(T_)[0][0]', 'np.flatnonzero(T_)[0]', 'np.argwhere(T_)[0][0]', 'np.argwhere(T_)[0, 0]',
                'np.where(T_)[0].min()', 'np.flatnonzero(T_).min()', 'np.min(np.where(T_)[0])', 'np.min(np.flatnonzero(T_))',
                'np.where(T_)[0].item()', 'np.flatnonzero(T_).item()'], e)
    if b is not None:
        return _nonzero_test(b['T_'], True)
    b = pm('np.argmax(T_)', e)
    if b is not None:
        return _nonzero_test(b['T_'], False)
    b = pm('np.argmin(T_)', e)
    if b is not None and (_is_flags(b['T_']) or _nonzero_test(b['T_'], False)[0] is not None):
        return False, ('the position of the minimum of the flags is the crossing segment for an eastward crossing only (or never, for a '
                       'non-zero test): the trajectory is split at the wrong segment')
    return None, f'`{show(e, 70)}` is not recognised as the position of the first non-zero crossing flag'


def rule_crossing_index(ctx, m):
    """C05-R10: the segment at which an antimeridian-crossing trajectory is split is the position of the first NON-ZERO
    crossing flag (the flags are signed: +1 westward, −1 eastward), the crossing sign is the flag at that same position,
    and whole-array tests of the flags test `!= 0`."""
    V = grid_values(ctx)
    pend = Pending(ctx)
    flags_fn = m.functions.get(FLAGS_FN)
    if flags_fn is None:
        ctx.undecided('C05-R10', (GRID, FLAGS_FN), 'crossing flags', 'the function that computes the crossing flags is not found')
    # the flags are signed: sign(difference) × (|difference| > π)
    fv = V.view(flags_fn)
    signed = any(mentions(canon(V.close(flags_fn, r.value, r)), lambda x: isinstance(x, ast.Call) and call_name(x) == 'np.sign')
                 for r in fv.returns())
    ctx.ob('C05-R10', flags_fn, 'crossing flags are signed', True, 'sign(Δlon) × (|Δlon| > π)' if signed else 'unsigned flags',
           nontrivial=False)
    if not signed:
        return
    # parameters that receive the flags (one level up the call chain, repeated to a fixpoint)
    flag_params = {}
    for _ in range(3):
        for fi in m.functions.values():
            if '<locals>' in fi.qualname:
                continue
            sites = [(c_, call) for c_, call, callee_ in module_calls(ctx, m) if callee_ == fi]
            for p in fi.params:
                if not sites or (fi.qualname, p) in flag_params:
                    continue
                vals = []
                for caller, call in sites:
                    bind = _bind_args(fi, call)
                    if bind is None or p not in bind:
                        vals = None
                        break
                    vals.append(_flags_subst(canon(V.close(caller, bind[p], stmt_of(call))), caller, flag_params))
                if vals and all(_is_flags(v) for v in vals):
                    flag_params[(fi.qualname, p)] = vals[0]
    nidx = ntest = 0
    for fi in m.functions.values():
        if '<locals>' in fi.qualname or fi.qualname == FLAGS_FN:
            continue
        mine = {p for (q, p) in flag_params if q == fi.qualname}
        has_call = any(call_name(c) == FLAGS_FN for c in calls_in(fi.node))
        if not mine and not has_call:
            continue
        cl = lambda e, at: _flags_subst(canon(V.close(fi, e, at)), fi, flag_params)
        seen = set()
        # locals that (may) depend on the flags, by name: only expressions that mention one of them are closed
        tainted = set(mine)
        for _ in range(6):
            grew = False
            for t_, st_, how in stores_to(fi.node):
                v_ = getattr(st_, 'value', None)
                if v_ is None:
                    continue
                if (names_in(v_) & tainted) or any(isinstance(y, ast.Call) and call_name(y) == FLAGS_FN for y in ast.walk(v_)):
                    for nm_ in {y.id for y in ast.walk(t_) if isinstance(y, ast.Name)} - tainted:
                        tainted.add(nm_)
                        grew = True
            if not grew:
                break
        touches = lambda e: bool(names_in(e) & tainted) or any(isinstance(y, ast.Call) and call_name(y) == FLAGS_FN for y in ast.walk(e))
        local_calls = {id(c_): callee_ for caller_, c_, callee_ in module_calls(ctx, m) if caller_ == fi}

        def check_index(e, at, what):
            nonlocal nidx
            v = cl(e, at)
            for _ in range(3):
                b = pm('X_ + K_', v) or pm('X_ - K_', v)
                if b is not None and const_value(b['K_']) is not None:
                    v = b['X_']
            if not _only_flags(v) or ast.dump(v) in seen:
                return v
            seen.add(ast.dump(v))
            nidx += 1
            pend.put('C05-R10', fi, f'{what}: {norm(e)[:40]} = {show(v, 60, top=True)}', crossing_index_verdict(v), line=getattr(e, 'lineno', at.lineno))
            return v

        for x in walk_no_nested(fi.node):
            if isinstance(x, ast.stmt):
                continue
            at = stmt_of(x)
            if at is fi.node or at is None:
                continue        # defaults / annotations of the signature
            # (1) element reads / slices whose position is derived from the flags
            if isinstance(x, ast.Subscript) and isinstance(x.ctx, ast.Load) and touches(x.slice):
                base = cl(x.value, at)
                parts = [x.slice.lower, x.slice.upper] if isinstance(x.slice, ast.Slice) else \
                    ([] if isinstance(x.slice, ast.Tuple) else [x.slice])
                for ix in parts:
                    if ix is None or isinstance(ix, ast.Constant) or not touches(ix):
                        continue
                    v = cl(ix, at)
                    if is_mask(v) or not _only_flags(v):
                        continue
                    check_index(ix, at, 'crossing sign read at' if _is_flags(base) else f'position in {show(base, 20)}')
            # (2) arguments of calls into the module that are derived from the flags: the index and the sign agree
            if isinstance(x, ast.Call) and id(x) in local_calls:
                callee = local_calls[id(x)]
                if callee.qualname == FLAGS_FN:
                    continue
                idxs, signs = [], []
                for a in list(x.args) + [k.value for k in x.keywords]:
                    if not touches(a):
                        continue
                    v = cl(a, at)
                    if _is_flags(v) or not _only_flags(v) or is_mask(v):
                        continue
                    b = pm('F_[I_]', v)
                    if b is not None and _is_flags(b['F_']):
                        signs.append(b['I_'])
                    elif mentions(v, lambda y: isinstance(y, ast.Subscript) and _is_flags(y.value) and not isinstance(y.slice, ast.Slice)):
                        continue        # computed from the crossing sign (an element of the flags), not a position
                    else:
                        idxs.append(check_index(a, at, f'crossing position passed to {callee.name}'))
                for s_ in signs:
                    for i_ in idxs:
                        ok = same(s_, i_)
                        ctx.ob('C05-R10', fi, f'{callee.name}(…): sign read at the crossing position', ok,
                               'same position' if ok else
                               f'the crossing sign is read at `{show(s_, 40)}` but the trajectory is split at `{show(i_, 40)}`',
                               line=x.lineno, nontrivial=False)
            # (3) whole-array tests of the flags
            if isinstance(x, ast.Compare) and len(x.ops) == 1 and touches(x):
                l, r_ = cl(x.left, at), cl(x.comparators[0], at)
                whole = lambda y: _is_flags(y) or (pm('np.abs(F_)', y) is not None and _is_flags(pm('np.abs(F_)', y)['F_']))
                if whole(l) or whole(r_):
                    t = canon(ast.Compare(left=l, ops=x.ops, comparators=[r_]))
                    ok, why = _nonzero_test(t, True)
                    if isinstance(t.ops[0], ast.Eq) and const_value(t.comparators[0]) == 0:
                        ok, why = True, 'zero flags'
                    ntest += 1
                    pend.put('C05-R10', fi, f'test of the crossing flags: {show(t, 50)}', (ok, why), line=x.lineno, nontrivial=False)
    ctx.floor('C05-R10', nidx, 1, 'positions derived from the crossing flags')
    ctx.rules_run.setdefault('C05-R10/tests', {})['found'] = ntest
    one_way = canon(ast.parse(f'{FLAGS_FN}(a, b) > 0', mode='eval').body)
    ctx.control('C05-R10', _nonzero_test(one_way, True)[0] is False, 'embedded `flags > 0` is recognised as a one-direction test')
    pend.flush()


def _flags_subst(v, fi, flag_params):
    """closed value with the parameters of `fi` that receive crossing flags replaced by the flags they receive"""
    mine = {p: val for (q, p), val in flag_params.items() if q == fi.qualname}
    if not mine:
        return v
    from .c04 import _subst
    return _subst(v, mine)

# ---------------------------------------------------------------------------------------------------------------
# State values.  c04.Values leaves a local that is altered in place opaque (MUT__).  `States` replaces every such
# node by what the local HOLDS at the point of use:
#     STEPS__(base, step, ...)     the value it was bound to, then the alterations that reach the use, in order
#     LFILL__('key')               an array that is (also) written inside a loop the binding is not part of - an atom;
#                                  its build (base, steps) is kept in `States.fills[key]`
# a step is one of
#     SET__(index, value)          local[index] = value
#     NEG__(mask)                  local[mask] = -local[mask]            (any spelling of the negation)
#     SORT__(args...)              local.sort(args...)
#     AUG__(op, value)             local op= value      /  SETAUG__(index, op, value)   local[index] op= value
#     METH__('name', args...)      any other mutating method
#     IF__(test, step)             the alteration is made under an `if` (test negated for the else arm)
#     FOR__(target, iter, step)    the alteration is made inside a `for` loop
# with every index / value / test closed the same way at its own statement (PREV__ = the local itself just before the
# step).  `if …: continue / break` guards inside a loop body are not represented.
# ---------------------------------------------------------------------------------------------------------------
STEPS, LFILL, PREV, SET, NEG, SORT, AUG, SETAUG, METH, IFS, FOR = (
    'STEPS__', 'LFILL__', 'PREV__', 'SET__', 'NEG__', 'SORT__', 'AUG__', 'SETAUG__', 'METH__', 'IF__', 'FOR__')


def _loops_of(st, stop):
    """the loop statements around `st` inside function node `stop`, innermost first"""
    from ..astutil import ancestors
    out = []
    for a in ancestors(st):
        if a is stop:
            break
        if isinstance(a, (ast.For, ast.AsyncFor, ast.While)):
            out.append(a)
    return out


class States:
    def __init__(self, V):
        self.V = V
        self.fills = {}
        self._memo = {}
        self._busy = set()

    def value(self, fi, e, at, stack=()):
        return self.expand(canon(self.V.close(fi, e, at, frozenset(), stack)))

    def expand(self, e, me=None):
        """copy of closed value `e` with every MUT__ node replaced by the state of that local; `me` = (function node, local,
        ids of the statements that made its present state | None): references to that state of the local become PREV__"""
        S, V = self, self.V

        class T(ast.NodeTransformer):
            def visit_Call(self, n):
                if is_mk(n, MUT):
                    fi, name, ds2, _ = V._muts[n.args[0].value]
                    if me is not None and fi.node is me[0] and name == me[1] and (me[2] is None or {id(d) for d in ds2} == me[2]):
                        return ast.Name(id=PREV, ctx=ast.Load())
                    return tcopy(S._state(n.args[0].value))
                self.generic_visit(n)
                return n
        return T().visit(tcopy(e))

    def _state(self, key):
        if key in self._memo:
            return self._memo[key]
        if key in self._busy:
            raise Undecided(f'`{key.split("@")[0]}` is altered in terms of itself in a way that is not followed')
        self._busy.add(key)
        try:
            out = self._build(key)
        finally:
            self._busy.discard(key)
        self._memo[key] = out
        return out

    def _build(self, key):
        V = self.V
        fi, name, ds, stack = V._muts[key]
        view = V.view(fi)
        binds = [d for d in ds if V._binds(d, name) is not None]
        alters = [d for d in ds if V._binds(d, name) is None]
        if not alters:
            raise Undecided(f'`{name}` is altered in place through another name')
        if not binds and name in view.params:
            base, bind_at = ast.Name(id=name, ctx=ast.Load()), None
        elif len(binds) == 1 and V._binds(binds[0], name) is True and not (name in view.params and view.entry_reaches(alters[0], name)):
            bind_at = binds[0]
            base = self.expand(canon(V._bound_value(fi, name, bind_at, stack, 0)))
        else:
            raise Undecided(f'`{name}` is altered in place after {len(binds)} different bindings')
        lb = _loops_of(bind_at, fi.node) if bind_at is not None else []
        # bound to a sorted copy / to another altered array: the same chain of steps, continued
        raw_base, pre = base, []
        b = pm_any(['np.sort(Y_)', 'np.sort(Y_, axis=A_)', 'np.sort(Y_, A_)'], base)
        if b is not None and is_mk(b['Y_'], STEPS):
            srt = _mk(SORT)
            if 'A_' in b:
                srt.keywords = [ast.keyword(arg='axis', value=b['A_'])]
            base, pre = b['Y_'], [srt]
        if is_mk(base, STEPS):
            base, pre = base.args[0], list(base.args[1:]) + pre
        steps, looped = list(pre), False
        for st in alters:
            ls = _loops_of(st, fi.node)
            extra = ls[:len(ls) - len(lb)] if len(ls) >= len(lb) else None
            if extra is None or any(x is not y for x, y in zip(ls[len(extra):], lb)) or \
                    (bind_at is not None and (st.lineno, st.col_offset) < (bind_at.lineno, bind_at.col_offset)):
                raise Undecided(f'`{name}`: the alteration at line {st.lineno} is not in the scope of its binding')
            prev = None if (looped or extra) else (raw_base if st is alters[0] else (_mk(STEPS, base, *steps) if steps else base))
            prior = None if prev is None else {id(d) for d in binds + alters[:alters.index(st)]}
            s = self._step(fi, name, st, stack, prev, extra[0] if extra else (lb[0] if lb else fi.node), prior, bind_at)
            for L in extra:
                if not isinstance(L, ast.For) or L.orelse:
                    raise Undecided(f'`{name}` is altered inside a loop at line {L.lineno} that is not a plain `for`')
                it = self.expand(canon(V.close(fi, L.iter, L, frozenset(), stack)), (fi.node, name, None))
                while isinstance(it, ast.Subscript) and is_mask(it.slice):
                    it = it.value       # a filtered iteration is a skip guard (not represented, like `if …: continue`)
                s = _mk(FOR, self._load(L.target), it, s)
            looped = looped or bool(extra)
            steps.append(s)
        base, steps = self._allocated(base, steps)
        if looped:
            self.fills[key] = {'fi': fi, 'name': name, 'base': base, 'steps': steps, 'line': (bind_at or alters[0]).lineno}
            return _mk(LFILL, ast.Constant(key))
        out = self._functional(base, steps)
        if out is None:
            out = _mk(STEPS, base, *steps) if steps else base
        if not isinstance(out, (ast.Name, ast.Constant)):
            out._nm = name
        return out

    @staticmethod
    def _allocated(base, steps):
        """np.empty(shape) filled as a whole with one value is np.full(shape, value)"""
        if steps and is_mk(steps[0], SET):
            idx, val = steps[0].args
            whole = (isinstance(idx, ast.Slice) and idx.lower is None and idx.upper is None and idx.step is None) or \
                (isinstance(idx, ast.Constant) and idx.value is Ellipsis)
            b = pm_any(['np.empty(S_)', 'np.empty(S_, dtype=T_)', 'np.empty(S_, T_)', 'np.zeros(S_)', 'np.zeros(S_, dtype=T_)',
                        'np.ones(S_)', 'np.ones(S_, dtype=T_)'], base)
            if whole and b is not None and not mentions(val, lambda x: isinstance(x, ast.Name) and x.id == PREV) and \
                    (b.get('T_') is not None or norm(val) in ('np.nan', 'np.inf', '-np.inf') or isinstance(const_value(val), float)):
                full = ast.Call(func=ast.parse('np.full', mode='eval').body, args=[b['S_'], val],
                                keywords=[ast.keyword(arg='dtype', value=b['T_'])] if b.get('T_') is not None else [])
                return full, steps[1:]
        return base, steps

    @staticmethod
    def _functional(base, steps):
        """the value as an expression when every alteration has a functional reading: `x op= v` is `x op v`, `x.sort(…)` is
        `np.sort(x, …)`, an alteration under `if t` is `new if t else old` (both arms of one test merged); None otherwise"""
        def with_prev(e, cur):
            class P(ast.NodeTransformer):
                def visit_Name(self, n):
                    return tcopy(cur) if n.id == PREV else n
            return P().visit(tcopy(e))

        def apply(s, cur):
            if is_mk(s, AUG):
                op = getattr(ast, s.args[0].value, None)
                return ast.BinOp(left=cur, op=op(), right=with_prev(s.args[1], cur)) if op is not None else None
            if is_mk(s, SORT):
                return ast.Call(func=ast.parse('np.sort', mode='eval').body, args=[cur] + [with_prev(a, cur) for a in s.args],
                                keywords=[ast.keyword(arg=k.arg, value=with_prev(k.value, cur)) for k in s.keywords])
            if is_mk(s, IFS):
                if mentions(s.args[0], lambda x: isinstance(x, ast.Name) and x.id == PREV):
                    return None
                new = apply(s.args[1], cur)
                return None if new is None else ast.IfExp(test=s.args[0], body=new, orelse=cur)
            return None

        def assume(e, test, truth):
            """`e` where conditional expressions on `test` (or its negation) are resolved, `test` being `truth`"""
            td = ast.dump(test)
            nd = ast.dump(canon(ast.UnaryOp(op=ast.Not(), operand=tcopy(test))))

            class R(ast.NodeTransformer):
                def visit_IfExp(self, n):
                    d = ast.dump(n.test)
                    if d == td:
                        return self.visit(n.body if truth else n.orelse)
                    if d == nd:
                        return self.visit(n.orelse if truth else n.body)
                    return self.generic_visit(n)
            return R().visit(tcopy(e))
        cur = base
        for s in steps:
            cur = apply(s, cur)
            if cur is None:
                return None
            if isinstance(cur, ast.IfExp):
                t = cur.test
                if isinstance(t, ast.UnaryOp) and isinstance(t.op, ast.Not):
                    cur = ast.IfExp(test=t.operand, body=cur.orelse, orelse=cur.body)
                cur = ast.IfExp(test=cur.test, body=assume(cur.body, cur.test, True), orelse=assume(cur.orelse, cur.test, False))
        return canon(cur)

    @staticmethod
    def _load(t):
        t = tcopy(t)
        for x in ast.walk(t):
            if hasattr(x, 'ctx'):
                x.ctx = ast.Load()
        return t

    def _step(self, fi, name, st, stack, prev, stop, prior, bind_at=None):
        from ..astutil import guards_of
        V = self.V
        pd = ast.dump(prev) if prev is not None else None

        def cl(e):
            v = self.expand(canon(V.close(fi, e, st, frozenset(), stack)), (fi.node, name, prior))
            if pd is None:
                return v

            class P(ast.NodeTransformer):
                def visit(self, n):
                    if isinstance(n, ast.expr) and ast.dump(n) == pd:
                        return ast.Name(id=PREV, ctx=ast.Load())
                    return self.generic_visit(n)
            return P().visit(v)

        is_me = lambda e: isinstance(e, ast.Name) and e.id == name
        s = None
        if isinstance(st, ast.Assign) and len(st.targets) == 1 and isinstance(st.targets[0], ast.Subscript) and is_me(st.targets[0].value):
            idx, val = cl(st.targets[0].slice), cl(st.value)
            b = pm_any(['-P_[M_]', 'P_[M_] * -1', 'np.negative(P_[M_])', '0 - P_[M_]'], val)
            if b is not None and isinstance(b['P_'], ast.Name) and b['P_'].id == PREV and same(b['M_'], idx):
                s = _mk(NEG, idx)
            else:
                s = _mk(SET, idx, val)
        elif isinstance(st, ast.AugAssign):
            op = ast.Constant(type(st.op).__name__)
            if is_me(st.target):
                s = _mk(AUG, op, cl(st.value))
            elif isinstance(st.target, ast.Subscript) and is_me(st.target.value):
                idx, val = cl(st.target.slice), cl(st.value)
                s = _mk(NEG, idx) if op.value == 'Mult' and const_value(val) == -1 else _mk(SETAUG, idx, op, val)
        elif isinstance(st, ast.Expr) and isinstance(st.value, ast.Call) and isinstance(st.value.func, ast.Attribute) and is_me(st.value.func.value):
            c = st.value
            if not any(isinstance(a, ast.Starred) for a in c.args) and all(k.arg for k in c.keywords):
                if c.func.attr == 'fill' and len(c.args) == 1 and not c.keywords:
                    s = _mk(SET, ast.Slice(lower=None, upper=None, step=None), cl(c.args[0]))
                else:
                    s = _mk(SORT) if c.func.attr == 'sort' else _mk(METH, ast.Constant(c.func.attr))
                    s.args += [cl(a) for a in c.args]
                    s.keywords = [ast.keyword(arg=k.arg, value=cl(k.value)) for k in c.keywords]
        if s is None:
            raise Undecided(f'the in-place alteration `{norm(st)[:70]}` of `{name}` is not modelled')
        shared = {(id(owner), pol) for _, pol, owner in guards_of(bind_at, stop=stop)} if bind_at is not None else set()
        for test, pol, owner in guards_of(st, stop=stop):
            if (id(owner), pol) in shared:
                continue        # the binding is made under the same condition
            if not isinstance(owner, ast.If):
                raise Undecided(f'`{name}` is altered under `{norm(test)[:40]}`, which is not an if statement')
            t = cl(test)
            s = _mk(IFS, t if pol else canon(ast.UnaryOp(op=ast.Not(), operand=t)), s)
        s.lineno = st.lineno
        return s


# ---------------------------------------------------------------------------------------------------------------
# Mirror comparison of two state values under the exchange σ: the two received coordinate arrays, the grid's
# latitude / longitude axis and the loop-filled per-axis arrays (paired one-to-one as they are met; σ is an
# involution).  `diff(a, b)` is None when σ(a) is b, else (kind, text, a-part, b-part) for the first difference:
#     'asym'     a recognised asymmetry - a coordinate / axis / per-axis array / loop variable / numeric constant that
#                is not the mirror image, or a different number of in-place alteration steps
#     'unknown'  the two sides are written differently (other function, other shape) and the values are not shown equal
# + * & | match in either order; differently written arithmetic is compared by rational normal form; inside
# len(·) / ·.shape[0] (and ·.size / ·.shape of values without per-axis arrays) either side's own array is as good as
# its mirror image (both have the same length); axis=-1 is axis=1.
# ---------------------------------------------------------------------------------------------------------------
def patched_as_where(e):
    """`x = Q; x[mask] = c` (state value STEPS__(Q, SET__(mask, c), ...) with boolean masks and constant values) read as
    the expression np.where(mask, c, Q); None when `e` is not of that form"""
    if not is_mk(e, STEPS):
        return None
    cur = e.args[0]
    for st in e.args[1:]:
        if not (is_mk(st, SET) and is_mask(st.args[0]) and (const_value(st.args[1]) is not None or norm(st.args[1]) in ('np.nan', 'np.inf'))):
            return None
        cur = ast.Call(func=ast.parse('np.where', mode='eval').body, args=[st.args[0], st.args[1], cur], keywords=[])
    return canon(cur)


def grid_states(ctx):
    """the state values over grid_values(ctx), computed once per run"""
    st = ctx.__dict__.get('_grid_states')
    if st is None:
        st = ctx._grid_states = States(grid_values(ctx))
    return st


class Mirror:
    SWAP = {'grid_latitudes': 'grid_longitudes', 'grid_longitudes': 'grid_latitudes'}
    _MARKERS = (STEPS, LFILL, PREV, SET, NEG, SORT, AUG, SETAUG, METH, IFS, FOR)

    def __init__(self, fi, coords):
        self.params = set(fi.params)
        self.pinv = {coords[0]: coords[1], coords[1]: coords[0]}
        self.coords = tuple(coords)
        self.exempt = []
        self.pair = {}
        self.ren, self.rev = {}, {}
        self.where = []

    # -- bookkeeping for back-tracking
    def _snap(self):
        return dict(self.pinv), dict(self.pair), dict(self.ren), dict(self.rev)

    def _restore(self, s):
        self.pinv, self.pair, self.ren, self.rev = (dict(x) for x in s)

    def _bind(self, ta, tb):
        """loop / comprehension targets stand for each other"""
        na = [x.id for x in ast.walk(ta) if isinstance(x, ast.Name)]
        nb = [x.id for x in ast.walk(tb) if isinstance(x, ast.Name)]
        if len(na) != len(nb):
            return ('unknown', 'loop targets of different shape', ta, tb)
        for x, y in zip(na, nb):
            self.ren[x] = y
            self.rev[y] = x
        return None

    @staticmethod
    def _size_of(e):
        b = pm_any(['len(X_)', 'X_.shape[0]', 'np.shape(X_)[0]'], e)
        if b is not None:
            return 'len', b['X_']
        b = pm_any(['X_.size', 'np.size(X_)', 'X_.shape', 'np.shape(X_)'], e)
        if b is not None and not (isinstance(b['X_'], ast.Name) and b['X_'].id in ('np', 'self')):
            return 'size', b['X_']
        return None

    def sigma(self, a):
        """σ(a) as a tree (pairs / involutions found so far)"""
        M = self

        class T(ast.NodeTransformer):
            def visit_Name(self, n):
                return ast.Name(id=M.pinv.get(n.id, M.ren.get(n.id, n.id)), ctx=ast.Load())

            def visit_Attribute(self, n):
                self.generic_visit(n)
                if isinstance(n.value, ast.Name) and n.value.id == 'self':
                    n.attr = M.SWAP.get(n.attr, n.attr)
                return n

            def visit_Call(self, n):
                if is_mk(n, LFILL):
                    return _mk(LFILL, ast.Constant(M.pair.get(n.args[0].value, n.args[0].value)))
                self.generic_visit(n)
                return n
        return T().visit(tcopy(a))

    def _algebra(self, a, b):
        """True: σ(a) and b are the same rational expression; False: different expressions of the same quantities; None: not
        comparable as arithmetic"""
        arith = lambda x: isinstance(x, ast.BinOp) and isinstance(x.op, (ast.Add, ast.Sub, ast.Mult, ast.Div, ast.Pow)) or \
            (isinstance(x, ast.UnaryOp) and isinstance(x.op, (ast.USub, ast.UAdd)))
        if not (arith(a) or arith(b)):
            return None
        try:
            ra, rb = normal_form(self.sigma(a), {}), normal_form(b, {})
            if poly_equal(ra, rb):
                return True
            return False if ra.atoms() == rb.atoms() and ra.atoms() else None
        except (AlgebraError, RecursionError, ValueError, TypeError, ZeroDivisionError):
            return None

    def _algebra_equal(self, a, b):
        return self._algebra(a, b) is True

    def _arith_verdict(self, a, b, d):
        r = self._algebra(a, b)
        if r is True:
            return None
        if r is False:
            return ('asym', 'a different expression of the same quantities', a, b)
        return d

    _STRUCTURAL = {'np.column_stack', 'np.hstack', 'np.vstack', 'np.dstack', 'np.stack', 'np.concatenate', 'np.sort', 'np.argsort', 'np.unique',
                   'np.searchsorted', 'np.digitize', 'np.cumsum', 'np.delete', 'np.insert', 'np.append', 'np.diff', 'np.sum', 'np.all', 'np.any',
                   'np.count_nonzero', 'np.max', 'np.min', 'np.argmax', 'np.argmin', 'np.nonzero', 'np.flatnonzero'}

    def line_valued(self, e):
        """`e` is one number per crossing, computed element-wise from BOTH received coordinates (through the parameters of
        the line through the way-points): it solves lon = slope * lat + intercept for one or the other coordinate, and its
        counterpart solves it for the other - no mirror images by nature.  Arrays that are assembled (stacked, sorted,
        negated in place, reduced) are not such values, nor are boolean masks."""
        if e is None or is_mask(e) or not isinstance(e, ast.expr):
            return False
        direct = set()
        for x in self._value_nodes(e):
            if isinstance(x, ast.Name) and x.id in self.coords:
                direct.add(x.id)
            if isinstance(x, ast.Call):
                if any(is_mk(x, mk) for mk in (NEG, SORT, METH, FOR)) or (call_name(x) in self._STRUCTURAL and not self._is_coord_diff(x)):
                    return False
        return direct == set(self.coords)

    @staticmethod
    def _value_nodes(e):
        """the nodes of `e` that make up the VALUES of its elements: what selects elements (subscript indices, the condition
        of np.where, where=, the index of an in-place store, the test an alteration is made under) is left out"""
        stack = [e]
        while stack:
            x = stack.pop()
            yield x
            if isinstance(x, ast.Subscript):
                stack.append(x.value)
            elif isinstance(x, ast.Call) and call_name(x) == 'np.where' and len(x.args) == 3:
                stack += x.args[1:]
            elif is_mk(x, SET) or is_mk(x, IFS):
                stack += x.args[1:]
            elif is_mk(x, SETAUG):
                stack += x.args[2:]
            elif isinstance(x, ast.Call):
                stack += [x.func] + list(x.args) + [k.value for k in x.keywords if k.arg != 'where']
            else:
                stack += list(ast.iter_child_nodes(x))

    def _is_coord_diff(self, c):
        return call_name(c) == 'np.diff' and len(c.args) == 1 and isinstance(c.args[0], ast.Name) and c.args[0].id in self.coords

    def diff(self, a, b):
        nm = getattr(b, '_nm', None)
        if nm:
            self.where.append(nm)
        try:
            snap = self._snap()
            d = self._diff(a, b)
            if d is not None and self.line_valued(a) and self.line_valued(b):
                self._restore(snap)
                if not any(x is a for x, _ in self.exempt):
                    self.exempt.append((a, b))
                return None
            if d is not None and len(d) == 4:
                d = d + (' → '.join(self.where[-4:]) if self.where else None,)
            return d
        finally:
            if nm:
                self.where.pop()

    def _seq(self, xs, ys, what):
        if len(xs) != len(ys):
            return ('unknown', f'{what}: {len(xs)} on one side, {len(ys)} on the other', None, None)
        for x, y in zip(xs, ys):
            d = self.diff(x, y)
            if d is not None:
                return d
        return None

    def _diff(self, a, b):
        if a is None or b is None:
            return None if a is b else ('unknown', 'one side has a part the other has not', a, b)
        sa_, sb_ = self._size_of(a), self._size_of(b)
        if sa_ is not None and sb_ is not None and (sa_[0] == sb_[0]):
            if same(sa_[1], sb_[1]) and (sa_[0] == 'len' or not mentions(sa_[1], lambda x: is_mk(x, LFILL))):
                return None
            return self.diff(sa_[1], sb_[1])
        if is_mk(a, LFILL) or is_mk(b, LFILL):
            if not (is_mk(a, LFILL) and is_mk(b, LFILL)):
                return ('unknown', 'an array filled in a loop on one side only', a, b)
            ka, kb = a.args[0].value, b.args[0].value
            if self.pair.get(ka, kb) != kb or self.pair.get(kb, ka) != ka:
                want = self.pair.get(ka) or next((k for k, v in self.pair.items() if v == kb), None)
                return ('asym', f'`{kb.split("@")[0]}` is used where the mirror image of `{ka.split("@")[0]}` is ' +
                        (f'`{self.pair[ka].split("@")[0]}`' if ka in self.pair else f'not it (it is the mirror image of `{self.pair[kb].split("@")[0]}`)'),
                        a, b)
            self.pair[ka], self.pair[kb] = kb, ka
            return None
        if is_mk(a, STEPS) != is_mk(b, STEPS):
            # an array that is altered in place on one side only: the value bound, then no steps
            A, B = (a.args if is_mk(a, STEPS) else [a]), (b.args if is_mk(b, STEPS) else [b])
            return self.diff(A[0], B[0]) or self.steps(A[1:], B[1:], f'`{getattr(b, "_nm", None) or show(B[0], 40)}`')
        ca, cb = const_value(a), const_value(b)
        if ca is not None and cb is not None and not isinstance(ca, (str, bytes)) and not isinstance(cb, (str, bytes)):
            return None if ca == cb and isinstance(ca, bool) == isinstance(cb, bool) else \
                ('asym', f'the constant {cb!r} where the other side has {ca!r}', a, b)
        if type(a) is not type(b):
            return self._arith_verdict(a, b, ('unknown', 'the two sides are written differently', a, b))
        if isinstance(a, ast.Constant):
            return None if a.value == b.value and type(a.value) is type(b.value) else ('unknown', 'different constants', a, b)
        if isinstance(a, ast.Name):
            if a.id in self.ren or b.id in self.rev:
                return None if self.ren.get(a.id) == b.id and self.rev.get(b.id) == a.id else \
                    ('asym', f'the loop variable `{b.id}` where `{self.ren.get(a.id, "?")}` stands for `{a.id}` of the other side', a, b)
            if a.id in self.pinv or b.id in self.pinv or (a.id in self.params and b.id in self.params):
                if a.id not in self.pinv and b.id not in self.pinv:
                    self.pinv[a.id], self.pinv[b.id] = b.id, a.id
                return None if self.pinv.get(a.id) == b.id else \
                    ('asym', f'`{b.id}` where the mirror image of `{a.id}` is `{self.pinv.get(a.id, "?")}`', a, b)
            return None if a.id == b.id else ('unknown', f'`{a.id}` on one side, `{b.id}` on the other', a, b)
        if isinstance(a, ast.Attribute):
            if isinstance(a.value, ast.Name) and a.value.id == 'self' and isinstance(b.value, ast.Name) and b.value.id == 'self' and \
                    (a.attr in self.SWAP or b.attr in self.SWAP):
                return None if self.SWAP.get(a.attr) == b.attr else \
                    ('asym', f'`self.{b.attr}` where the mirror image of `self.{a.attr}` is `self.{self.SWAP.get(a.attr, a.attr)}`', a, b)
            if a.attr != b.attr:
                return ('unknown', f'`.{a.attr}` on one side, `.{b.attr}` on the other', a, b)
            return self.diff(a.value, b.value)
        if isinstance(a, ast.BinOp):
            if type(a.op) is type(b.op):
                snap = self._snap()
                d = self.diff(a.left, b.left) or self.diff(a.right, b.right)
                if d is None:
                    return None
                if isinstance(a.op, (ast.Add, ast.Mult, ast.BitAnd, ast.BitOr)):
                    self._restore(snap)
                    d2 = self.diff(a.left, b.right) or self.diff(a.right, b.left)
                    if d2 is None:
                        return None
                self._restore(snap)
                if d[0] == 'asym':
                    return d
            else:
                d = ('unknown', 'different arithmetic', a, b)
            return self._arith_verdict(a, b, d)
        if isinstance(a, ast.UnaryOp):
            if type(a.op) is not type(b.op):
                return self._arith_verdict(a, b, ('unknown', 'different operators', a, b))
            return self.diff(a.operand, b.operand)
        if isinstance(a, ast.Slice):
            for f, dflt in (('lower', 0), ('upper', None), ('step', 1)):
                x, y = getattr(a, f), getattr(b, f)
                cx = dflt if x is None else const_value(x)
                cy = dflt if y is None else const_value(y)
                plain = lambda n, c: n is None or c is not None
                if plain(x, cx) and plain(y, cy):
                    if cx != cy:
                        return ('asym', f'the slice `{norm(b)}` where the other side has `{norm(a)}`', a, b)
                    continue
                if x is None or y is None:
                    return ('unknown', f'the slices `{norm(b)[:40]}` and `{norm(a)[:40]}` are written differently', a, b)
                d = self.diff(x, y)
                if d is not None:
                    return d
            return None
        if isinstance(a, ast.Compare):
            if [type(o) for o in a.ops] != [type(o) for o in b.ops]:
                return ('unknown', 'different comparisons', a, b)
            return self._seq([a.left] + a.comparators, [b.left] + b.comparators, 'comparison')
        if isinstance(a, ast.Call):
            if is_mk(a, STEPS) and is_mk(b, STEPS):
                d = self.diff(a.args[0], b.args[0])
                if d is not None:
                    return d
                return self.steps(a.args[1:], b.args[1:], show(b, 40))
            if is_mk(a, FOR) and is_mk(b, FOR):
                return self.diff(a.args[1], b.args[1]) or self._bind(a.args[0], b.args[0]) or self.diff(a.args[2], b.args[2])
            d = self.diff(a.func, b.func)
            if d is not None:
                return d if d[0] == 'asym' or not any(is_mk(x, mk) for x in (a, b) for mk in self._MARKERS) else \
                    ('unknown', 'a different kind of in-place alteration', a, b)
            ka, kb = {k.arg: k.value for k in a.keywords}, {k.arg: k.value for k in b.keywords}
            if len(a.args) != len(b.args) or set(ka) != set(kb):
                return ('unknown', 'the same function is called with different arguments', a, b)
            d = self._seq(a.args, b.args, 'arguments')
            if d is not None:
                return d
            for k in ka:
                if k == 'axis' and {const_value(ka[k]), const_value(kb[k])} == {1, -1}:
                    continue
                d = self.diff(ka[k], kb[k])
                if d is not None:
                    return d
            return None
        if isinstance(a, (ast.GeneratorExp, ast.ListComp, ast.SetComp)):
            if len(a.generators) != len(b.generators):
                return ('unknown', 'comprehensions of different shape', a, b)
            for g, h in zip(a.generators, b.generators):
                d = self.diff(g.iter, h.iter) or self._bind(g.target, h.target) or self._seq(g.ifs, h.ifs, 'filters')
                if d is not None:
                    return d
            return self.diff(a.elt, b.elt)
        if isinstance(a, ast.Lambda):
            return self._bind(ast.Tuple(elts=[ast.Name(id=x.arg, ctx=ast.Load()) for x in a.args.args], ctx=ast.Load()),
                              ast.Tuple(elts=[ast.Name(id=x.arg, ctx=ast.Load()) for x in b.args.args], ctx=ast.Load())) or \
                self.diff(a.body, b.body)
        for f in a._fields:
            if f == 'ctx':
                continue
            x, y = getattr(a, f, None), getattr(b, f, None)
            if isinstance(x, list) or isinstance(y, list):
                if not (isinstance(x, list) and isinstance(y, list)):
                    return ('unknown', 'the two sides are written differently', a, b)
                d = self._seq(x, y, type(a).__name__.lower() + ' parts')
                if d is not None:
                    return d if d[2] is not None else d[:2] + (a, b)
            elif isinstance(x, ast.AST) or isinstance(y, ast.AST):
                d = self.diff(x if isinstance(x, ast.AST) else None, y if isinstance(y, ast.AST) else None)
                if d is not None:
                    return d if d[2] is not None or d[3] is not None else d[:2] + (a, b)
            elif x != y:
                return ('unknown', 'the two sides are written differently', a, b)
        return None

    def steps(self, xs, ys, what, values=None):
        """two lists of in-place alteration steps are mirror images, step by step"""
        if len(xs) != len(ys):
            longer, n = (xs, 0) if len(xs) > len(ys) else (ys, 1)
            extra = longer[min(len(xs), len(ys))]
            return ('asym', f'{what} is altered in place {len(ys)} times, its counterpart {len(xs)} times '
                            f'(`{show(extra, 70)}` has no counterpart)', xs[-1] if xs else None, ys[-1] if ys else None)
        for x, y in zip(xs, ys):
            d = self.diff(x, y) if values is None else values(x, y)
            if d is not None:
                return d
        return None


def _describe(e, n=70):
    class T(ast.NodeTransformer):
        def visit_Call(self, c):
            if is_mk(c, LFILL):
                return ast.Name(id=f'<{c.args[0].value.split("@")[0]}>', ctx=ast.Load())
            if is_mk(c, STEPS):
                nm = getattr(c, '_nm', None)
                return ast.Name(id=f'<{nm or "array"}, altered in place>', ctx=ast.Load())
            self.generic_visit(c)
            return c
    try:
        return show(T().visit(tcopy(e)), n) if e is not None else '-'
    except Exception:
        return type(e).__name__


def rule_mirror(ctx, m):
    """C05-R6 on state values: the arrays the horizontal intersection returns come in latitude / longitude pairs (point
    coordinates, cell indices).  What a latitude-side array holds - with every local replaced by what it holds, helpers
    opened, in-place alterations applied in order - must be what its longitude-side counterpart holds under the exchange
    σ of the received coordinates (lats <-> lons), the grid axes (grid_latitudes <-> grid_longitudes) and the per-axis
    arrays filled in the loops over the crossed grid lines, paired one-to-one as they are met.  The loop-filled arrays
    themselves are compared in turn: allocation, iteration and the positions written always; the values written only
    when they are values of ONE axis (the crossing coordinates on the other axis solve lon = slope·lat + intercept for
    one or the other coordinate and are no mirror images by nature)."""
    V = grid_values(ctx)
    S = grid_states(ctx)
    hz = m.func(HZ_FN)
    coords = [p for p in hz.params if p not in ('self', 'cls')]
    if len(coords) != 2:
        ctx.undecided('C05-R6', hz, 'parameters', f'the horizontal intersection receives {coords}, not two coordinate arrays')
    leaves = hz_leaves(ctx, m, 'C05-R6')
    # pairs: the two leaves of each innermost pair of the returned structure; else by the role of the returned local
    shape = V._result_shape(hz)

    def inner_pairs(node):
        if isinstance(node, dict):
            subs = list(node.values())
            if len(subs) == 2 and not any(isinstance(x, dict) for x in subs):
                yield tuple(subs)
            else:
                for x in subs:
                    yield from inner_pairs(x)
    by_name = {name: (role, val) for role, name, val, ret in leaves}
    pairs = [p for p in inner_pairs(shape) if all(n in by_name for n in p)]
    if 2 * len(pairs) != len(leaves) or not pairs:
        pairs = []
        for kind in ('coordinate', 'index'):
            got = {role.split()[0]: name for role, name, val, ret in leaves if role and role.endswith(kind)}
            if set(got) == {'lat', 'lon'}:
                pairs.append((got['lat'], got['lon']))
    if 2 * len(pairs) != len(leaves) or not pairs:
        ctx.undecided('C05-R6', hz, 'returned arrays', 'the returned arrays are not recognised as latitude / longitude pairs')
    ret = leaves[0][3]
    M = Mirror(hz, coords)
    pend = Pending(ctx)

    def verdict(d, what_a, what_b):
        if d is None:
            return True, 'mirror images under lat <-> lon'
        kind, why, a, b = d[:4]
        inside = f' (in `{d[4]}`)' if len(d) > 4 and d[4] else ''
        txt = f'{why}{inside}: `{_describe(b)}` against `{_describe(a)}`'
        if kind == 'asym':
            return False, (f'latitude and longitude are treated differently - {what_b} is not what {what_a} is with latitude and '
                           f'longitude exchanged: {txt}')
        return None, f'{what_a} and {what_b} are written differently and are not shown to be mirror images: {txt}'

    def line_of(d, default):
        for x in (d[3], d[2]) if d is not None else ():
            if x is not None and getattr(x, 'lineno', None):
                return x.lineno
        return default

    n = 0
    for na, nb in pairs:
        va, vb = S.expand(by_name[na][1]), S.expand(by_name[nb][1])
        d = M.diff(va, vb)
        n += 1
        pend.put('C05-R6', hz, f'returned {na} ↔ {nb}', verdict(d, f'`{na}`', f'`{nb}`'), line=line_of(d, ret.lineno))
    # the loop-filled per-axis arrays that stand for each other
    done = set()
    nfill = 0
    for _ in range(6):
        todo = [(ka, kb) for ka, kb in sorted(M.pair.items()) if ka <= kb and (ka, kb) not in done]
        if not todo:
            break
        for ka, kb in todo:
            done.add((ka, kb))
            A, B = S.fills[ka], S.fills[kb]
            what_a, what_b = f'`{A["name"]}`', f'`{B["name"]}`'
            nfill += 1
            if ka == kb:
                what_b = f'`{B["name"]}` (used on both sides)'
            d = M.diff(A['base'], B['base'])

            def values(x, y):
                """steps of the fill loops: where and when always, the written value when it is a one-axis value"""
                ren, rev = dict(M.ren), dict(M.rev)
                try:
                    while is_mk(x, FOR) and is_mk(y, FOR):
                        dd = M.diff(x.args[1], y.args[1]) or M._bind(x.args[0], y.args[0])
                        if dd is not None:
                            return dd
                        x, y = x.args[2], y.args[2]
                    # a write made under an `if` on one side only: a skip guard like `if …: continue` (not compared)
                    depth = lambda z: 1 + depth(z.args[1]) if is_mk(z, IFS) else 0
                    while depth(x) > depth(y):
                        x = x.args[1]
                    while depth(y) > depth(x):
                        y = y.args[1]
                    while is_mk(x, IFS) and is_mk(y, IFS):
                        dd = M.diff(x.args[0], y.args[0])
                        if dd is not None:
                            return dd
                        x, y = x.args[1], y.args[1]
                    if is_mk(x, SET) and is_mk(y, SET):
                        dd = M.diff(x.args[0], y.args[0])
                        if dd is not None:
                            return dd
                        snap = M._snap()
                        dd = M.diff(x.args[1], y.args[1])
                        if dd is not None and any(set(coords) <= names_in(v) for v in (x.args[1], y.args[1])):
                            M._restore(snap)
                            ctx.ob('C05-R6', hz, f'{what_a} ↔ {what_b}: values written', True,
                                   'computed from both coordinates (the line through the way-points): no mirror image by nature, '
                                   'not compared', line=getattr(y, 'lineno', B['line']), nontrivial=False)
                            return None
                        return dd
                    return M.diff(x, y)
                finally:
                    M.ren, M.rev = ren, rev
            if d is None:
                d = M.steps(A['steps'], B['steps'], what_b, values)
            pend.put('C05-R6', hz, f'per-axis array {A["name"]} ↔ {B["name"]}', verdict(d, what_a, what_b), line=line_of(d, B['line']))
    seen_ex = set()
    for a, b in M.exempt:
        k = (_describe(a, 50), _describe(b, 50))
        if k not in seen_ex:
            seen_ex.add(k)
            ctx.ob('C05-R6', hz, f'{k[0]} ↔ {k[1]}', True, 'computed element-wise from both coordinates (the line through the way-points): '
                   'no mirror images by nature, not compared (see R11)', line=getattr(b, 'lineno', ret.lineno), nontrivial=False)
    ctx.rules_run.setdefault('C05-R6/fills', {})['found'] = nfill
    ctx.floor('C05-R6', n, 2, 'latitude / longitude pairs of returned arrays')
    # positive control: an exchanged coordinate is recognised
    ca, cb = (canon(ast.parse(t, mode='eval').body) for t in (f'np.sign(np.diff({coords[0]})) == -1', f'np.sign(np.diff({coords[0]})) == -1'))
    dctl = Mirror(hz, coords).diff(ca, cb)
    ctx.control('C05-R6', dctl is not None and dctl[0] == 'asym', 'embedded one-sided use of a coordinate is recognised as an asymmetry')
    pend.flush()


# ---------------------------------------------------------------------------------------------------------------
# R11.  The value of one element of an element-wise built array, on one KIND of segment, computed exactly (rationals;
# ±inf / nan as numpy has them).  A kind of segment is a sample of way-points: `oblique` (latitude and longitude both
# change) and `parallel` (constant latitude: Δlat = 0).  What the arrays of the program hold for that segment follows
# from the program itself - the line parameters are opened like any helper, so the slope of a parallel segment is
# whatever the default of the guarded division is - only the leaves are given: way-point i / i + 1 of the two
# received coordinates, a grid line of either axis.  Selections that depend on the kind of segment (a mask that
# evaluates: np.isinf(slope), Δlat == 0, ...) are applied; selections that do not (rows of one index change, column
# ranges, np.newaxis) leave the element's value alone.  Forms outside the list raise _NoVal (exit 2).
# ---------------------------------------------------------------------------------------------------------------
class _NoVal(Exception):
    pass


class _Absent(Exception):
    """the element is not selected on this kind of segment"""


_UNINIT = object()
_INF, _NAN = float('inf'), float('nan')
_TRANSPARENT = {'np.expand_dims', 'np.squeeze', 'np.asarray', 'np.asanyarray', 'np.array', 'np.ascontiguousarray', 'np.copy', 'np.atleast_1d',
                'np.atleast_2d', 'np.broadcast_to', 'np.reshape', 'np.tile', 'np.repeat', 'np.transpose', 'float', 'np.float64'}
_TRANSPARENT_METHODS = {'copy', 'reshape', 'astype', 'squeeze', 'transpose', 'view'}
_FINITENESS = ('np.isinf', 'np.isfinite', 'np.isnan', 'np.isposinf', 'np.isneginf')


def _arith(op, a, b):
    from fractions import Fraction
    if a is _UNINIT or b is _UNINIT or isinstance(a, bool) or isinstance(b, bool):
        raise _NoVal('arithmetic on a value that is not a number')
    if not isinstance(a, float) and not isinstance(b, float):
        if isinstance(op, ast.Div):
            if b == 0:
                return _NAN if a == 0 else (_INF if a > 0 else -_INF)
            return a / b
        if isinstance(op, ast.Add):
            return a + b
        if isinstance(op, ast.Sub):
            return a - b
        if isinstance(op, ast.Mult):
            return a * b
        if isinstance(op, ast.Pow) and b.denominator == 1 and abs(b) <= 8 and (a != 0 or b > 0):
            return a ** int(b)
        raise _NoVal(f'operator {type(op).__name__}')
    x, y = float(a), float(b)
    if isinstance(op, ast.Div):
        r = (_NAN if (x == 0 or x != x) else (_INF if x > 0 else -_INF)) if y == 0 else x / y
    elif isinstance(op, ast.Add):
        r = x + y
    elif isinstance(op, ast.Sub):
        r = x - y
    elif isinstance(op, ast.Mult):
        r = x * y
    else:
        raise _NoVal(f'operator {type(op).__name__}')
    if r != r or r in (_INF, -_INF):
        return r
    if r == 0:
        return Fraction(0)          # x / ±inf
    raise _NoVal('finite result of non-finite operands')


class RowEval:
    def __init__(self, S, coords, env):
        self.S = S
        self.lat, self.lon = coords
        self.env = env              # LAT0 DLAT LON0 DLON XLINE YLINE
        self.prev = []

    def waypoint(self, e):
        """value of `coords[:-1]` / `coords[1:]` / np.diff(coords) (also with np.newaxis), else None"""
        if isinstance(e, ast.Call) and call_name(e) == 'np.diff' and len(e.args) == 1 and not e.keywords and isinstance(e.args[0], ast.Name):
            return {self.lat: self.env['DLAT'], self.lon: self.env['DLON']}.get(e.args[0].id)
        if not (isinstance(e, ast.Subscript) and isinstance(e.value, ast.Name) and e.value.id in (self.lat, self.lon)):
            return None
        parts = e.slice.elts if isinstance(e.slice, ast.Tuple) else [e.slice]
        sl = [p for p in parts if isinstance(p, ast.Slice)]
        rest = [p for p in parts if not isinstance(p, ast.Slice)]
        if len(sl) != 1 or any(not (const_value(p) is None and isinstance(p, ast.Constant)) and norm(p) != 'np.newaxis' for p in rest) or sl[0].step is not None:
            return None
        lo, hi = sl[0].lower, sl[0].upper
        base, d = (self.env['LAT0'], self.env['DLAT']) if e.value.id == self.lat else (self.env['LON0'], self.env['DLON'])
        if lo is None and hi is not None and const_value(hi) == -1:
            return base
        if hi is None and lo is not None and const_value(lo) == 1:
            return base + d
        return None

    @staticmethod
    def _tests_finiteness(p):
        return mentions(p, lambda x: (isinstance(x, ast.Call) and call_name(x) in _FINITENESS) or
                        (isinstance(x, ast.Attribute) and norm(x) in ('np.inf', 'math.inf', 'np.nan', 'math.nan')))

    def selects(self, idx):
        """True / False: the index selects / drops the element by the kind of its segment; None: it does not depend on it"""
        parts = idx.elts if isinstance(idx, ast.Tuple) else [idx]
        out = None
        for p in parts:
            if isinstance(p, ast.Slice) or isinstance(p, ast.Constant) or norm(p) == 'np.newaxis':
                continue
            try:
                v = self.ev(p)
            except (_NoVal, _Absent):
                if self._tests_finiteness(p):
                    raise _NoVal(f'the selection `{show(p, 50)}` tests finiteness of a value that is not followed')
                continue
            if isinstance(v, bool):
                if not v:
                    return False
                out = True
        return out

    def ev(self, e):
        from fractions import Fraction
        w = self.waypoint(e)
        if w is not None:
            return w
        if isinstance(e, ast.Constant):
            if isinstance(e.value, bool):
                return e.value
            if isinstance(e.value, (int, float)):
                return Fraction(e.value) if e.value == e.value and e.value not in (_INF, -_INF) else float(e.value)
            raise _NoVal(f'constant {e.value!r}')
        if isinstance(e, ast.Name):
            if e.id == PREV and self.prev:
                return self.force(self.prev[-1])
            raise _NoVal(f'`{e.id}` is not a value of one segment')
        if isinstance(e, ast.Attribute):
            t = norm(e)
            if t in ('np.inf', 'math.inf'):
                return _INF
            if t in ('np.nan', 'math.nan'):
                return _NAN
            if t == 'self.grid_latitudes':
                return self.env['YLINE']
            if t == 'self.grid_longitudes':
                return self.env['XLINE']
            if e.attr == 'T':
                return self.ev(e.value)
            raise _NoVal(f'`{t[:40]}`')
        if isinstance(e, ast.Subscript):
            if self.selects(e.slice) is False:
                raise _Absent
            return self.ev(e.value)
        if isinstance(e, ast.UnaryOp):
            v = self.ev(e.operand)
            if isinstance(e.op, (ast.Invert, ast.Not)):
                if not isinstance(v, bool):
                    raise _NoVal('~ of a number')
                return not v
            if isinstance(v, bool) or v is _UNINIT:
                raise _NoVal('sign of a value that is not a number')
            return -v if isinstance(e.op, ast.USub) else v
        if isinstance(e, ast.BinOp):
            a, b = self.ev(e.left), self.ev(e.right)
            if isinstance(e.op, (ast.BitAnd, ast.BitOr, ast.BitXor)):
                if not (isinstance(a, bool) and isinstance(b, bool)):
                    raise _NoVal('& | ^ of numbers')
                return (a and b) if isinstance(e.op, ast.BitAnd) else (a or b) if isinstance(e.op, ast.BitOr) else (a != b)
            return _arith(e.op, a, b)
        if isinstance(e, ast.BoolOp):
            vals = [self.ev(x) for x in e.values]
            if not all(isinstance(x, bool) for x in vals):
                raise _NoVal('and / or of numbers')
            return all(vals) if isinstance(e.op, ast.And) else any(vals)
        if isinstance(e, ast.Compare):
            ops = {ast.Eq: lambda a, b: a == b, ast.NotEq: lambda a, b: a != b, ast.Lt: lambda a, b: a < b, ast.LtE: lambda a, b: a <= b,
                   ast.Gt: lambda a, b: a > b, ast.GtE: lambda a, b: a >= b}
            left = self.ev(e.left)
            for op, c in zip(e.ops, e.comparators):
                right = self.ev(c)
                if type(op) not in ops or left is _UNINIT or right is _UNINIT or isinstance(left, bool) != isinstance(right, bool):
                    raise _NoVal('comparison')
                if not ops[type(op)](left, right):
                    return False
                left = right
            return True
        if isinstance(e, ast.IfExp):
            try:
                t = self.ev(e.test)
            except _NoVal:
                a, b = self.ev(e.body), self.ev(e.orelse)
                if a == b:
                    return a
                raise
            if not isinstance(t, bool):
                raise _NoVal('condition that is a number')
            return self.ev(e.body if t else e.orelse)
        if isinstance(e, ast.Call):
            return self.call(e)
        raise _NoVal(f'`{show(e, 40)}` ({type(e).__name__})')

    def force(self, v):
        return self.ev(v[1]) if isinstance(v, tuple) and v and v[0] == 'lazy' else v

    def call(self, e):
        from fractions import Fraction
        nm = call_name(e)
        kw = {k.arg: k.value for k in e.keywords}
        if is_mk(e, STEPS):
            return self.force(self.steps(('lazy', e.args[0]), e.args[1:]))
        if is_mk(e, LFILL):
            info = self.S.fills[e.args[0].value]
            vals = []
            if pm_any(['np.full(S_, np.nan)', 'np.full(S_, np.nan, dtype=T_)', 'np.empty(S_)', 'np.empty(S_, dtype=T_)'], info['base']) is None:
                vals.append(self.ev(info['base']))
            for st in info['steps']:
                while is_mk(st, FOR) or is_mk(st, IFS):
                    st = st.args[2] if is_mk(st, FOR) else st.args[1]      # where / when a crossing is written: not the element's value
                if not is_mk(st, SET):
                    raise _NoVal(f'`{info["name"]}` is filled by `{show(st, 40)}`')
                try:
                    if self.selects(st.args[0]) is not False:
                        vals.append(self.ev(st.args[1]))
                except _Absent:
                    pass
            if not vals:
                raise _Absent
            if any(v != vals[0] and not (v != v and vals[0] != vals[0]) for v in vals[1:]):
                raise _NoVal(f'`{info["name"]}` is written with different values')
            return vals[0]
        if is_mk(e, 'ALT__'):
            vals = [self.ev(x) for x in e.args]
            if any(v != vals[0] for v in vals[1:]):
                raise _NoVal('alternatives with different values')
            return vals[0]
        if nm in _TRANSPARENT and e.args:
            return self.ev(e.args[0])
        if isinstance(e.func, ast.Attribute) and e.func.attr in _TRANSPARENT_METHODS and not nm.startswith(('np.', 'math.')):
            if e.func.attr == 'astype' and not (e.args and show(e.args[0]) in ('float', 'np.float64', "'float64'", 'np.double')):
                raise _NoVal('cast')
            return self.ev(e.func.value)
        two = {'np.multiply': ast.Mult, 'np.add': ast.Add, 'np.subtract': ast.Sub}
        if nm in two and len(e.args) == 2 and not kw:
            return _arith(two[nm](), self.ev(e.args[0]), self.ev(e.args[1]))
        if nm in ('np.divide', 'np.true_divide') and len(e.args) == 2 and set(kw) <= {'out', 'where'}:
            w = self.ev(kw['where']) if 'where' in kw else True
            if not isinstance(w, bool):
                raise _NoVal('where= that is a number')
            if w:
                return _arith(ast.Div(), self.ev(e.args[0]), self.ev(e.args[1]))
            return self.ev(kw['out']) if 'out' in kw else _UNINIT
        if nm == 'np.negative' and len(e.args) == 1:
            return _arith(ast.Sub(), Fraction(0), self.ev(e.args[0]))
        if nm == 'np.where' and len(e.args) == 3 and not kw:
            try:
                c = self.ev(e.args[0])
            except _NoVal:
                # a condition that does not depend on the kind of segment (which columns of a row hold a crossing): the
                # element where it exists is the arm that is not the NaN padding
                if self._tests_finiteness(e.args[0]):
                    raise
                arms = []
                for a in e.args[1:]:
                    try:
                        arms.append(self.ev(a))
                    except _Absent:
                        pass
                real = [v for v in arms if v == v]
                if len(real) == 1 or (real and all(v == real[0] for v in real)):
                    return real[0]
                raise
            if not isinstance(c, bool):
                raise _NoVal('np.where on a number')
            return self.ev(e.args[1] if c else e.args[2])
        if nm in _FINITENESS and len(e.args) == 1:
            v = self.ev(e.args[0])
            if v is _UNINIT or isinstance(v, bool):
                raise _NoVal('finiteness of a value that is not a number')
            return {'np.isinf': v in (_INF, -_INF), 'np.isfinite': not isinstance(v, float), 'np.isnan': v != v,
                    'np.isposinf': v == _INF, 'np.isneginf': v == -_INF}[nm]
        if nm == 'np.abs' and len(e.args) == 1:
            v = self.ev(e.args[0])
            if v is _UNINIT or isinstance(v, bool):
                raise _NoVal('abs')
            return abs(v)
        if nm == 'np.sign' and len(e.args) == 1:
            v = self.ev(e.args[0])
            if v is _UNINIT or isinstance(v, bool):
                raise _NoVal('sign')
            return v if v != v else Fraction((v > 0) - (v < 0))
        if nm in ('np.full', 'np.full_like') and len(e.args) >= 2:
            return self.ev(e.args[1])
        if nm in ('np.zeros', 'np.zeros_like') and e.args:
            return Fraction(0)
        if nm in ('np.ones', 'np.ones_like') and e.args:
            return Fraction(1)
        if nm in ('np.empty', 'np.empty_like') and e.args:
            return _UNINIT
        if nm == 'np.nan_to_num' and len(e.args) == 1 and set(kw) <= {'nan', 'posinf', 'neginf', 'copy'}:
            v = self.ev(e.args[0])
            if v != v:
                return self.ev(kw['nan']) if 'nan' in kw else Fraction(0)
            if v in (_INF, -_INF):
                k = 'posinf' if v > 0 else 'neginf'
                if k not in kw:
                    raise _NoVal('nan_to_num of an infinite value')
                return self.ev(kw[k])
            return v
        raise _NoVal(f'`{show(e, 50)}` is not an element-wise form that is followed')

    def steps(self, cur, steps):
        for st in steps:
            go = True
            while is_mk(st, IFS):
                t = self.ev(st.args[0])
                if not isinstance(t, bool):
                    raise _NoVal('condition that is a number')
                go = go and t
                st = st.args[1]
            if not go:
                continue
            if is_mk(st, SET) or is_mk(st, SETAUG):
                idx = st.args[0]
                sel = self.selects(idx)
                if sel is False:
                    continue
                whole = (isinstance(idx, ast.Slice) and idx.lower is None and idx.upper is None) or (isinstance(idx, ast.Constant) and idx.value is Ellipsis)
                if sel is None and not whole:
                    raise _NoVal(f'some elements are overwritten at `[{show(idx, 40)}]`, which does not depend on the kind of segment')
                self.prev.append(cur)
                try:
                    if is_mk(st, SET):
                        cur = self.ev(st.args[1])
                    else:
                        op = getattr(ast, st.args[1].value, None)
                        if op is None:
                            raise _NoVal('augmented assignment')
                        cur = _arith(op(), self.force(cur), self.ev(st.args[2]))
                finally:
                    self.prev.pop()
            elif is_mk(st, AUG):
                op = getattr(ast, st.args[0].value, None)
                if op is None:
                    raise _NoVal('augmented assignment')
                self.prev.append(cur)
                try:
                    cur = _arith(op(), self.force(cur), self.ev(st.args[1]))
                finally:
                    self.prev.pop()
            else:
                raise _NoVal(f'`{show(st, 40)}` reorders / rewrites the array as a whole')
        return cur


def _segment_samples():
    """[(kind, env)]: exact sample segments; the grid lines are free numbers (an identity of rational functions does not
    care whether the line is between the way-points)"""
    from fractions import Fraction as F
    return [('oblique', dict(LAT0=F(3, 10), DLAT=F(1, 20), LON0=F(11, 10), DLON=F(-1, 5), XLINE=F(21, 20), YLINE=F(8, 25))),
            ('oblique', dict(LAT0=F(-7, 9), DLAT=F(-2, 13), LON0=F(-5, 17), DLON=F(-3, 11), XLINE=F(-4, 9), YLINE=F(-5, 6))),
            ('oblique', dict(LAT0=F(2, 7), DLAT=F(3, 19), LON0=F(-13, 8), DLON=F(5, 23), XLINE=F(-3, 2), YLINE=F(1, 3))),
            ('parallel', dict(LAT0=F(3, 10), DLAT=F(0), LON0=F(11, 10), DLON=F(-1, 5), XLINE=F(21, 20), YLINE=F(8, 25))),
            ('parallel', dict(LAT0=F(-7, 9), DLAT=F(0), LON0=F(-5, 17), DLON=F(3, 11), XLINE=F(-4, 9), YLINE=F(-5, 6))),
            # along the equator: slope * latitude is inf * 0, the intercept is NaN and not infinite
            ('parallel', dict(LAT0=F(0), DLAT=F(0), LON0=F(2, 3), DLON=F(1, 7), XLINE=F(5, 7), YLINE=F(1, 9)))]


def _num_text(v):
    if v is _UNINIT:
        return 'an uninitialised value'
    if isinstance(v, float):
        return 'NaN' if v != v else ('+inf' if v > 0 else '-inf')
    return str(v)


def rule_on_line(ctx, m):
    """C05-R11: every intersection coordinate the horizontal intersection orders along a segment is a point of that
    segment's straight map line: the columns stacked into the latitude-side array are latitude grid lines or the
    latitude at which the line through (lat_i, lon_i), (lat_i+1, lon_i+1) meets a longitude grid line, and the other way
    round - decided by computing the element exactly on sample segments, the line parameters opened like any helper.
    A segment of constant latitude has no finite slope (the guarded division of the line parameters leaves its default):
    where it crosses a longitude line the latitude must come out as the latitude of its way-points, not as the
    quotient of two infinities."""
    V = grid_values(ctx)
    S = grid_states(ctx)
    hz = m.func(HZ_FN)
    coords = [p for p in hz.params if p not in ('self', 'cls')]
    if len(coords) != 2:
        ctx.undecided('C05-R11', hz, 'parameters', f'the horizontal intersection receives {coords}, not two coordinate arrays')
    pend = Pending(ctx)
    n = 0
    samples = _segment_samples()
    for role, name, val, ret in hz_leaves(ctx, m, 'C05-R11'):
        if role not in ('lat coordinate', 'lon coordinate'):
            continue
        axis = role.split()[0]
        if is_mk(val, MUT):
            val = canon(V.plain_of(val))
        b = pm_any(['np.column_stack((C_[:-1], P_, C_[1:]))', 'np.hstack((C_[:-1, None], P_, C_[1:, None]))',
                    'np.concatenate((C_[:-1, None], P_, C_[1:, None]), axis=1)'], val)
        if b is None:
            pend.put('C05-R11', hz, f'returned {role} array', (None, f'`{show(val, 90)}` is not [way-point | intersection points | next way-point]'))
            continue
        try:
            state = S.expand(b['P_'])
        except Undecided as e:
            pend.put('C05-R11', hz, f'{axis} intersection coordinates', (None, str(e)))
            continue
        # the outermost stacks on the value path of the array (what selects elements - indices, masks - is not part of it)
        joins, todo = {}, [state]
        while todo:
            x = todo.pop()
            bj = pm_any(['np.column_stack(T_)', 'np.hstack(T_)', 'np.concatenate(T_, axis=1)', 'np.concatenate(T_, axis=-1)'], x) \
                if isinstance(x, ast.Call) else None
            if bj is not None and isinstance(bj['T_'], ast.Tuple) and len(bj['T_'].elts) >= 2:
                joins.setdefault(ast.dump(x), bj['T_'].elts)
                continue
            if isinstance(x, ast.Subscript):
                todo.append(x.value)
            elif is_mk(x, STEPS):
                todo.append(x.args[0])
                todo += [st.args[1] for st in x.args[1:] if is_mk(st, SET)]
            elif isinstance(x, ast.Call):
                todo += list(x.args) + [k.value for k in x.keywords if k.arg != 'where']
            else:
                todo += [y for y in ast.iter_child_nodes(x) if isinstance(y, ast.expr)]
        if len(joins) != 1:
            pend.put('C05-R11', hz, f'{axis} intersection coordinates',
                     (None, f'{len(joins)} arrays are stacked into the intersection coordinates (expected one stack of [grid lines | crossings of the other axis\' lines])'))
            continue
        own, other = ('YLINE', 'XLINE') if axis == 'lat' else ('XLINE', 'YLINE')
        for op in next(iter(joins.values())):
            n += 1
            what = f'{axis} intersection coordinates: column block {_describe(op, 50)}'
            kindof, verdict = None, None
            for kind, env in samples:
                on_line = env['LAT0'] + (env['XLINE'] - env['LON0']) * env['DLAT'] / env['DLON'] if axis == 'lat' else \
                    (env['LON0'] + (env['YLINE'] - env['LAT0']) * env['DLON'] / env['DLAT'] if env['DLAT'] != 0 else None)
                if kind == 'parallel' and (kindof != 'crossing' or axis != 'lat'):
                    continue        # a segment of constant latitude crosses no latitude line; its own lines are what they are
                try:
                    v = RowEval(S, coords, env).ev(op)
                except _Absent:
                    continue
                except _NoVal as e:
                    verdict = (None, f'value of an element on {"an" if kind == "oblique" else "a"} {kind} segment not computed: {e}')
                    break
                except (Undecided, KeyError, RecursionError, ZeroDivisionError, OverflowError) as e:
                    verdict = (None, f'value of an element not computed: {type(e).__name__} {e}')
                    break
                if kind == 'oblique':
                    k2 = 'line' if v == env[own] else 'crossing' if v == on_line else None
                    if k2 is None or (kindof is not None and k2 != kindof):
                        oth = 'longitude' if axis == 'lat' else 'latitude'
                        ax_ = 'latitude' if axis == 'lat' else 'longitude'
                        verdict = (False, (f'`{_describe(op, 70)}` is neither a {ax_} grid line nor the {ax_} at which the segment\'s straight map line '
                                           f'meets a {oth} grid line: for the way-points ({env["LAT0"]}, {env["LON0"]}) → ({env["LAT0"] + env["DLAT"]}, '
                                           f'{env["LON0"] + env["DLON"]}) and the {oth} line {env[other]} it is {_num_text(v)}, the point of the line '
                                           f'there has {ax_} {on_line}: the crossing point is not on the path, pieces are cut at the wrong place '
                                           'and attributed to cells the path does not cross'))
                        break
                    kindof = k2
                else:
                    if v != env['LAT0']:
                        lost = v is _UNINIT or isinstance(v, float)
                        verdict = (False, (f'on a segment of constant latitude (no finite slope / intercept: the guarded division of the line '
                                           f'parameters leaves its default there) the latitude at which it crosses a longitude grid line, '
                                           f'`{_describe(op, 70)}`, comes out as {_num_text(v)} (way-points at latitude {env["LAT0"]}, longitudes '
                                           f'{env["LON0"]} → {env["LON0"] + env["DLON"]}), not as the latitude of its way-points: ' +
                                           ('the crossing has a longitude but no latitude, the latitude-side arrays hold fewer entries than the '
                                            'longitude-side ones and the returned cell / altitude / time / state arrays no longer line up' if lost else
                                            'the crossing point is not on the path, the pieces of an east-west leg are attributed to cells it does '
                                            'not cross')))
                        break
            if verdict is None:
                verdict = (True, {'line': f'{axis} grid lines crossed', 'crossing': 'on the line through the segment\'s way-points'
                                  + (' (way-point latitude where the latitude is constant)' if axis == 'lat' else '')}.get(kindof, 'not selected on any sample'))
                if kindof is None:
                    verdict = (None, 'the element exists on no sample segment')
            pend.put('C05-R11', hz, what, verdict, line=getattr(op, 'lineno', ret.lineno))
    ctx.floor('C05-R11', n, 4, 'column blocks of the intersection coordinates (grid lines + crossings, per axis)')
    # positive control: the unguarded solution of the line equation is NaN on a segment of constant latitude
    env = samples[-1][1]
    try:
        ctl = _arith(ast.Div(), _arith(ast.Sub(), env['XLINE'], -_INF), _INF)
    except _NoVal:
        ctl = None
    ctx.control('C05-R11', ctl is not None and ctl != ctl, 'embedded (line − (−inf)) / inf evaluates to NaN')
    pend.flush()


def rule_axes(ctx, m):
    """C05-R3: part agreement by provenance (c04.rule_suffix), and - by value - each of the four coordinate outputs of the functions
    that turn cell indices into cell coordinates is `self.grid_<axis>[<the share computation's index array of that same
    axis>]`, in the documented order latitude, longitude, altitude, time (halves joined first then second)."""
    rule_suffix(ctx, m, rule='C05-R3')
    V = grid_values(ctx)
    pend = Pending(ctx)
    nax = 0
    order = ('lat', 'lon', 'altitude', 'time')
    for qn in ('Gridder._cell_idxs_and_variables_for_dateline_split_trajectory', 'Gridder._grid_trajectory_without_dateline_crossing'):
        f2 = m.func(qn)
        view = V.view(f2)
        for r in view.returns():
            elts = ret_elts(view, r)
            halves = {}
            for pos, (x, at) in enumerate(elts[:4]):
                want = order[pos]
                val = canon(V.close(f2, x, at))
                # the two halves of a split trajectory: each output joins the first call's result with the second call's
                for alt in alts(val):
                    bh = pm_any(['np.concatenate((A_, B_))', 'np.hstack((A_, B_))', 'np.append(A_, B_)', 'np.concatenate((A_, B_), axis=0)'], alt)
                    if bh is None:
                        continue
                    src = [{ast.dump(z.args[0]) for z in ast.walk(bh[k]) if is_mk(z, RES)} for k in ('A_', 'B_')]
                    if len(src[0]) == 1 and len(src[1]) == 1:
                        pair = (next(iter(src[0])), next(iter(src[1])))
                        ok = pair[0] != pair[1] and halves.setdefault('pair', pair) == pair
                        ctx.ob('C05-R3', f2, f'{want} output joins the two halves', ok, 'first half then second half' if ok else
                               (f'both halves of the {want} output are taken from the same half of the trajectory' if pair[0] == pair[1] else
                                f'the {want} output joins the halves in another order than the other outputs'),
                               line=getattr(at, 'lineno', r.lineno), nontrivial=False)
                subs = [y for y in ast.walk(val) if isinstance(y, ast.Subscript) and isinstance(y.value, ast.Attribute)
                        and y.value.attr.startswith('grid_') and show(y.value.value) == 'self']
                if not subs:
                    pend.put('C05-R3', f2, f'{want} output', (None, f'`{show(val, 80, top=True)}` does not look a grid axis up'))
                for y in subs:
                    ga = axis_of(y.value.attr)
                    for ix in alts(y.slice):
                        if isinstance(ix, ast.Constant) and ix.value is None:
                            continue
                        role = ix.args[1].value if is_mk(ix, RES) else None
                        ia = axis_of(role) if isinstance(role, str) else None
                        nax += 1
                        if role is None or ia is None:
                            pend.put('C05-R3', f2, f'{want} output = self.{y.value.attr}[{show(ix, 40)}]',
                                     (None, 'the index is not recognised as one of the index arrays of the share computation'))
                            continue
                        ok = ga == ia == want and role.endswith('index')
                        ctx.ob('C05-R3', f2, f'{want} output = self.{y.value.attr}[{role} of the share computation]', ok,
                               f'{ga} grid indexed by {ga} indices' if ok else
                               f'{want} output looks up the {ga} grid with {ia} indices', line=getattr(at, 'lineno', r.lineno))
    ctx.floor('C05-R3/axes', nax, 12, 'grid look-ups')
    pend.flush()


# ---------------------------------------------------------------------------------------------------------------
# Tuple locals taken apart.  `t = (e0, .., en)` bound once, every other use of `t` being `t[k]` (constant k; also as
# the base of a store `t[k][mask] = v` - the tuple itself cannot be stored into) or a whole load that a display can
# stand for (return value, element of a display, right-hand side of an unpacking), is the same program as
# `t_0 = e0; ..; t_n = en` with `t[k]` read as `t_k` and the whole loads as `(t_0, .., t_n)`: a tuple is immutable and
# has no identity the program looks at.  The values of the module (c04.Values, States) follow a local that holds an
# array and is altered in place; they do not follow a component of a tuple that is - so a record of arrays whose
# fields are patched after construction (`cells = Cells(a, b); cells.a[m] = nan`, a record class erased to a display
# by the loader) is rewritten here, in the functions of the gridding module only, before the rules read them.
# A component is named after the axis / kind all role-bearing names of its value agree on (a stack of
# `lat_grid_indices` and `midpoint_lat_indices` is a `lat index` array), else it carries no role and the rules that
# need one say so (exit 2).
# ---------------------------------------------------------------------------------------------------------------
def _reparent(root):
    for n in ast.walk(root):
        for ch in ast.iter_child_nodes(n):
            if not isinstance(ch, (ast.expr_context, ast.operator, ast.unaryop, ast.cmpop, ast.boolop)):
                ch._parent = n


def _component_name(t, k, e, taken):
    roles = {leaf_role(x.id) for x in ast.walk(e) if isinstance(x, ast.Name)} - {None}
    if len(roles) == 1:
        axis, kind = next(iter(roles)).split()
        nm = f'{axis}_{kind}_part{k}'
    else:
        nm = f'{t}_part{k}'
    while nm in taken:
        nm += '_'
    return nm


def split_tuple_locals(fn):
    """rewrite function node `fn` in place (see above); returns the number of tuple locals taken apart"""
    from ..astutil import parent
    done = 0
    for _ in range(8):
        everything = [x for x in ast.walk(fn) if isinstance(x, ast.Name)]
        scope = {id(x) for x in walk_no_nested(fn)}
        params = {a.arg for a in ast.walk(fn.args) if isinstance(a, ast.arg)}
        taken = {x.id for x in everything} | params
        declared = {n for x in ast.walk(fn) if isinstance(x, (ast.Global, ast.Nonlocal)) for n in x.names}
        hit = None
        for st in walk_no_nested(fn):
            v = plain_value(st)
            if not (isinstance(v, ast.Tuple) and v.elts and not any(isinstance(x, ast.Starred) for x in v.elts)):
                continue
            t = st.targets[0].id if isinstance(st, ast.Assign) else st.target.id
            occ = [x for x in everything if x.id == t]
            if t in params or t in declared or any(id(x) not in scope for x in occ) or any(x.id == t for x in ast.walk(v) if isinstance(x, ast.Name)):
                continue
            if sum(1 for x in occ if not isinstance(x.ctx, ast.Load)) != 1:
                continue
            reads, wholes, ok = [], [], True
            for x in occ:
                if not isinstance(x.ctx, ast.Load):
                    continue
                p = parent(x)
                if isinstance(p, ast.Subscript) and p.value is x and isinstance(p.ctx, ast.Load) and isinstance(const_value(p.slice), int) \
                        and not isinstance(const_value(p.slice), bool) and -len(v.elts) <= const_value(p.slice) < len(v.elts):
                    reads.append(p)
                elif (isinstance(p, ast.Return) and p.value is x) or (isinstance(p, ast.Tuple) and isinstance(p.ctx, ast.Load)) or \
                        (isinstance(p, ast.For) and p.iter is x) or \
                        (isinstance(p, ast.Assign) and p.value is x and len(p.targets) == 1 and isinstance(p.targets[0], (ast.Tuple, ast.List))
                         and len(p.targets[0].elts) == len(v.elts) and not any(isinstance(y, ast.Starred) for y in p.targets[0].elts)):
                    wholes.append(x)
                else:
                    ok = False
                    break
            body = next((b for f in ('body', 'orelse', 'finalbody') for b in [getattr(parent(st), f, None)]
                         if isinstance(b, list) and any(s is st for s in b)), None)
            if ok and (reads or any(isinstance(parent(x), ast.For) for x in wholes)) and body is not None:
                hit = (st, t, v, reads, wholes, body)
                break
        if hit is None:
            break
        st, t, v, reads, wholes, body = hit
        names, new = [], []
        for k, e in enumerate(v.elts):
            # a component that is a local bound once (and no parameter) stands for itself
            if isinstance(e, ast.Name) and e.id not in params and e.id not in declared and \
                    sum(1 for x in everything if x.id == e.id and not isinstance(x.ctx, ast.Load)) == 1:
                names.append(e.id)
                continue
            nm = _component_name(t, k, e, taken | set(names))
            names.append(nm)
            a = ast.Assign(targets=[ast.Name(id=nm, ctx=ast.Store())], value=e, type_comment=None)
            ast.copy_location(a, st)
            ast.copy_location(a.targets[0], st)
            new.append(a)
        i = next(i for i, s in enumerate(body) if s is st)
        body[i:i + 1] = new or [ast.copy_location(ast.Pass(), st)]
        for sub in reads:
            nm = names[const_value(sub.slice) % len(names)]
            sub.__class__ = ast.Name
            del sub.value, sub.slice
            sub.id, sub.ctx = nm, ast.Load()
        for x in wholes:
            x.__class__ = ast.Tuple
            del x.id
            x.elts = [ast.copy_location(ast.Name(id=nm, ctx=ast.Load()), x) for nm in names]
            x.ctx = ast.Load()
        _reparent(fn)
        done += 1
    if done:
        unroll_name_loops(fn)
    return done


def unroll_name_loops(fn):
    """`for x in (a, b, ..): body` over a display of plain locals (what a loop over the fields of a record of arrays is
    once the record is taken apart), x used nowhere else, the body straight-line statements that bind nothing but
    subscripts / attributes of x: the body once per element, x read as the element."""
    from ..astutil import parent
    for loop in [x for x in walk_no_nested(fn) if isinstance(x, ast.For)]:
        it, tg = loop.iter, loop.target
        if not (isinstance(tg, ast.Name) and isinstance(it, ast.Tuple) and 1 <= len(it.elts) <= 6 and all(isinstance(e, ast.Name) for e in it.elts)) \
                or loop.orelse:
            continue
        inside = {id(x) for x in ast.walk(loop)}
        if any(isinstance(x, ast.Name) and x.id == tg.id and id(x) not in inside for x in ast.walk(fn)):
            continue
        elts = {e.id for e in it.elts}
        simple = all(isinstance(st, (ast.Assign, ast.AugAssign, ast.Expr)) for st in loop.body) and not any(
            isinstance(x, (ast.Break, ast.Continue, ast.Return, ast.Yield, ast.YieldFrom, ast.Await, ast.NamedExpr, ast.Lambda, ast.ListComp,
                           ast.SetComp, ast.DictComp, ast.GeneratorExp)) for st in loop.body for x in ast.walk(st))
        stores = [x for st in loop.body for x in ast.walk(st) if isinstance(x, ast.Name) and not isinstance(x.ctx, ast.Load)]
        if not simple or stores or any(isinstance(x, ast.Name) and x.id in elts and not isinstance(x.ctx, ast.Load) for x in ast.walk(loop)):
            continue
        body = next((b for f in ('body', 'orelse', 'finalbody') for b in [getattr(parent(loop), f, None)]
                     if isinstance(b, list) and any(s is loop for s in b)), None)
        if body is None:
            continue
        new = []
        for e in it.elts:
            for st in loop.body:
                c = tcopy(st)
                for x in ast.walk(c):
                    if isinstance(x, ast.Name) and x.id == tg.id:
                        x.id = e.id
                new.append(c)
        i = next(i for i, s in enumerate(body) if s is loop)
        body[i:i + 1] = new
        _reparent(fn)


class _ConstFold(ast.NodeTransformer):
    """what is left to evaluate once a parameter has been replaced by the constant it is given: comparisons of constants,
    `not` / and / or of constants, conditional expressions and `if` statements on a constant, f-strings of constants,
    `getattr(x, 'name')`.  (Partial evaluation: nothing else is touched.)"""
    @staticmethod
    def _c(n):
        return isinstance(n, ast.Constant)

    def visit_Compare(self, n):
        self.generic_visit(n)
        if len(n.ops) != 1 or not self._c(n.left):
            return n
        a, op, r = n.left.value, n.ops[0], n.comparators[0]
        if isinstance(op, (ast.In, ast.NotIn)) and isinstance(r, (ast.Tuple, ast.List, ast.Set)) and all(self._c(x) for x in r.elts):
            hit = any(type(x.value) is type(a) and x.value == a for x in r.elts)
            return ast.copy_location(ast.Constant(hit if isinstance(op, ast.In) else not hit), n)
        if not self._c(r):
            return n
        b = r.value
        same_ = type(a) is type(b) and a == b
        if isinstance(op, (ast.Eq, ast.NotEq)):
            return ast.copy_location(ast.Constant(same_ if isinstance(op, ast.Eq) else not same_), n)
        if isinstance(op, (ast.Is, ast.IsNot)) and (a is None or b is None or isinstance(a, bool) or isinstance(b, bool)):
            return ast.copy_location(ast.Constant(same_ if isinstance(op, ast.Is) else not same_), n)
        return n

    def visit_UnaryOp(self, n):
        self.generic_visit(n)
        if isinstance(n.op, ast.Not) and self._c(n.operand):
            return ast.copy_location(ast.Constant(not n.operand.value), n)
        return n

    def visit_BoolOp(self, n):
        self.generic_visit(n)
        vals = list(n.values)
        while len(vals) > 1 and self._c(vals[0]):
            if bool(vals[0].value) == isinstance(n.op, ast.And):
                vals.pop(0)             # `True and x` is x, `False or x` is x
            else:
                return vals[0]          # `False and x` is False, `True or x` is True
        if len(vals) == 1:
            return vals[0]
        n.values = vals
        return n

    def visit_IfExp(self, n):
        self.generic_visit(n)
        if self._c(n.test):
            return n.body if n.test.value else n.orelse
        return n

    def visit_If(self, n):
        self.generic_visit(n)
        if self._c(n.test):
            return (n.body if n.test.value else n.orelse) or [ast.copy_location(ast.Pass(), n)]
        return n

    def visit_JoinedStr(self, n):
        self.generic_visit(n)
        out = ''
        for v in n.values:
            if self._c(v) and isinstance(v.value, str):
                out += v.value
            elif isinstance(v, ast.FormattedValue) and self._c(v.value) and isinstance(v.value.value, str) and v.conversion == -1 \
                    and v.format_spec is None:
                out += v.value.value
            else:
                return n
        return ast.copy_location(ast.Constant(out), n)

    def visit_Call(self, n):
        self.generic_visit(n)
        if isinstance(n.func, ast.Name) and n.func.id == 'getattr' and len(n.args) == 2 and not n.keywords and self._c(n.args[1]) and \
                isinstance(n.args[1].value, str) and n.args[1].value.isidentifier():
            return ast.copy_location(ast.Attribute(value=n.args[0], attr=n.args[1].value, ctx=ast.Load()), n)
        return n


def _selects(fn, p):
    """parameter `p` of `fn` is only read and says what the function is to do: it is tested (`if` / conditional expression),
    selects from a display, or names an attribute"""
    if any(isinstance(x, ast.Name) and x.id == p and not isinstance(x.ctx, ast.Load) for x in ast.walk(fn)) or \
            any(isinstance(x, (ast.Global, ast.Nonlocal, ast.Match)) for x in ast.walk(fn)):
        return False
    has = lambda e: any(isinstance(x, ast.Name) and x.id == p for x in ast.walk(e))
    for x in ast.walk(fn):
        if isinstance(x, (ast.If, ast.IfExp)) and has(x.test):
            return True
        if isinstance(x, ast.Subscript) and isinstance(x.value, (ast.Dict, ast.Tuple, ast.List)) and has(x.slice):
            return True
        if isinstance(x, ast.Subscript) and isinstance(x.value, ast.Call) and call_name(x.value) == 'dict' and has(x.slice):
            return True
        if isinstance(x, ast.Call) and isinstance(x.func, ast.Attribute) and x.func.attr == 'get' and isinstance(x.func.value, ast.Dict) \
                and x.args and has(x.args[0]):
            return True
        if isinstance(x, ast.Call) and isinstance(x.func, ast.Name) and x.func.id == 'getattr' and len(x.args) == 2 and has(x.args[1]):
            return True
    return False


def specialise_selector_calls(prog, m):
    """A helper of the module that is TOLD BY A CONSTANT what to do (`self._require_axis('time')`, `f(x, upper=True)`: the
    parameter is tested / selects from a display / names an attribute) is, for the rules, the helper it is for that constant:
    a copy with the parameter replaced by the constant and the tests on it evaluated (_ConstFold) is registered beside it,
    and the call is made to call the copy without that argument.  One copy per (helper, constants); repeated while calls
    with constant arguments appear (a specialised helper that passes its constant on).  Returns the number of calls redirected."""
    from ..loader import FunctionInfo
    from ..resolve import resolve_call
    made, n = {}, 0
    for _ in range(3):
        changed = False
        for fi in list(m.functions.values()):
            if '<locals>' in fi.qualname:
                continue
            for c in [x for x in ast.walk(fi.node) if isinstance(x, ast.Call)]:
                if not isinstance(c.func, (ast.Name, ast.Attribute)) or any(isinstance(a, ast.Starred) for a in c.args) or \
                        any(k.arg is None for k in c.keywords):
                    continue
                try:
                    callee = resolve_call(prog, fi, c)
                except Exception:
                    callee = None
                if callee is None or callee.module is not m or callee.node is fi.node or '<locals>' in callee.qualname or \
                        not isinstance(callee.node, ast.FunctionDef) or callee.node.name.startswith('__'):
                    continue
                a = callee.node.args
                if a.vararg or a.kwarg or a.posonlyargs or any(d not in ('staticmethod',) for d in callee.decorators()):
                    continue
                bind = _bind_args(callee, c)
                if bind is None:
                    continue
                ps = [x.arg for x in a.args]
                dflt = dict(zip(reversed(ps), reversed(a.defaults)))
                dflt.update({x.arg: d for x, d in zip(a.kwonlyargs, a.kw_defaults) if d is not None})
                recv = ps[0] if callee.cls is not None and 'staticmethod' not in callee.decorators() and ps else None
                given = {}
                for p_ in ps + [x.arg for x in a.kwonlyargs]:
                    v = bind.get(p_, dflt.get(p_)) if p_ != recv else None
                    if isinstance(v, ast.Constant) and (isinstance(v.value, (str, bool)) or v.value is None):
                        given[p_] = v
                sel = [p_ for p_ in given if _selects(callee.node, p_)]
                if not sel:
                    continue
                key = (callee.qualname, tuple((p_, repr(given[p_].value)) for p_ in sel))
                if key not in made:
                    node = tcopy(callee.node)
                    tag = '__'.join(re.sub(r'\W', '_', str(given[p_].value)) for p_ in sel)
                    node.name = f'{callee.node.name}__{tag}'
                    while any(q.split('.')[-1] == node.name for q in m.functions):
                        node.name += '_'
                    node.args.defaults = [d for x, d in zip(node.args.args[len(node.args.args) - len(node.args.defaults):], node.args.defaults)
                                          if x.arg not in sel]
                    node.args.args = [x for x in node.args.args if x.arg not in sel]
                    kw = [(x, d) for x, d in zip(node.args.kwonlyargs, node.args.kw_defaults) if x.arg not in sel]
                    node.args.kwonlyargs, node.args.kw_defaults = [x for x, _ in kw], [d for _, d in kw]
                    node.body = [_subst_names(st, {p_: given[p_] for p_ in sel}) for st in node.body]
                    node = _ConstFold().visit(node)
                    ast.fix_missing_locations(node)
                    _reparent(node)
                    node._parent = getattr(callee.node, '_parent', None)
                    q = callee.qualname.rsplit('.', 1)[0] + '.' + node.name if '.' in callee.qualname else node.name
                    new = FunctionInfo(qualname=q, node=node, module=m, cls=callee.cls)
                    m.functions[q] = new
                    if callee.cls is not None:
                        callee.cls.methods[node.name] = new
                    made[key] = new
                    if os.environ.get('AEIC_VERIF_DEBUG'):
                        import sys
                        print(f'c05: {callee.qualname} specialised for {key[1]}:\n{ast.unparse(node)}', file=sys.stderr)
                new = made[key]
                # the call: the copy, without the arguments that are now part of it
                nrecv = 0 if recv is None or not isinstance(c.func, ast.Attribute) else 1
                pos = ps[nrecv:] if isinstance(c.func, ast.Attribute) or recv is None else ps
                c.args = [x for x, p_ in zip(c.args, pos) if p_ not in sel]
                c.keywords = [k for k in c.keywords if k.arg not in sel]
                if isinstance(c.func, ast.Attribute):
                    c.func.attr = new.node.name
                else:
                    c.func.id = new.node.name
                n += 1
                changed = True
        if not changed:
            break
    return n


def _subst_names(st, mapping):
    st = tcopy(st)
    for x in ast.walk(st):
        if isinstance(x, ast.Name) and x.id in mapping and isinstance(x.ctx, ast.Load):
            v = mapping[x.id]
            x.__class__ = ast.Constant
            del x.id, x.ctx
            x.value, x.kind = v.value, None
    return st


def _grid_line_fills(ctx, m, rule):
    """[(fill record, loop variables {name: iterated value}, index expression, axis attribute, line)] for every write, inside
    a loop of the horizontal intersection, of `self.grid_<axis>[INDEX]` into a per-axis array"""
    S = grid_states(ctx)
    hz = m.func(HZ_FN)
    for role, name, val, ret in hz_leaves(ctx, m, rule):
        S.expand(val)
    out = []
    for key, F in sorted(S.fills.items()):
        if F['fi'].node is not hz.node:
            continue
        for st in F['steps']:
            loops, x = {}, st
            while True:
                if is_mk(x, FOR):
                    if isinstance(x.args[0], ast.Name):
                        loops[x.args[0].id] = x.args[1]
                    x = x.args[2]
                elif is_mk(x, IFS):
                    x = x.args[1]
                else:
                    break
            if not (is_mk(x, SET) and loops):
                continue
            v = strip_casts(x.args[1])
            if isinstance(v, ast.Subscript) and isinstance(v.value, ast.Attribute) and v.value.attr.startswith('grid_') and show(v.value.value) == 'self':
                out.append((F, loops, v.slice, v.value.attr, getattr(st, 'lineno', F['line'])))
    return out


_BIG = 10 ** 6        # stands for a maximum taken over all segments: at least as large as anything one segment needs


class _CellEval:
    """Exact value, for ONE segment that goes from cell `s` to cell `e` of an axis (cell i lies between grid lines i and
    i + 1: index = searchsorted − 1), of a closed index expression: integers (a value of that segment / a plain number),
    vectors along the columns (list / range), truth values.  Leaves: the per-point cell indices of the axis
    (`searchsorted(axis, coordinates) − 1`: `[:-1]` is s, `[1:]` is e), the loop variable = the index change e − s.
    Selections of rows (masks, np.newaxis, full slices) leave the segment's value alone; a mask that evaluates must select
    the segment.  Anything else raises _NoVal."""

    def __init__(self, s_, e_, loopvars):
        self.s, self.e, self.loopvars = s_, e_, loopvars

    def ev(self, x):
        lk = parse_lookup(x)
        if lk is not None and lk['minus'] == 1 and not lk['sorter'] and isinstance(x, (ast.BinOp, ast.Subscript, ast.Call)):
            tr = [t.replace(' ', '') for t in lk['trail']]
            if tr == [':-1']:
                return self.s
            if tr == ['1:']:
                return self.e
            if not tr:
                return ('points',)
        if isinstance(x, ast.Constant):
            if isinstance(x.value, bool) or isinstance(x.value, int):
                return x.value
            raise _NoVal(f'constant {x.value!r}')
        if isinstance(x, ast.Name):
            if x.id in self.loopvars:
                return self.e - self.s
            raise _NoVal(f'`{x.id}` is not a value of one segment')
        if isinstance(x, ast.UnaryOp):
            v = self.ev(x.operand)
            if isinstance(x.op, ast.USub):
                return self._map(lambda a: -a, v)
            if isinstance(x.op, ast.UAdd):
                return v
            if isinstance(x.op, (ast.Not, ast.Invert)) and isinstance(v, bool):
                return not v
            raise _NoVal('unary operator')
        if isinstance(x, ast.BinOp):
            ops = {ast.Add: lambda a, b: a + b, ast.Sub: lambda a, b: a - b, ast.Mult: lambda a, b: a * b}
            if type(x.op) not in ops:
                raise _NoVal(f'operator {type(x.op).__name__}')
            return self._zip(ops[type(x.op)], self.ev(x.left), self.ev(x.right))
        if isinstance(x, ast.Compare) and len(x.ops) == 1:
            a, b = self.ev(x.left), self.ev(x.comparators[0])
            ops = {ast.Eq: lambda a, b: a == b, ast.NotEq: lambda a, b: a != b, ast.Lt: lambda a, b: a < b, ast.LtE: lambda a, b: a <= b,
                   ast.Gt: lambda a, b: a > b, ast.GtE: lambda a, b: a >= b}
            if type(x.ops[0]) not in ops or not (self._int(a) and self._int(b)):
                raise _NoVal('comparison')
            return ops[type(x.ops[0])](a, b)
        if isinstance(x, ast.IfExp):
            t = self.ev(x.test)
            if not isinstance(t, bool):
                raise _NoVal('condition that is not a truth value')
            return self.ev(x.body if t else x.orelse)
        if isinstance(x, ast.Attribute) and x.attr == 'T':
            return self.ev(x.value)
        if isinstance(x, ast.Subscript):
            return self.sub(self.ev(x.value), x.slice)
        if isinstance(x, ast.Call):
            return self.call(x)
        raise _NoVal(f'`{show(x, 40)}` ({type(x).__name__})')

    @staticmethod
    def _int(v):
        return isinstance(v, int) and not isinstance(v, bool)

    @staticmethod
    def _vec(v):
        return isinstance(v, (list, range))

    def _map(self, f, v):
        if self._int(v):
            return f(v)
        if self._vec(v):
            if len(v) > 64:
                raise _NoVal('arithmetic on a vector whose length is a maximum over all segments')
            return [f(a) for a in v]
        raise _NoVal('arithmetic on a value that is not a number')

    def _zip(self, f, a, b):
        if self._vec(a) and self._vec(b):
            if len(a) != len(b) or len(a) > 64:
                raise _NoVal('vectors of different lengths')
            return [f(p, q) for p, q in zip(a, b)]
        if self._vec(a):
            return self._map(lambda p: f(p, b), a) if self._int(b) else self._map(None, b)
        if self._vec(b):
            return self._map(lambda q: f(a, q), b) if self._int(a) else self._map(None, a)
        if self._int(a) and self._int(b):
            return f(a, b)
        raise _NoVal('arithmetic on a value that is not a number')

    def sub(self, v, idx):
        parts = idx.elts if isinstance(idx, ast.Tuple) else [idx]
        is_new = lambda p: (isinstance(p, ast.Constant) and p.value is None) or norm(p) in ('np.newaxis', 'numpy.newaxis')
        is_full = lambda p: isinstance(p, ast.Slice) and p.lower is None and p.upper is None and p.step is None
        if isinstance(v, tuple) and v[0] == 'points':
            if len(parts) == 1 and isinstance(parts[0], ast.Slice) and parts[0].step is None:
                lo, hi = parts[0].lower, parts[0].upper
                if lo is None and hi is not None and const_value(hi) == -1:
                    return self.s
                if hi is None and lo is not None and const_value(lo) == 1:
                    return self.e
            raise _NoVal(f'`[{show(idx, 30)}]` of the per-point cell indices')
        if isinstance(v, tuple) and v[0] == 'cols':
            real = [p for p in parts if not is_new(p)]
            if len(real) == 2 and is_full(real[0]) and isinstance(const_value(real[1]), int) and -len(v[1]) <= const_value(real[1]) < len(v[1]):
                return v[1][const_value(real[1])]
            if len(real) == 1 and not isinstance(real[0], ast.Slice) and not isinstance(real[0], ast.Constant):
                self.row_selected(real[0])
                return v
            raise _NoVal(f'`[{show(idx, 30)}]` of per-segment columns')
        if self._int(v):
            for p in parts:
                if not (is_new(p) or is_full(p)):
                    self.row_selected(p)
            return v
        if self._vec(v):
            real = [p for p in parts if not (is_new(p) or is_full(p))]
            if not real:
                return v
            if len(real) == 1 and isinstance(real[0], ast.Slice):
                b = [None if q is None else self.ev(q) for q in (real[0].lower, real[0].upper, real[0].step)]
                if any(q is not None and not self._int(q) for q in b):
                    raise _NoVal('slice bound that is not a number')
                return v[slice(*b)]
            raise _NoVal(f'`[{show(idx, 30)}]` of a vector')
        raise _NoVal('subscript of a value that is not followed')

    def row_selected(self, p):
        """a selection of rows: when it evaluates for this segment it must select it"""
        if isinstance(p, ast.Slice):
            raise _NoVal('a range of rows')
        try:
            t = self.ev(p)
        except _NoVal:
            return
        if t is False:
            raise _NoVal(f'the rows selected by `{show(p, 50)}` are not those whose index change is the loop variable')

    def call(self, x):
        nm = call_name(x)
        short = nm.split('.')[-1]
        if isinstance(x.func, ast.Attribute) and x.func.attr in ('copy', 'astype', 'flatten', 'ravel') and \
                not (isinstance(x.func.value, ast.Name) and x.func.value.id in ('np', 'numpy')):
            return self.ev(x.func.value)
        args = x.args
        if nm in ('np.abs', 'np.absolute', 'np.fabs', 'abs') and len(args) == 1:
            return self._map(abs, self.ev(args[0]))
        if nm in ('np.negative',) and len(args) == 1:
            return self._map(lambda a: -a, self.ev(args[0]))
        if nm in ('np.sign',) and len(args) == 1:
            return self._map(lambda a: (a > 0) - (a < 0), self.ev(args[0]))
        if nm in ('int', 'np.asarray', 'np.array', 'np.int64', 'np.intp', 'np.copy', 'np.atleast_1d') and len(args) == 1:
            return self.ev(args[0])
        if nm in ('np.arange', 'range') and 1 <= len(args) <= 3 and not any(k.arg != 'dtype' for k in x.keywords):
            b = [self.ev(a) for a in args]
            if not all(self._int(q) for q in b):
                raise _NoVal('np.arange of values that are not numbers')
            return range(*b)
        if nm in ('np.max', 'np.amax', 'np.min', 'np.amin', 'max', 'min') and len(args) == 1 and not x.keywords:
            v = self.ev(args[0])
            if self._int(v):
                if short in ('max', 'amax') and v >= 0:
                    return _BIG             # over all segments: at least this segment's value
                raise _NoVal('a minimum over all segments')
            raise _NoVal('maximum / minimum of a vector')
        if nm in ('np.maximum', 'np.minimum', 'max', 'min') and len(args) == 2:
            f = max if short in ('maximum', 'max') else min
            return self._zip(f, self.ev(args[0]), self.ev(args[1]))
        if nm == 'np.where' and len(args) == 3:
            t = self.ev(args[0])
            if not isinstance(t, bool):
                raise _NoVal('np.where on a condition that is not one truth value per segment')
            return self.ev(args[1] if t else args[2])
        if nm in ('np.flip',) and len(args) == 1:
            v = self.ev(args[0])
            return v[::-1] if self._vec(v) else v
        if nm in ('np.column_stack', 'np.stack', 'np.vstack', 'np.array') and len(args) == 1 and isinstance(args[0], (ast.Tuple, ast.List)):
            ax = kwarg(x, 'axis')
            if nm == 'np.column_stack' or (nm == 'np.stack' and ax is not None and const_value(ax) in (1, -1)):
                cols = [self.ev(a) for a in args[0].elts]
                if all(self._int(c) for c in cols):
                    return ('cols', cols)
        raise _NoVal(f'`{show(x, 50)}`')


_CELL_SAMPLES = ((5, 7), (7, 4), (4, 5), (5, 4), (6, 3), (2, 5), (4, 4))


def rule_lines_crossed(ctx, m):
    """C05-R13: see the module docstring"""
    hz = m.func(HZ_FN)
    pend = Pending(ctx)
    n = 0
    ctl = canon(ast.parse('(np.searchsorted(self.grid_latitudes, lats) - 1)[:-1][:, None] + np.arange(np.abs(c))[None, :]', mode='eval').body)
    try:
        got = list(_CellEval(5, 7, {'c'}).ev(ctl))
    except _NoVal:
        got = None
    ctx.control('C05-R13', got == [5, 6], 'embedded `start cell + arange(|change|)` evaluates to lines 5, 6 for a segment from cell 5 to cell 7 '
                '(which crosses lines 6, 7)')
    for F, loops, idx, attr, line in _grid_line_fills(ctx, m, 'C05-R13'):
        axis = attr.replace('grid_', '').rstrip('s')
        what = f'grid lines written to `{F["name"]}`: self.{attr}[{show(idx, 50)}]'
        verdict = None
        for s_, e_ in _CELL_SAMPLES:
            try:
                v = _CellEval(s_, e_, set(loops)).ev(idx)
                if _CellEval._int(v):
                    v = [v]
                if not _CellEval._vec(v) or len(v) > 64 or any(abs(q) >= _BIG // 2 for q in v):
                    raise _NoVal('the index does not evaluate to the lines of one segment')
            except _NoVal as ex:
                verdict = (None, f'the index of the grid lines is not evaluated for a segment from cell {s_} to cell {e_}: {ex}')
                break
            want = list(range(min(s_, e_) + 1, max(s_, e_) + 1))
            if sorted(v) != want:
                verdict = (False, f'for a segment that goes from cell {s_} to cell {e_} of the {axis} axis (index change {e_ - s_:+d}) the grid '
                                  f'lines taken are {list(v)}; the path crosses the lines {want if e_ >= s_ else want[::-1]} (cell i lies between lines i and '
                                  f'i + 1): a crossing is computed on a line the segment does not cross and a crossed line is left out, so pieces '
                                  f'are attributed to cells the path does not enter / get the wrong shares')
                break
        n += 1
        pend.put('C05-R13', hz, what, verdict or (True, f'for every sample segment (cell s → cell e) exactly the lines min(s, e) + 1 … max(s, e)'),
                 line=line)
    ctx.floor('C05-R13', n, 2, 'loop-filled arrays of crossed grid lines (one per horizontal axis)')
    pend.flush()


def _view_of(e, bare=False):
    """(local, anchored) when expression `e` certainly shares memory with the array held by `local`: a basic slice of it, also
    with added axes / `.T` / `.view()` / np.asarray around; `anchored`: every slice starts at a constant position
    (or the start), so the view taken at one iteration of a loop overlaps the one taken at the next.  None for anything
    that may be a copy or an element (integer / mask / index-array subscripts, arithmetic, .copy(), reshape)."""
    anchored, sliced = True, False
    for _ in range(8):
        if isinstance(e, ast.Subscript):
            for p in (e.slice.elts if isinstance(e.slice, ast.Tuple) else [e.slice]):
                if isinstance(p, ast.Slice):
                    sliced = True
                    if (p.lower is not None and not isinstance(const_value(p.lower), int)) or \
                            (p.step is not None and not isinstance(const_value(p.step), int)):
                        anchored = False
                elif not ((isinstance(p, ast.Constant) and (p.value is None or p.value is Ellipsis)) or norm(p) in ('np.newaxis', 'numpy.newaxis')):
                    return None
            e = e.value
        elif isinstance(e, ast.Attribute) and e.attr == 'T':
            e = e.value
        elif isinstance(e, ast.Call) and isinstance(e.func, ast.Attribute) and e.func.attr == 'view' and not e.args and not e.keywords:
            e = e.func.value
        elif isinstance(e, ast.Call) and call_name(e) in ('np.asarray', 'np.asanyarray', 'numpy.asarray', 'numpy.asanyarray') and \
                len(e.args) == 1 and not e.keywords:
            e = e.args[0]
        else:
            break
    # (a bare alias `w = b` that is altered is a running state said as such, like `b op= ..` itself: not judged)
    return (e.id, anchored) if isinstance(e, ast.Name) and (sliced or bare) and e.id not in ('self', 'np', 'numpy') else None


def _makes_array(v):
    """the value certainly is a numpy array: a call of a numpy function, arithmetic / a method of one"""
    if isinstance(v, ast.Call):
        if call_name(v).startswith(('np.', 'numpy.')) and not call_name(v).endswith(('.max', '.min', '.sum', '.any', '.all', '.size', '.ndim',
                                                                                   '.shape', '.argmax', '.argmin', '.mean', '.isscalar')):
            return True
        return isinstance(v.func, ast.Attribute) and v.func.attr in ('astype', 'copy', 'reshape', 'ravel', 'flatten') and _makes_array(v.func.value)
    if isinstance(v, ast.BinOp):
        return _makes_array(v.left) or _makes_array(v.right)
    if isinstance(v, ast.UnaryOp):
        return _makes_array(v.operand)
    return False


def loop_carried_views(fn):
    """[(line, alteration stmt, view local or None, view expression, base, line the base is bound at)] - see rule_group_independence;
    second result: the number of in-place alterations inside loops that were examined"""
    found, examined = [], 0
    names = [x for x in walk_no_nested(fn) if isinstance(x, ast.Name)]
    args = {a.arg: a for a in fn.args.posonlyargs + fn.args.args + fn.args.kwonlyargs}
    for L in [x for x in walk_no_nested(fn) if isinstance(x, (ast.For, ast.While))]:
        inside = {id(x) for st in L.body for x in ast.walk(st)} | ({id(x) for x in ast.walk(L.target)} if isinstance(L, ast.For) else set())
        stmts = [x for st in L.body for x in ast.walk(st) if isinstance(x, ast.stmt)]
        views = {}
        for st in stmts:
            if isinstance(st, ast.Assign) and len(st.targets) == 1 and isinstance(st.targets[0], ast.Name):
                vb = _view_of(st.value)
                if vb is not None and vb[0] != st.targets[0].id:
                    views.setdefault(st.targets[0].id, []).append((st, vb))
        for st in stmts:
            # read-modify-write alterations: `t op= ..`, `t[..] op= ..`, `t[..] = f(t)`, `t.sort()`
            tgt = None
            if isinstance(st, ast.AugAssign):
                tgt = st.target
            elif isinstance(st, ast.Assign) and len(st.targets) == 1 and isinstance(st.targets[0], ast.Subscript):
                vb = _view_of(st.targets[0])
                if vb is not None and any(isinstance(x, ast.Name) and x.id == vb[0] for x in ast.walk(st.value)):
                    tgt = st.targets[0]
            elif isinstance(st, ast.Expr) and isinstance(st.value, ast.Call) and isinstance(st.value.func, ast.Attribute) and \
                    st.value.func.attr == 'sort' and isinstance(st.value.func.value, (ast.Name, ast.Subscript)):
                tgt = st.value.func.value
            if tgt is None:
                continue
            vb = _view_of(tgt, bare=True)
            if vb is None:
                continue
            examined += 1
            t, anchored = vb
            if t in views:
                # through a local that is (re)taken as a view at every iteration
                binds = views[t]
                plain = [x for x in names if x.id == t and isinstance(x.ctx, ast.Store) and not isinstance(getattr(x, '_parent', None), ast.AugAssign)]
                if len(plain) != len(binds) or len({b for _, (b, _) in binds}) != 1 or not all(b_[0].lineno < st.lineno for b_ in binds):
                    continue
                base, anchored = binds[0][1][0], anchored and all(a for _, (_, a) in binds)
                via, vexpr = t, binds[0][0].value
                read_in_loop = any(x.id == t and isinstance(x.ctx, ast.Load) and id(x) in inside for x in names)
            elif isinstance(tgt, ast.Subscript):
                base, via, vexpr = t, None, tgt
                read_in_loop = any(x.id == t and isinstance(x.ctx, ast.Load) and id(x) in inside and
                                   not any(x is y for s2 in stmts if isinstance(s2, ast.AugAssign) for y in ast.walk(s2.target)) for x in names)
            else:
                continue            # `acc op= ..` on an array bound outside the loop: an accumulator, said as such
            if not anchored or not read_in_loop:
                continue
            bstores = [x for x in names if x.id == base and not isinstance(x.ctx, ast.Load)]
            if any(id(x) in inside for x in bstores):
                continue            # rebound inside the loop: a per-iteration array
            before = [x for x in bstores if x.lineno < L.lineno]
            if base in args:
                ann = args[base].annotation
                is_arr = ann is not None and re.search(r'NDArray|ndarray', norm(ann)) is not None
                bline = fn.lineno
            else:
                defs = [getattr(x, '_parent', None) for x in before]
                is_arr = bool(defs) and len(defs) == len(bstores) and \
                    all(isinstance(d, ast.Assign) and len(d.targets) == 1 and d.targets[0] is x and _makes_array(d.value) for d, x in zip(defs, before))
                bline = before[-1].lineno if before else 0
            if not is_arr:
                continue
            if any(x.id == base and isinstance(x.ctx, ast.Load) and id(x) not in inside for x in names):
                continue            # read outside the loop: what the loop leaves in it is a result (an accumulator)
            found.append((st.lineno, st, via, vexpr, base, bline))
    return found, examined


_R12_CONTROL = """
def f(groups, n):
    steps = np.arange(n)
    for k in groups:
        offs = steps[:k]
        offs += 1
        yield k + offs
"""


def rule_group_independence(ctx, m, pre):
    """C05-R12: see the module docstring.  `pre` = findings per function, taken before generator loops were opened (so that
    the construct is reported where it is written)."""
    fn0 = ast.parse(_R12_CONTROL).body[0]
    _reparent(fn0)
    ctx.control('C05-R12', len(loop_carried_views(fn0)[0]) == 1, 'embedded `offs = steps[:k]; offs += 1` inside a loop is recognised')
    for fi, (found, examined) in pre:
        for line, st, via, vexpr, base, bline in found:
            what = f'`{via}` is a view of `{base}` (`{norm(vexpr)[:50]}`)' if via else f'`{norm(vexpr)[:50]}` is a part of `{base}`'
            ctx.ob('C05-R12', fi, f'`{norm(st)[:60]}` inside the loop', False,
                   f'{what}, an array that is created once before the loop (line {bline}) and used nowhere else, and `{norm(st)[:50]}` alters '
                   f'it in place at every iteration: the view shares memory with `{base}`, so every iteration starts from the values the '
                   f'previous ones left behind, not from those `{base}` was created with - what is computed from it for the later groups of '
                   f'segments (grid lines crossed, crossing points, cells, shares) is wrong.  A per-iteration value needs its own array '
                   f'(a copy, or a fresh array per iteration)', line=line)
        if not found and examined:
            ctx.ob('C05-R12', fi, f'{examined} in-place alteration(s) inside loops', True,
                   'none alters, through a view retaken at every iteration, an array that lives across the iterations', nontrivial=False)


def _generator_shape(g):
    """(prefix statements, the loop, statements of the loop before the yield, yielded expression, statements of the loop
    after the yield) of a generator function that is `prefix; for ..: before; yield value; after` - one loop, one yield at the
    top level of its body, nothing that ends the generator early - else None"""
    if not isinstance(g, ast.FunctionDef) or g.decorator_list or g.args.vararg or g.args.kwarg or g.args.kwonlyargs or g.args.posonlyargs:
        return None
    body = list(g.body)
    if body and isinstance(body[0], ast.Expr) and isinstance(body[0].value, ast.Constant) and isinstance(body[0].value.value, str):
        body = body[1:]
    if body and isinstance(body[-1], ast.Return) and body[-1].value is None:
        body = body[:-1]
    if not body or not isinstance(body[-1], ast.For) or body[-1].orelse:
        return None
    loop, prefix = body[-1], body[:-1]
    ys = [x for x in walk_no_nested(g) if isinstance(x, (ast.Yield, ast.YieldFrom))]
    if len(ys) != 1 or not isinstance(ys[0], ast.Yield) or ys[0].value is None:
        return None
    if any(isinstance(x, (ast.Return, ast.Await, ast.Global, ast.Nonlocal, ast.Try, ast.With, ast.While, ast.Delete, ast.Lambda))
           or (isinstance(x, (ast.FunctionDef, ast.AsyncFunctionDef, ast.ClassDef)) and x is not g) for x in ast.walk(g)):
        return None
    at = next((i for i, st in enumerate(loop.body) if isinstance(st, ast.Expr) and st.value is ys[0]), None)
    if at is None:
        return None
    # nothing of the prefix / the loop may leave the loop other than by `continue` before the yield
    if any(isinstance(x, ast.Break) for st in loop.body for x in ast.walk(st)):
        return None
    if any(isinstance(x, ast.Continue) for st in loop.body[at + 1:] for x in ast.walk(st)):
        return None
    return prefix, loop, loop.body[:at], ys[0].value, loop.body[at + 1:]


def _state_fields(ci, call):
    """({parameter: argument expression}, {field: expression over the parameters}) when `call` constructs an object of class
    `ci` that only HOLDS what it is given: `__init__` is nothing but `self.f = <expression of the parameters>` (or the class
    is a dataclass without __post_init__ / __init__: field = parameter); else None"""
    if any(isinstance(a, ast.Starred) for a in call.args) or any(k.arg is None for k in call.keywords) or len(ci.mro()) > 1 and \
            any(b.name != 'object' and b is not ci for b in ci.mro()):
        return None
    init = ci.methods.get('__init__')
    if init is not None:
        a = init.node.args
        if a.vararg or a.kwarg or a.posonlyargs or a.kwonlyargs or not a.args:
            return None
        ps = [x.arg for x in a.args]
        me, ps = ps[0], ps[1:]
        dflt = dict(zip(reversed(ps), reversed(a.defaults)))
        fields = {}
        for st in init.node.body:
            if isinstance(st, ast.Expr) and isinstance(st.value, ast.Constant):
                continue
            t, v = (st.targets[0], st.value) if isinstance(st, ast.Assign) and len(st.targets) == 1 else \
                (st.target, st.value) if isinstance(st, ast.AnnAssign) and st.value is not None else (None, None)
            if not (isinstance(t, ast.Attribute) and isinstance(t.value, ast.Name) and t.value.id == me) or t.attr in fields or \
                    any(isinstance(x, ast.Name) and x.id == me for x in ast.walk(v)) or \
                    any(isinstance(x, (ast.Call, ast.Lambda, ast.NamedExpr, ast.Await, ast.Yield)) for x in ast.walk(v)):
                return None
            fields[t.attr] = v
    else:
        if not any(norm(d).split('(')[0].endswith('dataclass') for d in ci.node.decorator_list) or '__post_init__' in ci.methods:
            return None
        ps = list(ci.annotated_fields())
        dflt = {k: v for k, v in ci.class_assignments().items() if k in ps and v is not None}
        fields = {f: ast.Name(id=f, ctx=ast.Load()) for f in ps}
    if len(call.args) > len(ps):
        return None
    bind = dict(zip(ps, call.args))
    for k in call.keywords:
        if k.arg in bind or k.arg not in ps:
            return None
        bind[k.arg] = k.value
    for p_ in ps:
        if p_ not in bind:
            if p_ not in dflt or not isinstance(dflt[p_], ast.Constant):
                return None
            bind[p_] = dflt[p_]
    return bind, fields


def open_generator_loops(m, fn, counter):
    """`for T in gen(args): BODY` where `gen` is a generator function of the module of the shape `prefix; for v in it: before;
    yield value; after` (see _generator_shape) is, with the generator's parameters and locals renamed apart,

        params = args; prefix
        for v in it:
            before; T = value; BODY; after

    (a generator runs its body interleaved with the consumer's loop body, one `yield` per iteration; `continue` / `break` of
    BODY are only accepted when nothing follows the yield).  What the rules then read is the loop that is executed, whoever
    holds its state.  Returns the number of loops opened."""
    from ..astutil import parent
    done = 0
    for _ in range(8):
        hit = None
        for loop in [x for x in walk_no_nested(fn) if isinstance(x, ast.For)]:
            c = loop.iter
            if loop.orelse or not isinstance(c, ast.Call) or c.keywords and any(k.arg is None for k in c.keywords) or \
                    any(isinstance(a, ast.Starred) for a in c.args):
                continue
            g = None
            if isinstance(c.func, ast.Name):
                g = m.functions.get(c.func.id) or _SYNTH_GENERATORS.get(c.func.id)
                skip = 0
            elif isinstance(c.func, ast.Attribute) and isinstance(c.func.value, ast.Name) and c.func.value.id == 'self':
                cands = [f for q, f in m.functions.items() if q.endswith('.' + c.func.attr) and q.count('.') == 1]
                g = cands[0] if len(cands) == 1 and 'staticmethod' not in cands[0].decorators() and \
                    'classmethod' not in cands[0].decorators() else None
                skip = 1
            state = None
            if g is None and isinstance(c.func, ast.Attribute) and isinstance(c.func.value, ast.Call) and \
                    isinstance(c.func.value.func, ast.Name) and c.func.value.func.id in m.classes:
                # a method of an object made on the spot that only holds what it is given (the loop's state moved into a class)
                ci = m.classes[c.func.value.func.id]
                g = ci.methods.get(c.func.attr)
                state = _state_fields(ci, c.func.value) if g is not None and not g.decorators() else None
                skip = 1
                if state is None or not g.node.args.args:
                    g = None
                else:
                    me = g.node.args.args[0].arg
                    uses = [x for x in ast.walk(g.node) if isinstance(x, ast.Name) and x.id == me]
                    if not all(isinstance(getattr(x, '_parent', None), ast.Attribute) and isinstance(x._parent.ctx, ast.Load) and
                               x._parent.attr in state[1] for x in uses):
                        g = None            # calls its own methods / writes its fields: not a plain holder of values
            if g is None or g.node is fn:
                continue
            shape = _generator_shape(g.node)
            if shape is None:
                continue
            ps = [a.arg for a in g.node.args.args]
            dflt = dict(zip(reversed(ps), reversed(g.node.args.defaults)))
            bind = {}
            if skip:
                if not ps:
                    continue
                bind[ps[0]] = ast.Name(id='self', ctx=ast.Load())
            rest = ps[skip:]
            if len(c.args) > len(rest):
                continue
            bind.update(zip(rest, c.args))
            bad = False
            for k in c.keywords:
                if k.arg in bind or k.arg not in rest:
                    bad = True
                bind[k.arg] = k.value
            for p_ in rest:
                if p_ not in bind:
                    if p_ in dflt:
                        bind[p_] = dflt[p_]
                    else:
                        bad = True
            prefix, gl, before, value, after = shape
            if bad or (after and any(isinstance(x, (ast.Continue, ast.Break)) for st in loop.body for x in ast.walk(st))):
                continue
            body = next((b for f in ('body', 'orelse', 'finalbody') for b in [getattr(parent(loop), f, None)]
                         if isinstance(b, list) and any(s_ is loop for s_ in b)), None)
            if body is None:
                continue
            hit = (loop, g, bind, shape, body, ps, skip, state)
            break
        if hit is None:
            break
        loop, g, bind, (prefix, gl, before, value, after), body, ps, skip, state = hit
        counter[0] += 1
        local = set(ps) | {x.id for x in ast.walk(g.node) if isinstance(x, ast.Name) and not isinstance(x.ctx, ast.Load)}
        if skip:
            local.discard(ps[0])
        taken = {x.id for x in ast.walk(fn) if isinstance(x, ast.Name)} | {a.arg for a in ast.walk(fn) if isinstance(a, ast.arg)}
        ren = {}
        for nm in sorted(local):
            new = f'_g{counter[0]}_{nm.lstrip("_")}'
            while new in taken:
                new += '_'
            ren[nm] = new
        if skip:
            ren[ps[0]] = 'self'
        fren = {}
        if state is not None:
            for kind, nm in [('p', x) for x in state[0]] + [('f', x) for x in state[1]]:
                new = f'_g{counter[0]}_{"arg" if kind == "p" else "held"}_{nm.lstrip("_")}'
                while new in taken or new in ren.values():
                    new += '_'
                fren[(kind, nm)] = new

        def moved(st):
            st = tcopy(st)
            if state is not None:
                class F(ast.NodeTransformer):
                    def visit_Attribute(self, n):
                        if isinstance(n.value, ast.Name) and n.value.id == ps[0] and ('f', n.attr) in fren:
                            return ast.Name(id=fren[('f', n.attr)], ctx=ast.Load())
                        return self.generic_visit(n)
                st = F().visit(st)
            for x in ast.walk(st):
                if isinstance(x, ast.Name) and x.id in ren:
                    x.id = ren[x.id]
                if hasattr(x, 'lineno') or isinstance(x, (ast.stmt, ast.expr)):
                    ast.copy_location(x, loop)
            return st

        def assign(target, val):
            a = ast.Assign(targets=[target], value=val, type_comment=None)
            for x in ast.walk(a):
                if isinstance(x, (ast.stmt, ast.expr)) and not hasattr(x, 'lineno'):
                    ast.copy_location(x, loop)
            return ast.copy_location(a, loop)

        new = []
        if state is not None:
            for p_, a_ in state[0].items():
                new.append(assign(ast.Name(id=fren[('p', p_)], ctx=ast.Store()), tcopy(a_)))
            for f_, v_ in state[1].items():
                v_ = tcopy(v_)
                for x in ast.walk(v_):
                    if isinstance(x, ast.Name) and ('p', x.id) in fren:
                        x.id = fren[('p', x.id)]
                new.append(assign(ast.Name(id=fren[('f', f_)], ctx=ast.Store()), v_))
        for p_ in ps[skip:]:
            new.append(assign(ast.Name(id=ren[p_], ctx=ast.Store()), tcopy(bind[p_])))
        new += [moved(st) for st in prefix]
        val = moved(ast.Expr(value=value)).value
        tg = loop.target
        inner = [moved(st) for st in before]
        if isinstance(tg, (ast.Tuple, ast.List)) and isinstance(val, ast.Tuple) and len(tg.elts) == len(val.elts) and \
                all(isinstance(t, ast.Name) for t in tg.elts) and not any(isinstance(e, ast.Starred) for e in val.elts) and \
                not ({t.id for t in tg.elts} & {x.id for x in ast.walk(val) if isinstance(x, ast.Name)}):
            inner += [assign(t, e) for t, e in zip(tg.elts, val.elts)]
        else:
            inner.append(assign(tg, val))
        inner += loop.body + [moved(st) for st in after]
        merged = ast.For(target=moved(ast.Expr(value=gl.target)).value, iter=moved(ast.Expr(value=gl.iter)).value, body=inner, orelse=[],
                         type_comment=None)
        for x in ast.walk(merged.target):
            if isinstance(x, (ast.Name, ast.Tuple, ast.List, ast.Starred)):
                x.ctx = ast.Store()
        ast.copy_location(merged, loop)
        i = next(i for i, s_ in enumerate(body) if s_ is loop)
        body[i:i + 1] = new + [merged]
        _reparent(fn)
        done += 1
    if done and os.environ.get('AEIC_VERIF_DEBUG'):
        import sys
        print(f'c05: {done} generator loop(s) opened in {fn.name}:\n{ast.unparse(fn)}', file=sys.stderr)
    return done


class _Synth:
    """a generator function made by open_value_objects (a generator method of a value object with the object's fields for
    parameters): what open_generator_loops needs of a function"""
    def __init__(self, node):
        self.node = node

    def decorators(self):
        return []


_SYNTH_GENERATORS: dict = {}
_MUTATORS = ('sort', 'fill', 'resize', 'put', 'itemset', 'append', 'extend', 'insert', 'pop', 'remove', 'clear', 'update', 'reverse',
             'setdefault', 'add', 'discard', 'partition', 'setflags', 'byteswap')


def _single_return(f):
    """the returned expression of a function that is (docstring +) one `return <expression>` without binders / effects of its
    own (comprehension, lambda, walrus, yield, await), else None"""
    body = list(f.body)
    if body and isinstance(body[0], ast.Expr) and isinstance(body[0].value, ast.Constant) and isinstance(body[0].value.value, str):
        body = body[1:]
    if len(body) != 1 or not isinstance(body[0], ast.Return) or body[0].value is None:
        return None
    e = body[0].value
    if any(isinstance(x, (ast.Lambda, ast.NamedExpr, ast.Yield, ast.YieldFrom, ast.Await, ast.ListComp, ast.SetComp, ast.DictComp,
                          ast.GeneratorExp)) for x in ast.walk(e)):
        return None
    return e


def open_value_objects(prog, m, fn, counter):
    """A local bound once to `K(args)`, K a class of the module that only HOLDS what it is given (_state_fields: dataclass
    without __post_init__, or an __init__ of plain `self.f = <parameters>`), none of whose methods stores to the receiver,
    and that is used in the function only as `v.<field>`, `v.<property>`, `v.<method>(..)` with every property / method one
    `return <expression>` (properties and functools.cached_property alike: the object is never altered, so the cached value
    is the computed one; not when a cached value or a field is written through in the function), or as the iterable
    `for T in v.<generator method>(..)`, IS its fields: the fields become locals (the argument itself when it is a name the
    function never rebinds), property reads and method calls are replaced by their returned expression over the fields -
    wherever they stand, also in an arm of a conditional expression or inside a comprehension, since they are expressions
    without effects - and a generator method becomes a generator function over the fields which open_generator_loops then
    merges with the consuming loop.  Nothing is done when any use of the object is of another kind (passed on, returned,
    stored, compared, a field assigned).  Returns the number of objects opened."""
    done = 0
    for _round in range(6):
        cand = None
        stored = {}
        for x in ast.walk(fn):
            if isinstance(x, ast.Name) and not isinstance(x.ctx, ast.Load):
                stored[x.id] = stored.get(x.id, 0) + 1
            elif isinstance(x, ast.arg):
                stored[x.arg] = stored.get(x.arg, 0) + 1
        top_args = {a.arg for a in fn.args.args + fn.args.kwonlyargs + fn.args.posonlyargs}
        for st in ast.walk(fn):
            if not (isinstance(st, ast.Assign) and len(st.targets) == 1 and isinstance(st.targets[0], ast.Name) or
                    isinstance(st, ast.AnnAssign) and isinstance(st.target, ast.Name) and st.value is not None):
                continue
            t = st.targets[0] if isinstance(st, ast.Assign) else st.target
            c = st.value
            if not (isinstance(c, ast.Call) and isinstance(c.func, ast.Name) and c.func.id in m.classes) or stored.get(t.id) != 1 or \
                    (t.id, st.lineno) in counter[1]:
                continue
            # bound at the top level of a block of the function itself (not inside a nested function)
            if not any(s is st for s in walk_no_nested(fn)):
                continue
            cand = (t.id, st, m.classes[c.func.id])
            break
        if cand is None:
            break
        name, st0, ci = cand
        counter[1].add((name, st0.lineno))
        state = _state_fields(ci, st0.value)
        if state is None:
            continue
        bind, fields = state
        if any(not isinstance(v_, ast.Name) or v_.id != f_ for f_, v_ in fields.items()) and ci.methods.get('__init__') is None:
            continue
        meths = {k: g for k, g in ci.methods.items() if k != '__init__'}
        if set(meths) & set(fields):
            continue
        # no method alters the object
        bad = False
        for g in list(meths.values()) + ([ci.methods['__init__']] if '__init__' in ci.methods else []):
            if not g.node.args.args:
                bad = True
                break
            me = g.node.args.args[0].arg
            for x in ast.walk(g.node):
                if isinstance(x, ast.Name) and x.id == me:
                    p = getattr(x, '_parent', None)
                    if not isinstance(p, ast.Attribute) or (not isinstance(p.ctx, ast.Load) and g.node.name != '__init__'):
                        bad = True
        if bad:
            continue
        kinds = {}
        for k, g in meths.items():
            decs = [d.split('.')[-1] for d in g.decorators()]
            if decs in (['property'], ['cached_property']):
                kinds[k] = decs[0]
            elif not decs:
                kinds[k] = 'generator' if any(isinstance(x, (ast.Yield, ast.YieldFrom)) for x in walk_no_nested(g.node)) else 'method'
            else:
                kinds[k] = None
        # every use of the object in the function
        uses = [x for x in ast.walk(fn) if isinstance(x, ast.Name) and x.id == name and isinstance(x.ctx, ast.Load)]
        ok = True
        for x in uses:
            p = getattr(x, '_parent', None)
            if not (isinstance(p, ast.Attribute) and isinstance(p.ctx, ast.Load)):
                ok = False
                break
            a, pp = p.attr, getattr(p, '_parent', None)
            if a in fields or kinds.get(a) in ('property', 'cached_property'):
                continue
            if kinds.get(a) in ('method', 'generator') and isinstance(pp, ast.Call) and pp.func is p:
                if kinds[a] == 'generator' and not (isinstance(getattr(pp, '_parent', None), ast.For) and pp._parent.iter is pp):
                    ok = False
                    break
                continue
            ok = False
            break
        if not ok or not uses:
            continue
        # the fields as locals
        taken = set(stored) | {x.id for x in ast.walk(fn) if isinstance(x, ast.Name)}
        init = ci.methods.get('__init__')
        pre, floc = [], {}

        def fresh(base):
            nm = base
            while nm in taken:
                nm += '_'
            taken.add(nm)
            return nm

        def located(node):
            for x in ast.walk(node):
                if isinstance(x, (ast.stmt, ast.expr)):
                    ast.copy_location(x, st0)
            return node
        pvals = {}
        for p_, a_ in bind.items():
            if isinstance(a_, ast.Constant) or (isinstance(a_, ast.Name) and a_.id in top_args and stored.get(a_.id) == 1):
                pvals[p_] = a_
            else:
                nm = fresh(f'{name}__{p_.lstrip("_")}' if init is None else f'{name}__arg_{p_.lstrip("_")}')
                pre.append(located(ast.Assign(targets=[ast.Name(id=nm, ctx=ast.Store())], value=tcopy(a_), type_comment=None)))
                pvals[p_] = ast.Name(id=nm, ctx=ast.Load())
        for f_, v_ in fields.items():
            if isinstance(v_, ast.Name) and v_.id in pvals:
                floc[f_] = pvals[v_.id]
                continue
            v2 = tcopy(v_)

            class P(ast.NodeTransformer):
                def visit_Name(self, n):
                    return tcopy(pvals[n.id]) if n.id in pvals else n
            v2 = P().visit(ast.Expr(value=v2)).value
            nm = fresh(f'{name}__{f_.lstrip("_")}')
            pre.append(located(ast.Assign(targets=[ast.Name(id=nm, ctx=ast.Store())], value=v2, type_comment=None)))
            floc[f_] = ast.Name(id=nm, ctx=ast.Load())
        exprs = {k: _single_return(g.node) for k, g in meths.items() if kinds.get(k) in ('property', 'cached_property', 'method')}

        class Cannot(Exception):
            pass

        def expand(e, me, env, depth=0):
            """e (an expression of a method with receiver `me`, parameters bound by env) over the field locals"""
            if depth > 8:
                raise Cannot('depth')

            class X(ast.NodeTransformer):
                def visit_Call(self, n):
                    f = n.func
                    if isinstance(f, ast.Attribute) and isinstance(f.value, ast.Name) and f.value.id == me and f.value.id not in env \
                            and kinds.get(f.attr) == 'method':
                        body = exprs.get(f.attr)
                        g = meths[f.attr].node
                        a = g.args
                        if body is None or a.vararg or a.kwarg or a.kwonlyargs or a.posonlyargs or \
                                any(isinstance(z, ast.Starred) for z in n.args) or any(k.arg is None for k in n.keywords):
                            raise Cannot(f.attr)
                        ps = [z.arg for z in a.args][1:]
                        if len(n.args) > len(ps):
                            raise Cannot(f.attr)
                        b = dict(zip(ps, [self.visit(z) for z in n.args]))
                        for k in n.keywords:
                            if k.arg in b or k.arg not in ps:
                                raise Cannot(f.attr)
                            b[k.arg] = self.visit(k.value)
                        dflt = dict(zip(reversed(ps), reversed(a.defaults)))
                        for p_ in ps:
                            if p_ not in b:
                                if p_ not in dflt or not isinstance(dflt[p_], ast.Constant):
                                    raise Cannot(f.attr)
                                b[p_] = dflt[p_]
                        for p_, z in b.items():
                            simple = isinstance(z, (ast.Name, ast.Constant)) or (
                                isinstance(z, (ast.Attribute, ast.Subscript)) and
                                not any(isinstance(w, ast.Call) for w in ast.walk(z)))
                            n_use = sum(1 for w in ast.walk(body) if isinstance(w, ast.Name) and w.id == p_)
                            if not simple and n_use != 1:
                                raise Cannot(f'{f.attr}({p_})')
                        return expand(body, a.args[0].arg, b, depth + 1)
                    return self.generic_visit(n)

                def visit_Attribute(self, n):
                    if isinstance(n.value, ast.Name) and n.value.id == me and me not in env:
                        if not isinstance(n.ctx, ast.Load):
                            raise Cannot('store')
                        if n.attr in floc:
                            return ast.copy_location(tcopy(floc[n.attr]), n)
                        if kinds.get(n.attr) in ('property', 'cached_property'):
                            body = exprs.get(n.attr)
                            if body is None:
                                raise Cannot(n.attr)
                            g = meths[n.attr].node
                            return expand(body, g.args.args[0].arg, {}, depth + 1)
                        raise Cannot(n.attr)
                    return self.generic_visit(n)

                def visit_Name(self, n):
                    if n.id in env:
                        return ast.copy_location(tcopy(env[n.id]), n)
                    if n.id == me:
                        raise Cannot('the object itself')
                    if depth > 0 and n.id in stored:
                        raise Cannot(f'{n.id} means a local of the function here')   # a module-level name of the class's methods
                    return n
            out = X().visit(ast.Expr(value=tcopy(e))).value
            return out
        # a cached value / a field that is written through has an identity: left alone
        cached = {k for k, v_ in kinds.items() if v_ == 'cached_property'}
        held = {z.id for z in floc.values() if isinstance(z, ast.Name)}
        alias = set(held)
        for x in ast.walk(fn):
            if isinstance(x, ast.Assign) and isinstance(x.value, ast.Attribute) and isinstance(x.value.value, ast.Name) and \
                    x.value.value.id == name:
                alias |= {t.id for t in x.targets if isinstance(t, ast.Name)}

        def written_through(root, is_obj):
            for x in ast.walk(root):
                if isinstance(x, ast.Subscript) and not isinstance(x.ctx, ast.Load) and is_obj(x.value):
                    return True
                if isinstance(x, ast.AugAssign) and (is_obj(x.target) or isinstance(x.target, ast.Subscript) and is_obj(x.target.value)):
                    return True
                if isinstance(x, ast.Call) and isinstance(x.func, ast.Attribute) and x.func.attr in _MUTATORS and is_obj(x.func.value):
                    return True
                if isinstance(x, ast.keyword) and x.arg == 'out' and is_obj(x.value):
                    return True
            return False
        if cached:
            def is_cached_or_field(e):
                if isinstance(e, ast.Name):
                    return e.id in alias
                return isinstance(e, ast.Attribute) and isinstance(e.value, ast.Name) and (
                    e.value.id == name or any(e.value.id == g.node.args.args[0].arg for g in meths.values())) and \
                    (e.attr in cached or e.attr in fields)
            if written_through(fn, is_cached_or_field) or any(written_through(g.node, is_cached_or_field) for g in meths.values()):
                continue
        work_calls = []
        try:
            class U(ast.NodeTransformer):
                def visit_For(self, n):
                    c = n.iter
                    if isinstance(c, ast.Call) and isinstance(c.func, ast.Attribute) and isinstance(c.func.value, ast.Name) and \
                            c.func.value.id == name and kinds.get(c.func.attr) == 'generator':
                        g = meths[c.func.attr].node
                        me = g.args.args[0].arg
                        if g.args.vararg or g.args.kwarg or g.args.kwonlyargs or g.args.posonlyargs:
                            raise Cannot(c.func.attr)
                        gl = {z.id for z in ast.walk(g) if isinstance(z, ast.Name) and not isinstance(z.ctx, ast.Load)} | \
                            {z.arg for z in g.args.args}
                        fpar = {}
                        for f_ in fields:
                            nm = f'{f_}'
                            while nm in gl or nm in fpar.values():
                                nm = '_' + nm
                            fpar[f_] = nm
                        g2 = tcopy(g)
                        saved = dict(floc)
                        try:
                            for f_ in fields:
                                floc[f_] = ast.Name(id=fpar[f_], ctx=ast.Load())
                            g2.body = [expand_stmt(s, me) for s in g2.body]
                        finally:
                            floc.clear()
                            floc.update(saved)
                        g2.args.args = [ast.arg(arg=fpar[f_], annotation=None) for f_ in fields] + g2.args.args[1:]
                        g2.returns = None
                        counter[0] += 1
                        g2.name = f'_vo{counter[0]}_{ci.name.strip("_")}_{g.name.strip("_")}'
                        g2.decorator_list = []
                        ast.fix_missing_locations(g2)
                        _reparent(g2)
                        work_calls.append((g2.name, g2))
                        n.iter = ast.copy_location(ast.Call(
                            func=ast.Name(id=g2.name, ctx=ast.Load()),
                            args=[tcopy(saved[f_]) for f_ in fields] + [self.visit(a) for a in c.args],
                            keywords=[ast.keyword(arg=k.arg, value=self.visit(k.value)) for k in c.keywords]), c)
                        n.body = [self.visit(s) for s in n.body]
                        n.orelse = [self.visit(s) for s in n.orelse]
                        return n
                    return self.generic_visit(n)

                def visit_Call(self, n):
                    f = n.func
                    if isinstance(f, ast.Attribute) and isinstance(f.value, ast.Name) and f.value.id == name:
                        return ast.copy_location(located_like(expand(n, name, {}), n), n)
                    return self.generic_visit(n)

                def visit_Attribute(self, n):
                    if isinstance(n.value, ast.Name) and n.value.id == name:
                        return ast.copy_location(located_like(expand(n, name, {}), n), n)
                    return self.generic_visit(n)

            def located_like(e, at):
                for x in ast.walk(e):
                    if isinstance(x, (ast.stmt, ast.expr)):
                        ast.copy_location(x, at)
                return e

            def expand_stmt(s, me):
                class G(ast.NodeTransformer):
                    def visit_Call(self, n):
                        f = n.func
                        if isinstance(f, ast.Attribute) and isinstance(f.value, ast.Name) and f.value.id == me:
                            return ast.copy_location(expand(n, me, {}), n)
                        return self.generic_visit(n)

                    def visit_Attribute(self, n):
                        if isinstance(n.value, ast.Name) and n.value.id == me:
                            return ast.copy_location(expand(n, me, {}), n)
                        return self.generic_visit(n)

                    def visit_Name(self, n):
                        if n.id == me:
                            raise Cannot('the object itself')
                        return n
                return G().visit(s)
            body = [U().visit(s) for s in _detached(fn).body]
        except Cannot:
            continue
        tmp = ast.FunctionDef(name=fn.name, args=fn.args, body=body, decorator_list=[], returns=None, type_comment=None)
        if any(isinstance(x, ast.Name) and x.id == name and isinstance(x.ctx, ast.Load) for x in ast.walk(tmp)):
            continue
        # the instantiation goes, the field locals come
        placed = False
        for x in ast.walk(tmp):
            for fld in ('body', 'orelse', 'finalbody'):
                b = getattr(x, fld, None)
                if isinstance(b, list):
                    for i, s in enumerate(b):
                        if isinstance(s, (ast.Assign, ast.AnnAssign)) and getattr(s, 'lineno', None) == st0.lineno and \
                                isinstance(s.value, ast.Call) and isinstance(s.value.func, ast.Name) and s.value.func.id == ci.name and \
                                isinstance(s.targets[0] if isinstance(s, ast.Assign) else s.target, ast.Name) and \
                                (s.targets[0] if isinstance(s, ast.Assign) else s.target).id == name:
                            b[i:i + 1] = pre or [ast.copy_location(ast.Pass(), st0)]
                            placed = True
                            break
                if placed:
                    break
            if placed:
                break
        if not placed:
            continue
        fn.body = body
        for nm, g2 in work_calls:
            _SYNTH_GENERATORS[nm] = _Synth(g2)
        _reparent(fn)
        done += 1
    if done and os.environ.get('AEIC_VERIF_DEBUG'):
        import sys
        print(f'c05: {done} value object(s) opened in {fn.name}:\n{ast.unparse(fn)}', file=sys.stderr)
    return done


def _detached(fn):
    """a copy of the function node (parent links not followed)"""
    return tcopy(fn)


class GridValues(Values):
    """c04.Values with the precision of reaching definitions where a local is bound to (a view of) another local:
    `a = b` followed by an alteration of `b` leaves `a` opaque only when that alteration can meet the object `a` was bound
    to, i.e. when it is reached from the binding of `a` on a path that does not REBIND `b` first.  (A helper inlined twice
    leaves `t = alloc(); fill t; first = t; t = alloc(); fill t; second = t`: the second filling alters another object.)"""

    def _result_shape(self, callee):
        """c04's shape of a single returned structure, for a function with SEVERAL returns (guard clauses: `if not xs: return
        a, b, ()` before the general case): the shape of each return taken by itself, merged - the same nesting on every
        path, and at each leaf the local every path returns (or locals of one role); where one path returns an empty display /
        a constant and another a local (`()` for "no integrated variables"), the component is what the local names: the
        empty value has no content of another role.  Paths that disagree leave the result without a shape, as before."""
        k = id(callee.node)
        if k in self._opened and 'shape' in self._opened[k]:
            return self._opened[k]['shape']
        rets = [r for r in walk_no_nested(callee.node) if isinstance(r, ast.Return) and r.value is not None]
        if len(rets) <= 1 or len(rets) > 6:
            return super()._result_shape(callee)
        import copy
        shapes = []
        for i in range(len(rets)):
            node = tcopy(callee.node)
            rs = [r for r in walk_no_nested(node) if isinstance(r, ast.Return) and r.value is not None]
            if len(rs) != len(rets):
                shapes = None
                break
            for j, r in enumerate(rs):
                if j != i:
                    r.value = None
            _reparent(node)
            fake = copy.copy(callee)
            try:
                fake.node = node
            except AttributeError:
                shapes = None
                break
            self._keepalive = getattr(self, '_keepalive', []) + [node]      # ids are cache keys: no reuse while we live
            shapes.append(super()._result_shape(fake))

        def merge(a, b):
            if a is None or b is None:
                return None
            if isinstance(a, dict) and isinstance(b, dict):
                if a.keys() != b.keys():
                    return None
                out = {}
                for kk in a:
                    sub = merge(a[kk], b[kk])
                    if sub is None:
                        return None
                    out[kk] = sub
                return out
            empty = lambda z: (isinstance(z, dict) and not z) or (isinstance(z, str) and z.startswith('<'))   # noqa: E731
            if isinstance(a, str) and isinstance(b, str):
                if a == b:
                    return a
                if empty(a) or empty(b):
                    return b if empty(a) else a
                return a if leaf_role(a) is not None and leaf_role(a) == leaf_role(b) else None
            if isinstance(a, str) and empty(b) and not empty(a):
                return a
            if isinstance(b, str) and empty(a) and not empty(b):
                return b
            return None
        shape = None
        if shapes:
            shape = shapes[0]
            for s_ in shapes[1:]:
                shape = merge(shape, s_)
        self._opened.setdefault(k, {})['shape'] = shape
        return shape

    def _rebinds(self, view):
        k = ('kill', id(view.fn))
        if k not in self._opened:
            out = {}
            for node in view.cfg.nodes:
                kill, _ = view._effects(node)
                for nm in kill:
                    out.setdefault(nm, set()).add(node.id)
            self._opened[k] = out
        return self._opened[k]

    def _aliased_then_altered(self, view, name, ds, at=None):
        muts = self._mutations(view)
        kills = self._rebinds(view)
        for d in ds:
            base = self._viewed(plain_value(d, name))
            if base is None or base == name or not muts.get(base):
                continue
            dn = [i for i in view.cfg.nodes_of(d) if view.cfg.nodes[i].kind != 'join']
            stop = kills.get(base, set())
            for a in dn:
                ok_edge = lambda x, y, lab, a=a: lab != 'e' and (x == a or x not in stop)
                if any(view.cfg.reaches(a, b, edge_ok=ok_edge) for b in muts[base]):
                    return True
        through = self._opened[('alias', id(view.fn))].get(name)
        if through and at is not None:
            ok_edge = lambda x, y, lab: lab != 'e'
            own = {i for d in ds for i in view.cfg.nodes_of(d)}
            an = [i for i in view.cfg.nodes_of(at) if view.cfg.nodes[i].kind != 'join']
            if any(b not in own and view.cfg.reaches(b, a, edge_ok=ok_edge) for b in through for a in an):
                return True
        return False


def run(ctx):
    prog = ctx.prog
    m = prog.module(GRID)
    specialise_selector_calls(prog, m)
    from ..resolve import closure
    on_path = [fi for fi in closure(prog, [m.func(q) for q in ENTRY_POINTS if q in m.functions])
               if fi.file == m.relpath and '<locals>' not in fi.qualname and isinstance(fi.node, ast.FunctionDef)]
    carried = [(fi, loop_carried_views(fi.node)) for fi in sorted(on_path, key=lambda f: f.node.lineno)]
    opened = [0]
    objs = [0, set()]
    for fi in m.functions.values():
        if '<locals>' not in fi.qualname and isinstance(fi.node, ast.FunctionDef):
            open_value_objects(prog, m, fi.node, objs)
    for fi in m.functions.values():
        if '<locals>' not in fi.qualname:
            open_generator_loops(m, fi.node, opened)
    for fi in m.functions.values():
        if '<locals>' not in fi.qualname:
            split_tuple_locals(fi.node)
    fn = m.func(SHARE_FN)
    if '_grid_values' not in ctx.__dict__:
        ctx._grid_values = GridValues(ctx.prog, keep=(DIST_FN, 'crosses_dateline', SHARE_FN.split('.')[-1], HZ_FN.split('.')[-1]))

    def split_points():
        try:
            rule_split_points(ctx, m)
        except Undecided as e:
            ctx.undecided('C05-R1', (GRID, 'Gridder._dateline_split_*'), 'antimeridian split', str(e))

    from .c04 import rule_forwarding
    run_rules(ctx, 'C05', [
        lambda: rule_group_independence(ctx, m, carried),  # R12
        lambda: rule_outputs(ctx, m),                      # R1, R2, R4
        lambda: rule_result_roles(ctx, m, fn),             # R2
        split_points,                                      # R1
        lambda: rule_direction(ctx, m, 'C05-R5'),
        lambda: rule_mirror(ctx, m),                       # R6
        lambda: rule_guards(ctx, m),                       # R7
        lambda: rule_on_line(ctx, m),                      # R11
        lambda: rule_lines_crossed(ctx, m),                # R13
        lambda: rule_axes(ctx, m),                         # R3
        lambda: rule_lookup(ctx, m, 'C05-R8'),
        lambda: rule_forwarding(ctx, m, 'C05-R9', ('lats', 'lons', 'altitudes', 'times', 'state_variables', 'integrated_variables'),
                                'the cells are then attributed from altered coordinates (a wrap into [-π, π) moves a way-point on 180°E '
                                'to 180°W and sends a track that never crosses the antimeridian through the split path)'),
        lambda: rule_crossing_index(ctx, m),               # R10
    ])
    ctx.note('NOT decided: lat/lon cell attribution, path order of pieces, equality of shares with length shares '
             '(grid-line intersection ordering and midpoint look-up are real-valued geometry)')
    ctx.assumptions += ['np.searchsorted(grid, x) − 1 is the index of the last grid value ≤ x (left side)',
                        'indexing with a boolean mask returns a fresh flat array (a following .flatten() is the identity)',
                        'altitudes, times and every state variable have one entry per way-point (as many as lats)']
