"""C08 — lookup by flight identifier returns exactly the matching trajectory.

R1  stale-flag discipline (T-ORDER): every normal path through `add` passes the
    point where `index_stale = True` is set for identified stores; in
    get_flight / sync / close every use of the index (reads of the index
    variables, dataset sync/close, dropping the index group) is dominated by
    the lazy `_reindex()`; `_reindex` clears the flag only after both index
    variables were stored.
R2  sorted-writer <-> bisect-reader agreement: both writers store the two
    index variables from one `sorted(pairs, key=component)`; the variable the
    reader bisects on is the sort component, and the reader confirms the hit
    and bounds before using the parallel variable.
R3  merged offsets: trajectory_index + index_offset, the offset advanced by
    len(store) after each input, iterating the caller's list unchanged.
R4  all-or-none: `add` and `merge` refuse mixed identifier use.
R5  file-link typestate: `self._nc[<key>]` and `self.index_group.<attr>` are
    dereferenced only on paths that established that files are attached
    (CFG with certifying edges removed, propagated over self-calls from the
    public entry points); an in-memory store answers look-ups from its cache.
"""

from __future__ import annotations

import ast

from ..astutil import (ancestors, call_name, calls_in, conjuncts, guards_of, kwarg, norm,
                       single_def_value, stmt_of, stores_to, walk_no_nested)
from ..cfg import CFG
from ..loader import dotted_name

STORE = 'trajectories/store.py'
ALLOWED_GUARD_ATOMS = {'self.indexable', 'self.index_stale', 'self._write_enabled'}


def _normal(a, b, lab):
    return lab != 'e'


def _guard_atoms(test: ast.expr) -> set[str]:
    return {('' if pol else 'not ') + norm(e) for e, pol in conjuncts(test, True)}


def rule_stale(ctx, m):
    add = m.func('TrajectoryStore.add')
    g = CFG(add.node)
    sets = [n for n in g.nodes if n.kind == 'stmt' and isinstance(n.stmt, ast.Assign)
            and norm(n.stmt.targets[0]) == 'self.index_stale']
    true_sets = [n for n in sets if isinstance(n.stmt.value, ast.Constant) and n.stmt.value.value is True]
    ctx.floor('C08-R1', len(true_sets), 1, '`index_stale = True` in add')
    dom = g.dominators(edge_ok=_normal)
    for n in true_sets:
        gs = guards_of(n.stmt)
        atoms = set()
        for t, pol, _ in gs:
            atoms |= {a for a in _guard_atoms(t)} if pol else {'not(' + norm(t) + ')'}
        extra = atoms - {'self.indexable'}
        heads = [x for _, _, o in gs for x in g.nodes_of(o)] or [n.id]
        on_all = all(h in dom[g.exit] for h in heads)
        ok = not extra and on_all
        ctx.ob('C08-R1', add, 'index marked stale on every successful identified add', ok,
               'set under `if self.indexable` on every normal path to the return' if ok else
               (f'the stale mark is skipped under extra condition(s) {sorted(extra)}' if extra else
                'some normal path through add returns without passing the stale mark'),
               line=n.line)
    for n in sets:
        if n not in true_sets:
            ctx.ob('C08-R1', add, norm(n.stmt), False, 'add clears or overwrites the stale mark', line=n.line)
    # the mark must come after the insertion (write), otherwise a lookup in
    # between would clear it: check it is not before _write_trajectory
    wr = [n for n in g.nodes if n.stmt is not None and n.kind == 'stmt'
          and any(call_name(c).endswith('_write_trajectory') for c in calls_in(n.stmt))]
    for n in true_sets:
        ok = all(g.reaches(w.id, n.id, edge_ok=_normal) for w in wr)
        ctx.ob('C08-R1', add, 'stale mark follows the write', ok,
               'reachable from the write' if ok else 'stale mark is not on the path after the write',
               line=n.line, nontrivial=False)

    # users
    for fname, uses_pred in (('get_flight', 'read'), ('sync', 'sync'), ('close', 'close')):
        fi = m.func(f'TrajectoryStore.{fname}')
        g = CFG(fi.node)
        dom = g.dominators(edge_ok=_normal)
        re_nodes = [n for n in g.nodes if n.stmt is not None and n.kind == 'stmt'
                    and any(call_name(c) == 'self._reindex' for c in calls_in(n.stmt))]
        ctx.floor(f'C08-R1/{fname}', len(re_nodes), 1, f'_reindex() call in {fname}')
        gate_nodes = set()
        for rn in re_nodes:
            gs = guards_of(rn.stmt)
            atoms = set()
            bad_pol = False
            for t, pol, _ in gs:
                if not pol:
                    bad_pol = True
                atoms |= _guard_atoms(t)
            extra = atoms - ALLOWED_GUARD_ATOMS
            ok = not extra and not bad_pol
            ctx.ob('C08-R1', fi, f'lazy reindex guard {sorted(atoms)}', ok,
                   'reindex runs whenever the store is identified and stale' if ok else
                   f'reindex is skipped under extra condition(s) {sorted(extra) or "negated guard"}',
                   line=rn.line)
            if ok:
                gate_nodes |= {x for _, _, o in gs for x in g.nodes_of(o)} or {rn.id}
                if not gs:
                    gate_nodes.add(rn.id)
        uses = []
        for n in g.nodes:
            if n.stmt is None:
                continue
            exprs = [n.stmt] if n.kind == 'stmt' else []
            if n.kind == 'iter':
                exprs = [n.stmt.iter]
            if n.kind == 'test':
                exprs = [n.stmt.test]
            for e in exprs:
                for x in walk_no_nested(e):
                    if isinstance(x, ast.Attribute) and x.attr == 'variables' and 'index_group' in norm(x.value):
                        uses.append((n, 'read of the index variables'))
                    if isinstance(x, ast.Call) and isinstance(x.func, ast.Attribute) \
                            and x.func.attr in ('sync', 'close') and fname in ('sync', 'close') \
                            and norm(x.func.value) != 'self':
                        uses.append((n, f'{norm(x.func)}()'))
                if n.kind == 'stmt' and isinstance(n.stmt, ast.Assign) \
                        and norm(n.stmt.targets[0]) in ('self.index_group', 'self.index_dataset') \
                        and isinstance(n.stmt.value, ast.Constant) and n.stmt.value.value is None:
                    uses.append((n, f'{norm(n.stmt)} (index dropped)'))
        seen = set()
        for n, what in uses:
            if (n.id, what) in seen:
                continue
            seen.add((n.id, what))
            ok = any(gn in dom[n.id] for gn in gate_nodes)
            ctx.ob('C08-R1', fi, f'{what} after lazy reindex', ok,
                   'dominated by the reindex gate' if ok else
                   'this use of the index can run while the index is stale', line=n.line)

    # _reindex clears the flag last
    ri = m.func('TrajectoryStore._reindex')
    g = CFG(ri.node)
    dom = g.dominators(edge_ok=_normal)
    clr = [n for n in g.nodes if n.kind == 'stmt' and isinstance(n.stmt, ast.Assign)
           and norm(n.stmt.targets[0]) == 'self.index_stale']
    var_stores = [n for n in g.nodes if n.kind == 'stmt' and isinstance(n.stmt, ast.Assign)
                  and 'index_group.variables[' in norm(n.stmt.targets[0])]
    ctx.floor('C08-R1/_reindex', len(var_stores), 2, 'index variable stores in _reindex')
    for c in clr:
        ok = all(v.id in dom[c.id] for v in var_stores) and isinstance(c.stmt.value, ast.Constant) \
            and c.stmt.value.value is False
        ctx.ob('C08-R1', ri, 'flag cleared only after both index variables are stored', ok,
               'both stores dominate the clear' if ok else 'the flag is cleared before the index is complete',
               line=c.line)
    if not clr:
        ctx.ob('C08-R1', ri, 'flag cleared', False, '_reindex never clears index_stale')


def _pair_layout(pairs: ast.expr):
    """component sources of the iterable of pairs: enumerate(F) / zip(A, B)."""
    if isinstance(pairs, ast.Call):
        cn = call_name(pairs)
        if cn == 'enumerate' and len(pairs.args) == 1:
            return ['<position>', norm(pairs.args[0])]
        if cn == 'zip' and len(pairs.args) == 2:
            return [norm(pairs.args[0]), norm(pairs.args[1])]
    return None


def _comp_of_listcomp(lc: ast.expr, src_name: str):
    """For `[e for a, b in SRC]` return index of the target component e names."""
    if isinstance(lc, ast.ListComp) and len(lc.generators) == 1:
        gen = lc.generators[0]
        if isinstance(gen.iter, ast.Name) and gen.iter.id == src_name and not gen.ifs \
                and isinstance(gen.target, ast.Tuple) and isinstance(lc.elt, ast.Name):
            for i, t in enumerate(gen.target.elts):
                if isinstance(t, ast.Name) and t.id == lc.elt.id:
                    return i
    return None


def rule_sorted(ctx, m):
    for qn in ('TrajectoryStore._reindex', 'TrajectoryStore._create_merged_store_index'):
        fi = m.func(qn)
        sorted_calls = [(t, st) for t, st, how in stores_to(fi.node)
                        if isinstance(t, ast.Name) and isinstance(getattr(st, 'value', None), ast.Call)
                        and call_name(st.value) == 'sorted']
        if len(sorted_calls) > 1:
            # keep the binding the index-variable writers project from
            used = {g.iter.id for tt, s2, how in stores_to(fi.node) if isinstance(s2, ast.Assign)
                    and 'index_group' in norm(tt) and isinstance(s2.value, ast.ListComp)
                    for g in s2.value.generators if isinstance(g.iter, ast.Name)}
            sorted_calls = [(t, st) for t, st in sorted_calls if t.id in used]
        if len(sorted_calls) != 1:
            ctx.undecided('C08-R2', fi, 'sorted(...)', f'expected one sorted() binding, found {len(sorted_calls)}')
        t, st = sorted_calls[0]
        sc = st.value
        layout = _pair_layout(sc.args[0]) if sc.args else None
        key = kwarg(sc, 'key')
        if kwarg(sc, 'reverse') is not None:
            ctx.ob('C08-R2', fi, 'sorted(..., reverse=...)', False,
                   'descending table, but the reader uses bisect_left (ascending)', line=sc.lineno)
        k = None
        if isinstance(key, ast.Lambda) and isinstance(key.body, ast.Subscript) \
                and isinstance(key.body.slice, ast.Constant):
            k = key.body.slice.value
        if layout is None or k not in (0, 1):
            ctx.undecided('C08-R2', fi, norm(sc)[:80], 'pair layout or sort key not recognised')
        writers = {}
        for tt, s2, how in stores_to(fi.node):
            txt = norm(tt)
            for var in ('flight_id', 'trajectory_index'):
                if f".variables['{var}'][:]" in txt and 'index_group' in txt:
                    writers[var] = (s2, _comp_of_listcomp(s2.value, t.id))
        if set(writers) != {'flight_id', 'trajectory_index'}:
            ctx.undecided('C08-R2', fi, 'index variable stores', f'found writers for {sorted(writers)}')
        s_id, c_id = writers['flight_id']
        s_ix, c_ix = writers['trajectory_index']
        if c_id is None or c_ix is None:
            ctx.undecided('C08-R2', fi, 'index variable stores', 'store is not a projection of the sorted pairs')
        ok = c_id == k
        ctx.ob('C08-R2', fi, f'flight_id table = component {c_id} of pairs sorted by component {k}', ok,
               'the searched variable is the sort key, hence ascending' if ok else
               'the variable the reader bisects on is not the one the pairs were sorted by',
               line=s_id.lineno)
        ok = 'flight_id' in layout[k]
        ctx.ob('C08-R2', fi, f'sort component {k} = {layout[k]}', ok,
               'the sort key is the flight identifier' if ok else 'pairs are sorted by something that is not the identifier',
               line=sc.lineno)
        ok = c_ix == 1 - k and ('position' in layout[1 - k] or 'index' in layout[1 - k])
        ctx.ob('C08-R2', fi, f'trajectory_index table = component {c_ix} = {layout[1 - k] if c_ix == 1 - k else "?"}', ok,
               'the parallel variable carries the store position of the same pair' if ok else
               'trajectory_index is not the position component of the same sorted pairs', line=s_ix.lineno)

    gf = m.func('TrajectoryStore.get_flight')
    bis = [c for c in calls_in(gf.node) if call_name(c) in ('bisect.bisect_left', 'bisect_left')]
    if len(bis) != 1:
        ctx.undecided('C08-R2', gf, 'bisect', f'expected one bisect_left call, found {len(bis)}')
    b = bis[0]
    arr = b.args[0]
    d = single_def_value(gf.node, arr.id) if isinstance(arr, ast.Name) else None
    ok = d is not None and "variables['flight_id']" in norm(d) and norm(b.args[1]) == gf.params[1]
    ctx.ob('C08-R2', gf, f'bisect_left({norm(arr)}, {norm(b.args[1])})', ok,
           'searches the flight_id variable for the requested identifier' if ok else
           'the binary search does not run over the flight_id variable with the requested identifier',
           line=b.lineno)
    pos = stmt_of(b).targets[0].id if isinstance(stmt_of(b), ast.Assign) else None
    rets = [n for n in walk_no_nested(gf.node) if isinstance(n, ast.Return)]
    none_rets = [r for r in rets if r.value is None or (isinstance(r.value, ast.Constant) and r.value.value is None)]
    confirmed = False
    for r in none_rets:
        for t, pol, _ in guards_of(r):
            txt = norm(t)
            if pos and f'{pos} >= len({norm(arr)})' in txt and f'{norm(arr)}[{pos}] != {gf.params[1]}' in txt:
                confirmed = True
    ctx.ob('C08-R2', gf, 'hit confirmed (bounds and equality) else None', confirmed,
           'returns None unless the found slot holds exactly the requested identifier' if confirmed else
           'a missing identifier can return a neighbouring trajectory or index past the end')
    val_rets = [r for r in rets if r not in none_rets]
    for r in val_rets:
        txt = norm(r.value)
        okr = False
        if isinstance(r.value, ast.Subscript) and norm(r.value.value) == 'self' \
                and isinstance(r.value.slice, ast.Subscript) and norm(r.value.slice.slice) == pos:
            src = r.value.slice.value
            dd = single_def_value(gf.node, src.id) if isinstance(src, ast.Name) else None
            okr = dd is not None and "variables['trajectory_index']" in norm(dd)
        why_ok = 'returns the trajectory at the parallel trajectory_index slot'
        if not okr and isinstance(r.value, ast.Name):
            # in-memory branch: exact match over the cached trajectories
            lp = next((a for a in ancestors(r) if isinstance(a, ast.For)), None)
            gs = [(norm(t), pol) for t, pol, _ in guards_of(r)]
            fid = gf.params[1]
            if lp is not None and isinstance(lp.target, ast.Name) and lp.target.id == r.value.id \
                    and norm(lp.iter) == 'self._trajectories.values()' \
                    and any(tx in (f'{r.value.id}.flight_id == {fid}', f'{fid} == {r.value.id}.flight_id') and pol for tx, pol in gs) \
                    and any(tx == 'not self.nc_linked' and pol or tx == 'self.nc_linked' and not pol for tx, pol in gs):
                okr = True
                why_ok = 'in-memory store: the cached trajectory whose identifier equals the requested one'
        ctx.ob('C08-R2', gf, f'return {txt}', okr,
               why_ok if okr else
               'the returned trajectory is not looked up through the parallel trajectory_index slot',
               line=r.lineno)


def rule_offsets(ctx, m, rule='C08-R3'):
    fi = m.func('TrajectoryStore._create_merged_store_index')
    loops = [n for n in walk_no_nested(fi.node) if isinstance(n, ast.For)]
    lp = next((l for l in loops if any(isinstance(s, ast.AugAssign) and norm(s.target) == 'index_offset' for s in l.body)), None)
    if lp is None:
        # pre-computed offsets idiom: [0, *accumulate(len(x) for x in S[:-1])]
        acc = [c for c in calls_in(fi.node) if call_name(c).split('.')[-1] == 'accumulate']
        if len(acc) == 1:
            c = acc[0]
            src = c.args[0]
            it = src.generators[0].iter if isinstance(src, (ast.GeneratorExp, ast.ListComp)) and len(src.generators) == 1 else None
            par = getattr(c, '_parent', None)
            starts_zero = False
            while par is not None and not isinstance(par, ast.stmt):
                if isinstance(par, ast.List) and par.elts and isinstance(par.elts[0], ast.Constant) and par.elts[0].value == 0:
                    starts_zero = True
                par = getattr(par, '_parent', None)
            if any(k.arg == 'initial' and isinstance(k.value, ast.Constant) and k.value.value == 0 for k in c.keywords):
                starts_zero = True
            if isinstance(it, ast.Subscript) and isinstance(it.slice, ast.Slice):
                sl = norm(it.slice)
                ok = starts_zero and sl == ':-1'
                ctx.ob(rule, fi, f'offsets = 0, then running sum of len(store) over stores[{sl}]', ok,
                       'offset of store k is the total length of the stores before it' if ok else
                       (f'the running sum is taken over stores[{sl}]: the offset of store k is not the number of '
                        'trajectories in the stores before it (it coincides only when all inputs have the same size), so '
                        'flight identifiers of later parts point at the wrong trajectory'), line=c.lineno)
                return
            if it is not None and starts_zero and any(k.arg == 'initial' for k in c.keywords) is False and isinstance(it, ast.Name):
                ctx.undecided(rule, fi, norm(c)[:80], 'accumulate over all stores with a leading 0: alignment with the stores cannot be decided')
        ctx.undecided(rule, fi, 'index_offset loop', 'no loop advancing index_offset and no recognised pre-computed offsets')
    ok = isinstance(lp.iter, ast.Name) and lp.iter.id in fi.params
    ctx.ob(rule, fi, f'for … in {norm(lp.iter)}', ok,
           'iterates the caller\'s list in the order given' if ok else
           'inputs are visited in a different order than the metadata records', line=lp.lineno)
    init = single_def_value(fi.node, 'index_offset')
    aug = [s for s in lp.body if isinstance(s, ast.AugAssign) and norm(s.target) == 'index_offset']
    use_idx = [i for i, s in enumerate(lp.body) if 'index_offset' in norm(s) and s not in aug]
    aug_idx = [i for i, s in enumerate(lp.body) if s in aug]
    # index_offset has two defs (init + aug) so single_def_value is None; find init
    inits = [st for t, st, how in stores_to(fi.node) if isinstance(t, ast.Name) and t.id == 'index_offset' and how == 'assign']
    ok = len(inits) == 1 and isinstance(inits[0].value, ast.Constant) and inits[0].value.value == 0 \
        and len(aug) == 1 and isinstance(aug[0].op, ast.Add) and norm(aug[0].value).startswith('len(') \
        and use_idx and max(use_idx) < aug_idx[0]
    ctx.ob(rule, fi, 'offset starts at 0 and advances by len(store) after use', ok,
           f'{norm(aug[0]) if aug else "?"} after the indexes were shifted' if ok else
           'offset arithmetic is off (initial value, increment, or advanced before use)',
           line=(aug[0].lineno if aug else lp.lineno))
    shifted = [s for s in lp.body if 'index_offset' in norm(s) and 'trajectory_index' in norm(s)]
    ok = bool(shifted) and any(isinstance(x, ast.BinOp) and isinstance(x.op, ast.Add)
                               and 'index_offset' in norm(x) for x in ast.walk(shifted[0]))
    ctx.ob(rule, fi, 'per-store indexes shifted by the offset', ok,
           norm(shifted[0])[:100] if ok else 'per-store trajectory indexes are not shifted by the running offset',
           line=(shifted[0].lineno if shifted else lp.lineno))
    # len(ts) must measure the store opened in this iteration
    opens = [s for s in lp.body if isinstance(s, ast.Assign) and isinstance(s.value, ast.Call)
             and call_name(s.value).endswith('TrajectoryStore.open')]
    ok = bool(opens) and bool(aug) and norm(aug[0].value) == f'len({norm(opens[0].targets[0])})'
    ctx.ob(rule, fi, 'offset advanced by the length of the store just indexed', ok,
           'same store object' if ok else 'the offset is advanced by a different store\'s length',
           line=(aug[0].lineno if aug else lp.lineno), nontrivial=False)


def rule_all_or_none(ctx, m):
    add = m.func('TrajectoryStore.add')
    found = None
    for n in walk_no_nested(add.node):
        if isinstance(n, ast.Raise):
            for t, pol, _ in guards_of(n):
                txt = norm(t)
                if 'has_flight_id != self.indexable' in txt or 'self.indexable != has_flight_id' in txt:
                    found = (n, txt)
    ok = found is not None and 'self.indexable is not None' in found[1]
    extra = []
    if found is not None:
        for t, pol, _ in guards_of(found[0]):
            for a, pp in conjuncts(t, pol):
                if norm(a) not in ('self.indexable is not None', 'has_flight_id != self.indexable', 'self.indexable != has_flight_id'):
                    extra.append(('' if pp else 'not ') + norm(a))
    ok = ok and not extra
    ctx.ob('C08-R4', add, 'mixed identifier use refused on add', ok,
           f'raise under `{found[1]}`' if ok else
           (f'the identifier check only runs under the extra condition {extra}: that is session-local state (the '
            'cache is empty at the start of an append session), so the first addition of a session can break '
            '"fully identified or not at all"' if extra else
            'add accepts a trajectory whose identifier use differs from the store'))
    hf = single_def_value(add.node, 'has_flight_id')
    ok = hf is not None and "hasattr(trajectory, 'flight_id')" in norm(hf) and 'is not None' in norm(hf)
    ctx.ob('C08-R4', add, f'has_flight_id = {norm(hf) if hf is not None else "?"}', ok,
           'identified = has the field and it is set' if ok else 'identifier presence test changed', nontrivial=False)
    # first add decides
    first = [st for t, st, how in stores_to(add.node) if norm(t) == 'self.indexable'
             and norm(getattr(st, 'value', None)) == 'has_flight_id']
    ok = bool(first) and any('self.indexable is None' in norm(t) and pol for t, pol, _ in guards_of(first[0]))
    ctx.ob('C08-R4', add, 'first addition fixes identifier use', ok,
           norm(first[0]) if ok else 'indexable is not fixed by the first addition only')
    mg = m.func('TrajectoryStore.merge')
    found = None
    for n in walk_no_nested(mg.node):
        if isinstance(n, ast.Raise):
            for t, pol, _ in guards_of(n):
                if 'indexable' in norm(t) and 'any(' in norm(t):
                    found = (n, norm(t))
    ok = found is not None
    a = single_def_value(mg.node, 'indexable')
    ok = ok and a is not None and norm(a).startswith('all(')
    ctx.ob('C08-R4', mg, 'mixed identifier use refused on merge', ok,
           f'raise under `{found[1]}` with indexable = {norm(a)}' if ok else
           'merge accepts a mix of identified and unidentified stores')
    idx_call = [c for c in calls_in(mg.node) if call_name(c).endswith('_create_merged_store_index')]
    ok = bool(idx_call) and any(norm(t) == 'indexable' and pol for t, pol, _ in guards_of(idx_call[0]))
    ctx.ob('C08-R4', mg, 'merged index built exactly for identified inputs', ok,
           'under `if indexable`' if ok else 'merged index creation is not tied to the inputs being identified')


LINKED_ATOMS = {'self.nc_linked', 'self._file_creation_pending'}


def rule_linked(ctx, m, rule='C08-R5', entries=None):
    """Typestate of the file link.  A TrajectoryStore created without a base file is purely in memory until save():
    `self._nc` is empty and `self.index_group` is None.  Every operation that can be invoked on such a store must
    reach a dereference of those two (`self._nc[<fixed key>]`, `self.index_group.<attr>`) only on paths that have
    established that files are attached: a branch on `self.nc_linked` / `self._file_creation_pending`, a loop over
    `self._nc` / `self._nc_files`, or a call that attaches files.  Decided on the CFG of each method with the
    certifying edges removed, propagated over `self.<method>()` calls from the public entry points."""
    import re
    cls = m.cls('TrajectoryStore')
    meths = {k: v for k, v in cls.methods.items()}

    def is_static(fi):
        return any(norm(d) in ('staticmethod', 'classmethod') for d in fi.node.decorator_list)

    # methods that attach files (store into self._nc / append to self._nc_files), transitively over self-calls
    attach = set()
    changed = True
    while changed:
        changed = False
        for name, fi in meths.items():
            if name in attach:
                continue
            hit = False
            for x in walk_no_nested(fi.node):
                if isinstance(x, ast.Subscript) and isinstance(x.ctx, ast.Store) and norm(x.value) == 'self._nc':
                    hit = True
                if isinstance(x, ast.Call) and call_name(x) in ('self._nc_files.append', 'self._nc_files.extend'):
                    hit = True
                if isinstance(x, ast.Call) and call_name(x).startswith('self.') and call_name(x)[5:] in attach:
                    hit = True
            if hit:
                attach.add(name)
                changed = True

    def analyse(fi):
        g = CFG(fi.node)
        loopvars = set()
        keyed = {t.id for t, st, how in stores_to(fi.node) if isinstance(t, ast.Name) and getattr(st, 'value', None) is not None
                 and re.search(r'self\._nc(_files)?\b', norm(st.value))}
        for x in walk_no_nested(fi.node):
            if isinstance(x, (ast.For, ast.comprehension)) and (re.search(r'self\._nc(_files)?\b', norm(x.iter))
                                                                or (isinstance(x.iter, ast.Name) and x.iter.id in keyed)):
                loopvars |= {y.id for y in ast.walk(x.target) if isinstance(y, ast.Name)}

        def certifies(a, b, lab):
            n = g.nodes[a]
            s_ = n.stmt
            if n.kind == 'test' and isinstance(s_, (ast.If, ast.While)) and lab in ('t', 'f'):
                facts = conjuncts(s_.test, lab == 't')
                if any(norm(e) in LINKED_ATOMS and pol for e, pol in facts):
                    return True
                if any(re.fullmatch(r'len\(self\._nc(_files)?\) (> 0|!= 0|>= 1)', norm(e)) and pol for e, pol in facts):
                    return True
            if n.kind == 'iter' and lab == 't' and re.search(r'self\._nc(_files)?\b', norm(s_.iter)):
                return True
            if n.kind == 'stmt' and lab != 'e' and s_ is not None:
                for c in calls_in(s_):
                    if call_name(c).startswith('self.') and call_name(c)[5:] in attach:
                        return True
                for x in ast.walk(s_):
                    if isinstance(x, ast.Subscript) and isinstance(x.ctx, ast.Store) and norm(x.value) == 'self._nc':
                        return True
                if isinstance(s_, ast.Assign) and any(norm(t) == 'self.index_group' for t in s_.targets) \
                        and not (isinstance(s_.value, ast.Constant) and s_.value.value is None):
                    return True
            return False
        reach = g._reach(edge_ok=lambda a, b, lab: not certifies(a, b, lab)) if hasattr(g, '_reach') else set()
        derefs, calls = [], []
        for nid in reach:
            n = g.nodes[nid]
            if n.stmt is None or n.kind in ('finally', 'dispatch', 'join', 'except'):
                continue
            heads = {'stmt': [n.stmt], 'test': [getattr(n.stmt, 'test', None)], 'iter': [getattr(n.stmt, 'iter', None)],
                     'with': [i.context_expr for i in getattr(n.stmt, 'items', [])]}.get(n.kind, [])
            for h in heads:
                if h is None:
                    continue
                for x in ast.walk(h):
                    if isinstance(x, (ast.FunctionDef, ast.Lambda)):
                        continue
                    if isinstance(x, ast.Subscript) and isinstance(x.ctx, ast.Load) and norm(x.value) == 'self._nc' \
                            and not (isinstance(x.slice, ast.Name) and x.slice.id in loopvars):
                        # `a or self._nc[k]` style short circuits are part of the statement: keep it simple, report
                        derefs.append((x, f'self._nc[{norm(x.slice)}]'))
                    if isinstance(x, ast.Attribute) and isinstance(x.ctx, ast.Load) and norm(x.value) == 'self.index_group':
                        derefs.append((x, f'self.index_group.{x.attr}'))
                    if isinstance(x, ast.Call) and call_name(x).startswith('self.') and call_name(x)[5:] in meths \
                            and call_name(x).count('.') == 1:
                        calls.append((x, call_name(x)[5:]))
        return derefs, calls

    if entries is None:
        entries = [k for k, v in meths.items() if not is_static(v) and (not k.startswith('_') or (k.startswith('__') and k != '__init__'))]
    summ = {}
    exposed = {}
    work = []
    for e in entries:
        if e in meths:
            exposed[e] = [e]
            work.append(e)
    while work:
        f = work.pop()
        if f not in summ:
            summ[f] = analyse(meths[f])
        for c, callee in summ[f][1]:
            if callee not in exposed and not is_static(meths[callee]):
                exposed[callee] = exposed[f] + [callee]
                work.append(callee)
    n = 0
    for f, path in sorted(exposed.items()):
        for x, what in summ[f][0]:
            n += 1
            ctx.ob(rule, meths[f], f'{what} reachable without an attached file (via {" → ".join(path)})', False,
                   (f'on a store created in memory (no base file) `{path[0]}` reaches `{what}` with no test that files are attached: '
                    + ('self._nc is empty there (KeyError)' if what.startswith('self._nc') else 'self.index_group is None there')
                    + ' — an identified in-memory store cannot be searched, synchronised or closed'), line=x.lineno,
                   path=path)
    ctx.ob(rule, (m.relpath, 'TrajectoryStore'), f'{len(exposed)} methods reachable from {len(entries)} entry points; '
           f'{n} unprotected dereference(s) of file-only state', n == 0,
           'every dereference of self._nc[…] / self.index_group is behind a test that files are attached' if n == 0 else 'see above',
           nontrivial=False)
    ctx.floor(rule, len(exposed), 10, 'methods examined for the file-link typestate')
    ctx.stats[f'{rule}.attaching_methods'] = sorted(attach)


def run(ctx):
    m = ctx.prog.module(STORE)
    rule_stale(ctx, m)
    rule_sorted(ctx, m)
    rule_offsets(ctx, m)
    rule_all_or_none(ctx, m)
    rule_linked(ctx, m)
    ctx.note('wrong-trajectory reads in append sessions caused by a stale size table are reported under C07-R1')
    ctx.assumptions += ['bisect_left on an ascending array returns the left-most slot of an equal key',
                        'netCDF4 variable slices return arrays in stored order']
