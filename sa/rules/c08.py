"""C08 — lookup by flight identifier returns exactly the matching trajectory.

R1  stale-flag discipline (T-ORDER): every normal path through `add` to a
    return passes a point where the flag is marked - a store into
    `index_stale` of a value that is true whenever the store is identified:
    the constant, `self.indexable` itself, or a local known to equal
    `self.indexable` at that point (must-analysis on the CFG: the local that
    was just stored into it or read from it, and the local that the
    consistency check of the addition compared with it - after `if
    self.indexable is not None and x != self.indexable: raise` x equals the
    use or the use is not fixed yet, after `if self.indexable is None:
    self.indexable = x` it equals it on both branches); a store
    of anything else clears the mark, except a failed addition putting back,
    in an exception handler, the value the flag had on entry (a saved local
    or a component of a saved tuple / record, read before any store into the
    flag) -, or a branch that
    established that the store is not identified and nothing else (forward
    may-analysis on the CFG: `if self.indexable: mark`, a guard clause
    `if not self.indexable: return`, `if x: mark` with x equal to the use, ...).
    The mark follows the write, or nothing between the mark and the write can
    clear it again (no call whose resolved closure stores into the flag: a
    mark set first inside the guarded block and put back by the handler is the
    same flag at the return; a refresh of the index *after* the write takes the
    new trajectory in).  An add without any mark is reported by what it does
    store into the flag, or as never marking when nothing in its resolved
    call closure stores into it.  In
    get_flight / sync / close every use of the index (reads of the index
    variables or of an attribute holding a copy of them, dataset sync/close,
    dropping the index group) is dominated by the lazy `_reindex()` (its guard read as what it tests: `bool(x)` is x,
    `self.<p>` with p a read-only property of one `return <expression>` is that expression);
    `_reindex` clears the flag only after both index variables were stored (a clear that is also reached around the
    branch that writes them is reported with the condition of that branch).
R2  sorted-writer <-> bisect-reader agreement, decided on values, not on
    spelling.  Writers (`_reindex`, the merged-index builder): first by
    bounded interpretation (`sa.rules.c09.TruthTable`, an abstract interpreter
    over the AST; nothing is imported or run) on model stores - every store
    of up to 3 files / every tuple of up to 3 parts with at most 3
    trajectories each, every trajectory with its own identifier, numpy
    arrays as one-dimensional arrays: what is stored into the two index
    variables must be the identifiers in ascending order, each next to the
    position of its trajectory in the store.  The interpretation is run twice:
    with small identifiers (order, positions) and with identifiers that only a
    64-bit integer holds exactly (odd numbers above 2**53).  Arrays carry their
    element type and hold their values as that type holds them (creation
    with / without `dtype` - np.empty(0), np.zeros(0), np.array([]) are
    float64 -, numpy's promotion in concatenate / append / arithmetic,
    `astype`, true division, the type of the netCDF variable written to), so
    "what is stored is what was read, unchanged" fails for every writer that
    sends the identifiers through a float or a narrower integer; python lists
    and arrays created with the identifiers' own type pass.  The index
    variable itself is created with that type (every
    createVariable('flight_id', T, ...), also looped over a literal table
    of names).  A `_reindex` that the interpretation does not decide with
    the helpers of the module taken as opaque is interpreted once more
    with those helpers entered (`reindex_table_through_helpers`: the steps
    - reading the identifiers off the files, pairing, sorting, writing -
    may live in methods / module functions of their own).  Only when the
    interpretation
    cannot evaluate the writer: a construct on the way of the stored
    identifiers that does not hold 64-bit integers (the same list, decided on
    the spelling) is a violation whatever the form of the sort, and what is stored is traced
    back (single-definition locals, tuple unpacking, conversions, calls of
    resolved repository functions with their arguments bound - also for
    "built from nothing but" and for the representation on the way) to two columns
    of ONE ascending sort of (position, identifier) pairs — tuples or
    NamedTuple/dataclass records from enumerate / zip / map / a generator;
    `sorted(...)`, an in-place `.sort()`, `zip(*pairs)`, or the
    argsort-permutation form — whose primary key is the column stored as
    flight_id, that column being built from nothing but `flight_id`
    variables; the other column is the enumeration position or is built
    from nothing but `trajectory_index` variables.  Reader: the one
    binary search (bisect_left, np.searchsorted / .searchsorted, side left;
    the same call written out more than once counts once; neither the array
    nor the key passes through a float / narrower-integer conversion)
    runs over the flight_id index variable (read directly or through an
    attribute that holds a copy) for the requested identifier; the value
    returned through the index is `self[T[pos]]` with T the trajectory_index
    variable of the same snapshot, on a path where the facts `pos in range`
    and `A[pos] == identifier` hold (branch conditions by forward dataflow on
    the CFG; any spelling of the tests, guard clauses or conditional
    expressions).  All of this is decided path by path: every feasible
    path carries which assignment of each local it went through, so a
    local bound on several branches - the position-or-None (or -1, or
    (found, position)) result of a search helper, a `result` variable -
    is read as what that path gave it; constants and the domain of the
    defining expression (an element of trajectory_index, a search result
    and a length are positions >= 0, elements of the index variables are
    never None) decide the tests a path takes on such a local (`is None`,
    `< 0`, truth of a flag; a conditional expression forks the path, also
    when it stands inside the test), and contradictory paths drop out.
    A flag bound on several branches stands, on each path, for the test that
    path bound it to; a chained comparison that holds (`0 <= pos < n`) is its
    links.  A hit must be answered: a path that returns None and is told from
    an answering path (bounds and equality confirmed) only by tests of the
    found slot - or of the position read from trajectory_index - against
    constants that some slot / position satisfies, with nothing on it that
    says the slot is out of range or holds another identifier (a disjunctive
    test is taken apart: one way per disjunct; tests of a sentinel the path
    itself assigned say nothing), is a violation: `if not pos: return None`,
    `if not 0 < pos < n: return None`, `if not idx: return None` on the
    position handed back by a search helper lose slot / trajectory 0.
    A store without files answers from its cache: the element
    of `self._trajectories` selected by equality of its flight_id with the
    request (loop with early return, next(generator, None), filter, list
    comprehension, dict comprehension + get), None when there is none; the
    same scan on a store with files is accepted only as a short-cut whose
    miss goes on to the index.
R3  merged stores (rules shared with C09, `sa.rules.c09`): the `stores` entry of the metadata document and the sequence
    of stores the merged-index builder walks are both order-preserving images of the checked input list of merge
    (provenance; `sorted()`, sets, directory listings, in-place sorts are definite violations), and - by bounded
    interpretation of the builder on every tuple of up to 3 model parts with 1..3 trajectories - what the builder stores
    maps every identifier (ascending) to the position of its trajectory in the concatenation of the parts.  When the
    interpretation cannot be decided: trajectory_index + index_offset, the offset advanced by len(store) after each
    input (`rule_offsets`).
R4  all-or-none.  `add`, by interpretation over (identifier use of the store: not fixed / identified / unidentified) x
    (the trajectory: no flight_id field / field None / an identifier): a raise exactly when the use is fixed and differs
    from the trajectory's - on every path, so a check that hangs on session-local state is a violation -, the first
    addition fixes the use, later ones leave it (spelling-bound fallback when not decided).  `merge` refuses every
    sequence of up to three inputs that mixes identified and unidentified stores and builds the merged index for
    every uniformly identified sequence (bounded interpretation of `merge`, C09-R2 / R6).
R5  file-link typestate: `self._nc[<key>]` and `self.index_group.<attr>` are
    dereferenced only on paths that established that files are attached
    (CFG with certifying edges removed - a test of nc_linked, of
    `self.index_group is not None`, a loop over the files, a call that attaches
    files -, propagated over self-calls from the public entry points); an
    in-memory store answers look-ups from its cache.
R6  freshness of copies of the index: an attribute of the store that is given
    a value built from the index variables and is read by the look-up is a
    copy that nothing else keeps current.  It must be written (dropped or
    renewed) on every normal path through every place where the index goes
    stale (`index_stale = True`) or through every place where the index
    variables are rewritten (dominance / post-dominance on the CFG, through
    self-calls).  A refresh tested on `index_stale` in the reader does not
    count: the lazy reindex (or a sync) has cleared the flag by then.
    Zero-expected on today's code; positive control embedded.
R7  what `add` knows about the stored table.  An attribute of the store whose
    value is taken from the index table (R6's notion of a copy: built from the
    index variables or from the columns written into them) and that `add`, or
    a method it calls on self, consults - to decide that the table is still in
    order instead of marking it stale - describes the table of the *file*.
    It must be established on every normal path through every place where an
    existing index group is attached to the object (`self.index_group = <a
    group that exists>`, not None, not createGroup; places that are only
    reached with the store not open for appending are exempt - branch facts on
    `self.mode`).  Otherwise a store reopened for appending judges its first
    addition against the constructor's value.  Zero-expected on today's code
    (add consults nothing of the kind); positive control embedded.
R8  the table a writer stores is made of what this call collected.  A class of the module whose methods put something
    of the instance into the index variables (backward slice on names from the stored values, through the functions of
    the module the state is handed to) keeps that state per instance: a container made once in the class body
    (`ids: list[int] = []`, `list()`, a comprehension, deque / defaultdict ...) that a method grows in place through
    `self` (`+=`, append / extend / ..., a subscript store) and that no constructor replaces by a container of the
    instance (`self.ids = ...` at the top level of __init__ / __post_init__; a @dataclass refuses such defaults itself)
    is one object for every instance of the process, so the second table written also holds the entries of the first and
    a look-up finds identifiers that were never added to that store.  `self.n += 1` on a number rebinds the name on the
    instance and is not of this kind.  Zero-expected on today's code; positive control embedded.

Helper objects (`dissolve_local_objects`, applied to the functions of the module before R1-R7 read them): a local bound
    once to a new instance of a small class of the module (plain class or @dataclass: data attributes and plain methods
    only, no bases) that is used only through its attributes and methods and never leaves the function is the set of
    its attributes kept in locals - the methods spliced in at their calls (the engine's helper inliner with the receiver
    for `self`: guard clauses, results, nested calls), the constructor at the instantiation (class-level defaults, then
    __init__ / the generated initialiser of a dataclass with its default factories, then __post_init__), `v.attr` read
    as the local `v__attr`.  An accumulating loop whose running state moved into a builder object is the loop again, and
    the interpretation and the provenance rules decide it as before.  Nothing is done when any use of the object is of
    another kind (passed on, returned, captured, `with`, `len(v)`...) or when the instances would share a container of
    the class body (R8 reports on that).  An instance that is never given a name - `K(a).m(b)`, `x = K(a).m(b)`,
    `return K(a).attr`, `if K(a).m(): ...` - whose creation is the first thing its statement evaluates is `t = K(a)`
    followed by the statement on the fresh local t, and is dissolved like a named one (a thin view object built around
    the index group on every use is the group again).  An accessor method (no parameter but the receiver, body one
    `return E` without scopes of its own, reading besides the receiver only names the caller never binds) is E at the
    place of its call, also inside a comprehension of the caller.

Generators consumed on the spot (`open_consumed_generators`, applied after the helper objects): `T = list(G(args))` /
    `tuple(...)` / `sorted(G(args), ...)` with G a generator function of the module made of `yield v` statements only (no
    value taken from a yield, no `yield from`, no `return`, no nested definitions) is the body of G run at that place -
    parameters bound to the arguments, an empty list, `yield v` as an append to it - followed by the statement on that
    list: a writer whose loop over the files / parts moved into a generator of entries is the loop again, and R2 / R3
    decide it as before.  Any other use of a generator (consumed lazily, passed on) is left alone.
    An undecided R2 does not end the run before R3 has looked at the merged-index builder: a builder that walks its
    inputs in another order than the one given has no table R2 could compare with, and R3's violation is the verdict;
    without one the undecided R2 stands.
"""

from __future__ import annotations

import ast
import re

from ..astutil import (MUTATING_METHODS, ancestors, call_name, calls_in, conjuncts, guards_of, kwarg, local_defs,
                       norm, single_def_value, stmt_of, stores_to, tuple_def_component, walk_no_nested)
from ..cfg import CFG
from ..loader import dotted_name
from ..resolve import resolve_call

STORE = 'trajectories/store.py'
ALLOWED_GUARD_ATOMS = {'self.indexable', 'self.index_stale', 'self._write_enabled'}


def _normal(a, b, lab):
    return lab != 'e'


def _guard_atoms(test: ast.expr, cls=None) -> set[str]:
    return {('' if pol else 'not ') + norm(e) for e, pol in conjuncts(_open_test(test, cls), True)}


def _open_test(e: ast.expr, cls=None, depth: int = 0) -> ast.expr:
    """a test as what it tests: `bool(x)` in a truth position is x; `self.<p>` with p a read-only property of the class
    whose body is one `return <expression>` is that expression (the receiver is the same object)"""
    if depth > 4:
        return e
    if isinstance(e, ast.Call) and isinstance(e.func, ast.Name) and e.func.id == 'bool' and len(e.args) == 1 and not e.keywords:
        return _open_test(e.args[0], cls, depth + 1)
    if isinstance(e, ast.BoolOp):
        return ast.copy_location(ast.BoolOp(op=e.op, values=[_open_test(v, cls, depth + 1) for v in e.values]), e)
    if isinstance(e, ast.UnaryOp) and isinstance(e.op, ast.Not):
        return ast.copy_location(ast.UnaryOp(op=e.op, operand=_open_test(e.operand, cls, depth + 1)), e)
    if cls is not None and isinstance(e, ast.Attribute) and isinstance(e.value, ast.Name) and e.value.id == 'self':
        fi = cls.find_method(e.attr)
        if fi is not None and [norm(d) for d in fi.node.decorator_list] == ['property'] and fi.params == ['self']:
            body = [s_ for s_ in fi.node.body if not (isinstance(s_, ast.Expr) and isinstance(s_.value, ast.Constant))]
            if len(body) == 1 and isinstance(body[0], ast.Return) and body[0].value is not None:
                return _open_test(body[0].value, cls, depth + 1)
    return e


def rule_stale(ctx, m):
    add = m.func('TrajectoryStore.add')
    g = CFG(add.node)
    sets = [n for n in g.nodes if n.kind == 'stmt' and isinstance(n.stmt, ast.Assign)
            and norm(n.stmt.targets[0]) == 'self.index_stale']
    # a mark is a store into the flag of a value that is true whenever the store is identified: the constant, or the
    # identifier use of the store itself - `self.indexable`, or the local that was just stored into it (must-analysis:
    # the locals known to equal self.indexable at each point)
    _IDENT = ('self.indexable', 'bool(self.indexable)', 'self.indexable is True', 'self.indexable == True')

    # state: 'eq:x' - the local x equals self.indexable; 'eqn:x' - x equals self.indexable or self.indexable is None
    # (what the consistency check of an addition leaves behind: `if self.indexable is not None and x != self.indexable:
    # raise`; the decision `if self.indexable is None: self.indexable = x` then makes it 'eq:x' on both branches)
    def _eq_tr(node, st):
        s_ = node.stmt
        if node.kind != 'stmt' or s_ is None:
            return st
        if isinstance(s_, ast.Assign) and len(s_.targets) == 1:
            t_, v_ = s_.targets[0], s_.value
            if norm(t_) == 'self.indexable':
                return frozenset({'eq:' + v_.id, 'eqn:' + v_.id}) if isinstance(v_, ast.Name) else frozenset()
            if isinstance(t_, ast.Name) and norm(v_) == 'self.indexable':
                return frozenset(x for x in st if x.split(':', 1)[1] != t_.id) | {'eq:' + t_.id, 'eqn:' + t_.id}
        killed = {norm(t) for t, _, _ in stores_to(s_)} if isinstance(s_, (ast.Assign, ast.AugAssign, ast.AnnAssign, ast.Delete,
                                                                             ast.For, ast.With)) else set()
        if 'self.indexable' in killed or (st and any(_sets_use(c) for c in calls_in(s_))):
            return frozenset()
        return frozenset(x for x in st if x.split(':', 1)[1] not in killed)

    _use_memo: dict = {}

    def _sets_use(c) -> bool:
        """a call of a repository function that (in its resolved closure) stores into `indexable`"""
        if id(c) not in _use_memo:
            from ..resolve import closure as _cl
            callee = resolve_call(ctx.prog, add, c)
            _use_memo[id(c)] = callee is not None and any(
                isinstance(t, ast.Attribute) and t.attr == 'indexable' for f in _cl(ctx.prog, [callee]) for t, _, _ in stores_to(f.node))
        return _use_memo[id(c)]

    def _eq_atom(e, pol):
        """what the outcome `e is pol` says: 'none' (self.indexable is None), 'notnone', ('eq', x) or None"""
        if not (isinstance(e, ast.Compare) and len(e.ops) == 1):
            return None
        l_, r_, op = e.left, e.comparators[0], e.ops[0]
        same = isinstance(op, (ast.Eq, ast.Is)) == pol
        if not isinstance(op, (ast.Eq, ast.Is, ast.NotEq, ast.IsNot)):
            return None
        for a_, b_ in ((l_, r_), (r_, l_)):
            if norm(a_) == 'self.indexable':
                if _none_const(b_):
                    return 'none' if same else 'notnone'
                if isinstance(b_, ast.Name) and same:
                    return ('eq', b_.id)
        return None

    def _disjuncts(e, pol):
        """the outcome `e is pol` as a disjunction of atomic outcomes"""
        if isinstance(e, ast.UnaryOp) and isinstance(e.op, ast.Not):
            return _disjuncts(e.operand, not pol)
        if isinstance(e, ast.BoolOp) and isinstance(e.op, ast.Or if pol else ast.And):
            return [x for v in e.values for x in _disjuncts(v, pol)]
        return [(e, pol)]

    def _eq_br(node, lab, st):
        if node.kind != 'test' or not isinstance(node.stmt, (ast.If, ast.While)):
            return st
        for e, pol in conjuncts(node.stmt.test, lab == 't'):
            kinds = [_eq_atom(e2, p2) for e2, p2 in _disjuncts(e, pol)]
            if None in kinds:
                continue
            names = {k[1] for k in kinds if isinstance(k, tuple)}
            if kinds == ['notnone']:
                st = st | {'eq:' + x.split(':', 1)[1] for x in st if x.startswith('eqn:')}
            elif len(names) == 1 and 'notnone' not in kinds:
                x = names.pop()
                st = st | {'eqn:' + x} | (set() if 'none' in kinds else {'eq:' + x})
        return frozenset(st)
    eq_ins, _ = g.forward(frozenset(), _eq_tr, lambda a, b: a & b, edge_ok=_normal, branch_transfer=_eq_br)

    def _equals_use(nid, name: str) -> bool:
        return 'eq:' + name in eq_ins.get(nid, ())

    def _is_mark(n) -> bool:
        v_ = n.stmt.value
        if isinstance(v_, ast.Constant):
            return v_.value is True
        if isinstance(v_, ast.Call) and call_name(v_) == 'bool' and len(v_.args) == 1 and not v_.keywords:
            v_ = v_.args[0]
        return norm(v_) in _IDENT or (isinstance(v_, ast.Name) and _equals_use(n.id, v_.id))

    def _is_restore(n) -> bool:
        """a failed addition puts the flag back: the store sits in an exception handler (not on a normal path) and
        stores what the flag was on entry"""
        v_ = n.stmt.value
        if n.id in eq_ins or isinstance(v_, ast.Constant):
            return False
        # (a saved local, or a component of a saved tuple / record of the bookkeeping; read before any store into the flag)
        d = resolve_value(None, Ref(v_, add))
        if d.comp or d.e is v_ or norm(d.e) != 'self.index_stale':
            return False
        at = [x for x in g.nodes if x.kind == 'stmt' and x.stmt is stmt_of(d.e)]
        return bool(at) and not any(g.reaches(s_.id, at[0].id, edge_ok=_normal) for s_ in sets if s_.id != n.id)
    true_sets = [n for n in sets if _is_mark(n)]
    sets = [n for n in sets if n in true_sets or not _is_restore(n)]
    if not true_sets:
        # no mark at all: what add does store into the flag (on a normal path) is stated before the anchor is given up,
        # and an add whose whole resolved call closure never stores into the flag cannot mark the index
        from ..resolve import closure as _closure
        for n in sets:
            if n.id in eq_ins:
                ctx.ob('C08-R1', add, norm(n.stmt), False,
                       f'the only value add stores into the flag, `{norm(n.stmt.value)[:60]}`, is not true for every addition to an '
                       'identified store: the index is not flagged stale and is never rebuilt', line=n.line)
        if not sets and not any(isinstance(t, ast.Attribute) and t.attr == 'index_stale'
                                for f in _closure(ctx.prog, [add]) if f.node is not add.node for t, _, _ in stores_to(f.node)):
            ctx.ob('C08-R1', add, 'index marked stale on every successful identified add', False,
                   'neither add nor any function it calls stores into index_stale: additions never flag the index, so it is '
                   'never rebuilt', line=add.node.lineno)
    ctx.floor('C08-R1', len(true_sets), 1, 'store of a mark (`index_stale = True`) in add')
    # every normal path to a return passes the mark, or a branch that established "the store is not identified" and
    # nothing else (forward may-analysis: U = not marked yet, M = marked, E = exempt); any spelling of the branch:
    # `if self.indexable: mark`, a guard clause `if not self.indexable: return`, …
    mark_ids = {n.id for n in true_sets}

    def _unidentified(test, truth, nid=None) -> bool:
        for e, pol in conjuncts(test, truth):
            if isinstance(e, ast.Call) and call_name(e) == 'bool' and len(e.args) == 1 and not e.keywords:
                e = e.args[0]
            if isinstance(e, ast.Name) and not pol and nid is not None and _equals_use(nid, e.id):
                return True                      # (a local that equals the identifier use of the store at this test)
            t = norm(e)
            if t in ('self.indexable', 'bool(self.indexable)', 'self.indexable is True', 'self.indexable == True',
                     'self.indexable is not False', 'self.indexable is not None') and not pol:
                return True
            if t in ('self.indexable is False', 'self.indexable == False', 'self.indexable is None',
                     'self.indexable is not True', 'not self.indexable') and pol:
                return True
        return False

    def _tr(node, st):
        return frozenset({'M'}) if node.id in mark_ids else st

    def _br(node, lab, st):
        if node.kind == 'test' and isinstance(node.stmt, (ast.If, ast.While)) and _unidentified(node.stmt.test, lab == 't', node.id):
            return frozenset('E' if x == 'U' else x for x in st)
        return st
    ins, _ = g.forward(frozenset({'U'}), _tr, lambda a, b: a | b, edge_ok=_normal, branch_transfer=_br)
    at_exit = ins.get(g.exit, frozenset({'U'}))
    for n in true_sets[:1]:
        gs = guards_of(n.stmt)
        atoms = set()
        for t, pol, _ in gs:
            atoms |= {a for a in _guard_atoms(t)} if pol else {'not(' + norm(t) + ')'}
        extra = atoms - {'self.indexable'}
        ok = 'U' not in at_exit
        ctx.ob('C08-R1', add, 'index marked stale on every successful identified add', ok,
               'every normal path to the return passes the mark unless the store is not identified' if ok else
               (f'the stale mark is skipped under extra condition(s) {sorted(extra)}' if extra else
                'some normal path through add returns without passing the stale mark'),
               line=n.line)
    for n in sets:
        if n not in true_sets:
            ctx.ob('C08-R1', add, norm(n.stmt), False, 'add clears or overwrites the stale mark', line=n.line)
    # the mark must come after the insertion (write), otherwise a lookup in
    # between would clear it: check it is not before _write_trajectory
    wr = [n for n in g.nodes if n.stmt is not None and n.kind == 'stmt'
          and any(call_name(c).endswith('_write_trajectory') for c in calls_in(n.stmt))]
    # (a mark set before the write - inside the guarded block, put back by the handler when the insertion fails - is the
    # same flag at the return provided nothing between the mark and the write can clear it: no call that reaches a store
    # into the flag; a refresh after the write takes the new trajectory in)
    from ..resolve import closure

    def _clears_after(n):
        """(text, why) of the first construct on a normal path from the mark n to the write that can clear the flag
        again; ('?', call text) for a call on self that is not resolved"""
        seen_, st_ = set(), [b_ for b_, lab in g.succ[n.id] if lab != 'e']
        while st_:
            x = st_.pop()
            if x in seen_ or x == n.id:
                continue
            seen_.add(x)
            st_ += [b_ for b_, lab in g.succ[x] if lab != 'e']
        for x in sorted(seen_):
            nd = g.nodes[x]
            if nd.stmt is None or not any(x == w.id or g.reaches(x, w.id, edge_ok=_normal) for w in wr):
                continue                          # (after the write a refresh of the index takes the new trajectory in)
            ex = nd.stmt if nd.kind == 'stmt' else nd.stmt.test if nd.kind == 'test' and hasattr(nd.stmt, 'test') \
                else nd.stmt.iter if nd.kind == 'iter' else None
            if nd.kind == 'with':
                ex = ast.Tuple(elts=[i.context_expr for i in nd.stmt.items], ctx=ast.Load())
            if ex is None:
                continue
            for c in calls_in(ex):
                callee = resolve_call(ctx.prog, add, c)
                if callee is None:
                    if isinstance(c.func, ast.Attribute) and norm(c.func.value) == 'self':
                        return '?', norm(c)[:60]
                    continue
                for f in closure(ctx.prog, [callee]):
                    if any(isinstance(t, ast.Attribute) and t.attr == 'index_stale' for t, _, _ in stores_to(f.node)):
                        return norm(c)[:60], f'{f.qualname} stores into index_stale'
        return None

    for n in true_sets:
        ok = all(g.reaches(w.id, n.id, edge_ok=_normal) for w in wr)
        why_bad = 'stale mark is not on the path after the write'
        if not ok:
            cl = _clears_after(n)
            if cl is None:
                ok = True
            elif cl[0] == '?':
                ctx.undecided('C08-R1', add, 'stale mark before the write', f'cannot say whether `{cl[1]}` clears the mark again')
            else:
                why_bad = (f'the mark is set before the write and `{cl[0]}` between the two can clear it again ({cl[1]}): the index is '
                           'then rebuilt without the trajectory being added and not flagged afterwards')
        ctx.ob('C08-R1', add, 'stale mark not cleared before the write', ok,
               'set after the write, or nothing between the mark and the write can clear it' if ok else why_bad,
               line=n.line, nontrivial=False)

    # users
    copies = set(lookup_copies(ctx.prog, dict(m.cls('TrajectoryStore').methods)))
    for fname, uses_pred in (('get_flight', 'read'), ('sync', 'sync'), ('close', 'close')):
        fi = m.func(f'TrajectoryStore.{fname}')
        g = CFG(fi.node)
        dom = g.dominators(edge_ok=_normal)
        re_nodes = [n for n in g.nodes if n.stmt is not None and n.kind == 'stmt'
                    and any(call_name(c) == 'self._reindex' for c in calls_in(n.stmt))]
        ctx.floor(f'C08-R1/{fname}', len(re_nodes), 1, f'_reindex() call in {fname}')
        gate_nodes = set()
        for rn in re_nodes:
            gs = guards_of(rn.stmt)
            atoms = set()
            bad_pol = False
            for t, pol, _ in gs:
                if not pol:
                    bad_pol = True
                atoms |= _guard_atoms(t, m.cls('TrajectoryStore'))
            extra = atoms - ALLOWED_GUARD_ATOMS
            ok = not extra and not bad_pol
            ctx.ob('C08-R1', fi, f'lazy reindex guard {sorted(atoms)}', ok,
                   'reindex runs whenever the store is identified and stale' if ok else
                   f'reindex is skipped under extra condition(s) {sorted(extra) or "negated guard"}',
                   line=rn.line)
            if ok:
                gate_nodes |= {x for _, _, o in gs for x in g.nodes_of(o)} or {rn.id}
                if not gs:
                    gate_nodes.add(rn.id)
        uses = []
        for n in g.nodes:
            if n.stmt is None:
                continue
            exprs = [n.stmt] if n.kind == 'stmt' else []
            if n.kind == 'iter':
                exprs = [n.stmt.iter]
            if n.kind == 'test':
                exprs = [n.stmt.test]
            for e in exprs:
                for x in walk_no_nested(e):
                    if isinstance(x, ast.Attribute) and x.attr == 'variables' and 'index_group' in norm(x.value):
                        uses.append((n, 'read of the index variables'))
                    if isinstance(x, ast.Attribute) and isinstance(x.ctx, ast.Load) and x.attr in copies \
                            and norm(x.value) == 'self':
                        uses.append((n, f'read of the copy of the index in self.{x.attr}'))
                    if isinstance(x, ast.Call) and isinstance(x.func, ast.Attribute) \
                            and x.func.attr in ('sync', 'close') and fname in ('sync', 'close') \
                            and norm(x.func.value) != 'self':
                        uses.append((n, f'{norm(x.func)}()'))
                if n.kind == 'stmt' and isinstance(n.stmt, ast.Assign) \
                        and norm(n.stmt.targets[0]) in ('self.index_group', 'self.index_dataset') \
                        and isinstance(n.stmt.value, ast.Constant) and n.stmt.value.value is None:
                    uses.append((n, f'{norm(n.stmt)} (index dropped)'))
        seen = set()
        for n, what in uses:
            if (n.id, what) in seen:
                continue
            seen.add((n.id, what))
            ok = any(gn in dom[n.id] for gn in gate_nodes)
            ctx.ob('C08-R1', fi, f'{what} after lazy reindex', ok,
                   'dominated by the reindex gate' if ok else
                   'this use of the index can run while the index is stale', line=n.line)

    # _reindex clears the flag last
    ri = m.func('TrajectoryStore._reindex')
    g = CFG(ri.node)
    dom = g.dominators(edge_ok=_normal)
    clr = [n for n in g.nodes if n.kind == 'stmt' and isinstance(n.stmt, ast.Assign)
           and norm(n.stmt.targets[0]) == 'self.index_stale']
    stored = {id(st) for lst in _index_writers(ctx.prog, ri, self_only=True).values() for st, _ in lst}
    var_stores = [n for n in g.nodes if n.kind == 'stmt' and id(n.stmt) in stored]
    ctx.floor('C08-R1/_reindex', len(var_stores), 2, 'index variable stores in _reindex')
    for c in clr:
        ok = all(v.id in dom[c.id] for v in var_stores) and isinstance(c.stmt.value, ast.Constant) \
            and c.stmt.value.value is False
        why = 'the flag is cleared before the index is complete'
        if not ok and isinstance(c.stmt.value, ast.Constant) and c.stmt.value.value is False:
            # say which way round: a path that reaches the clear without writing the table
            skipped = [v for v in var_stores if v.id not in dom[c.id]]
            own_guards = {id(t) for t, _, _ in guards_of(c.stmt, ri.node)}
            cond = next((('' if pol else 'not ') + norm(t) for v in skipped for t, pol, _ in guards_of(v.stmt, ri.node)
                         if id(t) not in own_guards), None)
            if cond is not None:
                why = (f'the index variables are written only when `{cond[:60]}`, but this statement is also reached when that does '
                       'not hold: the flag then says the index is fresh although nothing was written (a later look-up / sync / '
                       'save trusts a table that was never made)')
        ctx.ob('C08-R1', ri, 'flag cleared only after both index variables are stored', ok,
               'both stores dominate the clear' if ok else why, line=c.line)
    if not clr:
        ctx.ob('C08-R1', ri, 'flag cleared', False, '_reindex never clears index_stale')


# ---------------------------------------------------------------------------
# value flow: where does a value come from?
# ---------------------------------------------------------------------------

# one-argument calls that keep the sequence of values they are given
_TRANSPARENT = {'list', 'tuple', 'int', 'iter', 'np.asarray', 'np.array', 'np.ascontiguousarray', 'np.int64',
                'numpy.asarray', 'numpy.array', 'numpy.ascontiguousarray', 'numpy.int64', 'np.ma.getdata',
                'np.ma.filled'}


class Ref:
    """An expression `e` of function `fi`; `env` binds parameters of `fi` to the
    argument expressions of the call through which `fi` was entered; `comp` is a
    pending path of tuple components still to be taken of the value of `e`."""
    __slots__ = ('e', 'fi', 'env', 'comp')

    def __init__(self, e, fi, env=None, comp=()):
        self.e, self.fi, self.env, self.comp = e, fi, env or {}, tuple(comp)

    def sub(self, e, comp=()):
        return Ref(e, self.fi, self.env, comp)

    def text(self):
        return norm(self.e) + ''.join(f'[{c}]' for c in self.comp)


def _mutations(fn: ast.AST, name: str) -> list[ast.Call]:
    """calls `name.<mutating method>(...)` in fn"""
    return [c for c in calls_in(fn) if isinstance(c.func, ast.Attribute) and isinstance(c.func.value, ast.Name)
            and c.func.value.id == name and c.func.attr in MUTATING_METHODS]


def _bind_params(callee, c: ast.Call, caller: Ref):
    """parameter name -> Ref of the argument, or None when the call shape is not plain"""
    a = callee.node.args
    if a.vararg or a.kwarg or any(isinstance(x, ast.Starred) for x in c.args) or any(k.arg is None for k in c.keywords):
        return None
    names = [x.arg for x in a.posonlyargs + a.args]
    decos = {norm(d) for d in callee.node.decorator_list}
    if getattr(callee, 'cls', None) is not None and 'staticmethod' not in decos and names:
        via_class = isinstance(c.func, ast.Attribute) and dotted_name(c.func.value) == callee.cls.name
        if 'classmethod' in decos or not via_class:
            names = names[1:]
    if len(c.args) > len(names):
        return None
    env = {}
    for n_, x in zip(names, c.args):
        env[n_] = caller.sub(x)
    allowed = set(names) | {x.arg for x in a.kwonlyargs}
    for k in c.keywords:
        if k.arg not in allowed or k.arg in env:
            return None
        env[k.arg] = caller.sub(k.value)
    return env


def resolve_value(prog, r: Ref) -> Ref:
    """Follow a value back through single-definition locals, tuple unpacking,
    constant subscripts of tuples, transparent conversions, parameters of an
    inlined call and calls of resolved repository functions with one `return`.
    Stops at the first expression that is none of those (an accumulator, a
    comprehension, a library call, an attribute, ...)."""
    e, fi, env, comp = r.e, r.fi, r.env, r.comp
    for _ in range(40):
        if comp and isinstance(e, (ast.Tuple, ast.List)) and not any(isinstance(x, ast.Starred) for x in e.elts) \
                and comp[0] < len(e.elts):
            e, comp = e.elts[comp[0]], comp[1:]
            continue
        if isinstance(e, ast.Subscript) and isinstance(e.slice, ast.Constant) and isinstance(e.slice.value, int) \
                and not isinstance(e.slice.value, bool) and e.slice.value >= 0:
            base = resolve_value(prog, Ref(e.value, fi, env, (e.slice.value,) + comp))
            if len(base.comp) < 1 + len(comp) or isinstance(base.e, ast.Call):
                return base                          # the component was taken of a tuple (or is pending on a call)
            return Ref(e, fi, env, comp)
        if isinstance(e, ast.Name):
            params = set(fi.params) if hasattr(fi, 'params') else set()
            if e.id in params and e.id in env and not local_defs(fi.node, e.id):
                b = env[e.id]
                e, fi, env, comp = b.e, b.fi, b.env, b.comp + comp
                continue
            if _mutations(fi.node, e.id):
                break
            v = single_def_value(fi.node, e.id)
            if v is not None:
                e = v
                continue
            t = tuple_def_component(fi.node, e.id)
            if t is not None:
                e, comp = t[0], (t[1],) + comp
                continue
            break
        if isinstance(e, ast.Call):
            cn = call_name(e)
            if cn in _TRANSPARENT and len(e.args) == 1 and not isinstance(e.args[0], ast.Starred) \
                    and all(k.arg in ('dtype', 'copy') for k in e.keywords):
                e = e.args[0]
                continue
            callee = resolve_call(prog, fi, e) if prog is not None and hasattr(fi, 'module') else None
            if callee is not None and callee.node is not fi.node:
                rets = [x for x in walk_no_nested(callee.node) if isinstance(x, ast.Return)]
                gen = any(isinstance(x, (ast.Yield, ast.YieldFrom)) for x in walk_no_nested(callee.node))
                if len(rets) == 1 and rets[0].value is not None and not gen:
                    new_env = _bind_params(callee, e, Ref(e, fi, env))
                    if new_env is not None:
                        e, fi, env = rets[0].value, callee, new_env
                        continue
            break
        break
    return Ref(e, fi, env, comp)


def same_value(a: Ref, b: Ref) -> bool:
    """Both (resolved) references denote the same evaluation."""
    if a.comp != b.comp or a.fi.node is not b.fi.node:
        return False
    if a.e is not b.e and not (isinstance(a.e, ast.Name) and isinstance(b.e, ast.Name) and a.e.id == b.e.id):
        return False
    if a.env.keys() != b.env.keys():
        return False
    return all(same_value(a.env[k], b.env[k]) for k in a.env)


def _is_index_group(fi, e: ast.expr, depth: int = 0) -> bool:
    """e denotes a flight-identifier index group (self.index_group, ts.index_group, a group created or opened
    under the name '_index', or a local bound to one of those)."""
    if isinstance(e, ast.Attribute):
        return e.attr == 'index_group'
    if isinstance(e, ast.Name) and depth < 4:
        v = single_def_value(fi.node, e.id)
        if v is not None:
            return _is_index_group(fi, v, depth + 1)
        return 'index_group' in e.id
    if isinstance(e, ast.Call) and isinstance(e.func, ast.Attribute) and e.func.attr in ('createGroup', 'get') and e.args:
        return isinstance(e.args[0], ast.Constant) and 'index' in str(e.args[0].value)
    if isinstance(e, ast.Subscript) and isinstance(e.slice, ast.Constant):
        return 'index' in str(e.slice.value)
    return False


def _variable_object(fi, e: ast.expr, depth: int = 0):
    """(key, owner expr) when e denotes the netCDF variable `<owner>.variables['key']` (or `<owner>['key']`)."""
    if isinstance(e, ast.Name) and depth < 4:
        v = single_def_value(fi.node, e.id)
        return _variable_object(fi, v, depth + 1) if v is not None else None
    if isinstance(e, ast.Subscript) and isinstance(e.slice, ast.Constant) and isinstance(e.slice.value, str):
        o = e.value
        for _ in range(4):
            if isinstance(o, ast.Name):
                v = single_def_value(fi.node, o.id)
                if v is None:
                    break
                o = v
            else:
                break
        if isinstance(o, ast.Attribute) and o.attr == 'variables':
            return e.slice.value, o.value
        if _is_index_group(fi, o):
            return e.slice.value, o
    return None


def _index_variable(fi, e: ast.expr):
    """key when e denotes a variable of a flight-identifier index group, or a slice of one"""
    for cand in (e, e.value if isinstance(e, ast.Subscript) else None):
        if cand is None:
            continue
        vo = _variable_object(fi, cand)
        if vo is not None and _is_index_group(fi, vo[1]):
            return vo[0]
    return None


def _callee_results(prog, r: Ref, c: ast.Call):
    """[Ref] of the values a resolved repository function hands back to the call `c` made in r.fi (every `return` and
    every `yield`, parameters bound to the arguments of the call), or None when the callee is not repository code"""
    if prog is None or not hasattr(r.fi, 'module'):
        return None
    try:
        callee = resolve_call(prog, r.fi, c)
    except Exception:
        callee = None
    if callee is None or callee.node is r.fi.node or not isinstance(callee.node, (ast.FunctionDef, ast.AsyncFunctionDef)):
        return None
    env = _bind_params(callee, c, r) or {}
    out = []
    for x in walk_no_nested(callee.node):
        if isinstance(x, (ast.Return, ast.Yield, ast.YieldFrom)) and x.value is not None:
            out.append(Ref(x.value, callee, env))
    return out


def variable_reads(r: Ref, seen: set | None = None, prog=None) -> set[tuple[str, bool]]:
    """{(key, read from an index group?)} of the netCDF variables the value of r is built from, through the
    locals it mentions (every binding and every accumulation of each), the parameters bound in r.env and - when
    `prog` is given - the results of the resolved repository functions it calls."""
    seen = set() if seen is None else seen
    out = set()
    fi = r.fi
    for x in ast.walk(r.e):
        if isinstance(x, ast.Subscript):
            vo = _variable_object(fi, x)
            if vo is not None:
                out.add((vo[0], _is_index_group(fi, vo[1])))
        if isinstance(x, ast.Call) and prog is not None and ('call', id(x)) not in seen:
            seen.add(('call', id(x)))
            for res in _callee_results(prog, r, x) or ():
                out |= variable_reads(res, seen, prog)
        if isinstance(x, ast.Name) and isinstance(x.ctx, ast.Load) and (id(fi.node), x.id) not in seen:
            seen.add((id(fi.node), x.id))
            if x.id in r.env and not local_defs(fi.node, x.id):
                out |= variable_reads(r.env[x.id], seen, prog)
                continue
            for d in local_defs(fi.node, x.id):
                src = d.iter if isinstance(d, (ast.For, ast.AsyncFor)) else getattr(d, 'value', None)
                if src is not None:
                    out |= variable_reads(r.sub(src), seen, prog)
            for c in _mutations(fi.node, x.id):
                for a_ in list(c.args) + [k.value for k in c.keywords]:
                    out |= variable_reads(r.sub(a_), seen, prog)
    return out


# ---------------------------------------------------------------------------
# representation: the identifiers are 64-bit integers and must stay that
# ---------------------------------------------------------------------------

_NP = ('np', 'numpy')
_FLOAT_BY_DEFAULT = {'empty', 'zeros', 'ones'}                 # np.empty(n) … without dtype are float64 arrays
_TAKES_DTYPE_AT = {'empty': 1, 'zeros': 1, 'ones': 1, 'full': 2, 'array': 1, 'asarray': 1, 'ascontiguousarray': 1,
                   'asanyarray': 1, 'fromiter': 1, 'empty_like': 1, 'zeros_like': 1, 'ones_like': 1, 'full_like': 2,
                   'arange': None, 'concatenate': None, 'hstack': None}


def dtype_expr_code(fi, e: ast.expr | None, depth: int = 0):
    """element type named by a dtype expression (`np.int64`, `int`, `'i8'`, `np.dtype('<f8')`, a local bound once to
    one of those) as numpy's kind + bytes, None when it is not a literal type (somebody's `.dtype`, a parameter)"""
    from .c09 import _DT_NAMES
    if e is None:
        return None
    if isinstance(e, ast.Constant) and isinstance(e.value, str):
        return _DT_NAMES.get(e.value.lstrip('<>=|'))
    if isinstance(e, ast.Name):
        v = single_def_value(fi.node, e.id) if depth < 3 and fi is not None else None
        if v is not None:
            return dtype_expr_code(fi, v, depth + 1)
        return _DT_NAMES.get(e.id) if e.id in ('int', 'float', 'bool', 'object') else None
    if isinstance(e, ast.Attribute) and isinstance(e.value, ast.Name) and e.value.id in _NP:
        return _DT_NAMES.get(e.attr) if len(e.attr) > 2 else None
    if isinstance(e, ast.Call) and call_name(e) in ('np.dtype', 'numpy.dtype') and len(e.args) == 1:
        return dtype_expr_code(fi, e.args[0], depth + 1)
    return None


def _holds_identifiers(code) -> bool:
    """an element type that holds every 64-bit identifier as it is (a definite "no" only for the narrower ones)"""
    return code is None or code in ('i8', 'O', 'u8')


def narrowing_step(fi, x: ast.AST):
    """why the construct x does not hold 64-bit integers exactly, or None: an array created with a float / narrower
    integer element type or - for the constructors whose default is float64 - with none, a conversion to such a type,
    true division, arithmetic with a float constant"""
    from .c09 import dt_text
    if isinstance(x, ast.BinOp):
        if isinstance(x.op, ast.Div):
            # (`/` on paths joins them)
            if any(isinstance(y, (ast.JoinedStr, ast.Constant)) and isinstance(getattr(y, 'value', ''), (str, list))
                   or (isinstance(y, ast.Call) and call_name(y).split('.')[-1] in ('Path', 'PurePath', 'str'))
                   or (isinstance(y, ast.Attribute) and y.attr in ('name', 'parent', 'stem', 'suffix'))
                   for side in (x.left, x.right) for y in ast.walk(side)):
                return None
            return 'true division gives floats'
        if isinstance(x.op, (ast.Add, ast.Sub, ast.Mult, ast.Pow)) and any(
                isinstance(o, ast.Constant) and isinstance(o.value, float) for o in (x.left, x.right)):
            return 'arithmetic with a float constant gives floats'
        return None
    if not isinstance(x, ast.Call):
        return None
    cn = call_name(x)
    root, _, last = cn.rpartition('.')
    if cn == 'float' and len(x.args) == 1:
        return 'float() of the value'
    if isinstance(x.func, ast.Attribute) and x.func.attr == 'astype':
        code = dtype_expr_code(fi, arg_or_kw_(x, 0, 'dtype'))
        return None if _holds_identifiers(code) else f'conversion to {dt_text(code)}'
    if root in _NP or root in ('np.ma', 'numpy.ma'):
        from .c09 import _DT_NAMES
        if last in _DT_NAMES and len(last) > 2 and len(x.args) == 1 and not _holds_identifiers(_DT_NAMES[last]):
            return f'conversion to {dt_text(_DT_NAMES[last])}'
        if last in _TAKES_DTYPE_AT:
            d = arg_or_kw_(x, _TAKES_DTYPE_AT[last], 'dtype')
            if d is not None and not (isinstance(d, ast.Constant) and d.value is None):
                code = dtype_expr_code(fi, d)
                return None if _holds_identifiers(code) else f'an array of element type {dt_text(code)}'
            if last in _FLOAT_BY_DEFAULT:
                return f'np.{last}() without dtype is a float64 array'
            if last in ('array', 'asarray', 'asanyarray') and x.args and isinstance(x.args[0], (ast.List, ast.Tuple)) \
                    and not x.args[0].elts:
                return f'np.{last}([]) without dtype is a float64 array'
    return None


def arg_or_kw_(c: ast.Call, pos, name: str):
    if pos is not None and len(c.args) > pos and not any(isinstance(a, ast.Starred) for a in c.args[:pos + 1]):
        return c.args[pos]
    return kwarg(c, name)


def narrowing_steps(r: Ref, seen: set | None = None, prog=None) -> list[tuple[ast.AST, str]]:
    """the constructs on the way of the value of r (through the locals it mentions: every binding and every accumulation
    of each; parameters bound in r.env; with `prog`, the results of the resolved repository functions it calls) that do
    not hold 64-bit integers exactly"""
    seen = set() if seen is None else seen
    out = []
    fi = r.fi

    def walk(e):
        """the expression, without the receivers of netCDF variable reads (the content of a variable is where the
        identifiers come from; how the group was opened is not on their way)"""
        yield e
        if isinstance(e, ast.Subscript) and _variable_object(fi, e) is not None:
            return
        for ch in ast.iter_child_nodes(e):
            if not isinstance(ch, (ast.Lambda, ast.FunctionDef)):
                yield from walk(ch)
    for x in walk(r.e):
        why = narrowing_step(fi, x)
        if why is not None:
            out.append((x, why))
        if isinstance(x, ast.Call) and prog is not None and ('call', id(x)) not in seen:
            seen.add(('call', id(x)))
            for res in _callee_results(prog, r, x) or ():
                out += narrowing_steps(res, seen, prog)
        if isinstance(x, ast.Name) and isinstance(x.ctx, ast.Load) and (id(fi.node), x.id) not in seen:
            seen.add((id(fi.node), x.id))
            if x.id in r.env and not local_defs(fi.node, x.id):
                out += narrowing_steps(r.env[x.id], seen, prog)
                continue
            for d in local_defs(fi.node, x.id):
                src = d.iter if isinstance(d, (ast.For, ast.AsyncFor)) else getattr(d, 'value', None)
                if src is not None:
                    out += narrowing_steps(r.sub(src), seen, prog)
            for c in _mutations(fi.node, x.id):
                for a_ in list(c.args) + [k.value for k in c.keywords]:
                    out += narrowing_steps(r.sub(a_), seen, prog)
    return out


def rule_identifier_type(ctx, m):
    """R2: the variable the identifiers are stored in has the identifiers' own element type (64-bit integer)."""
    from .c09 import dt_text
    n = 0
    for fi in m.functions.values():
        for c in calls_in(fi.node):
            if not (isinstance(c.func, ast.Attribute) and c.func.attr == 'createVariable' and c.args):
                continue
            # the call once per element of every literal sequence it is looped over (`for name in ('flight_id', ...)`,
            # `for name, t in (('flight_id', np.int64), ...)`, `for name, t in {...}.items()`)
            envs = [{}]
            for a in ancestors(c):
                if not isinstance(a, (ast.For, ast.comprehension)):
                    continue
                it = a.iter
                elts = None
                if isinstance(it, (ast.Tuple, ast.List)):
                    elts = list(it.elts)
                elif isinstance(it, ast.Call) and isinstance(it.func, ast.Attribute) and it.func.attr == 'items' \
                        and isinstance(it.func.value, ast.Dict) and None not in it.func.value.keys:
                    elts = [ast.Tuple(elts=[k, v], ctx=ast.Load()) for k, v in zip(it.func.value.keys, it.func.value.values)]
                if elts is None:
                    continue
                new = []
                for env in envs:
                    for e_ in elts:
                        b = dict(env)
                        if isinstance(a.target, ast.Name):
                            b[a.target.id] = e_
                        elif isinstance(a.target, (ast.Tuple, ast.List)) and isinstance(e_, (ast.Tuple, ast.List)) \
                                and len(a.target.elts) == len(e_.elts):
                            b.update({t_.id: v_ for t_, v_ in zip(a.target.elts, e_.elts) if isinstance(t_, ast.Name)})
                        new.append(b)
                envs = new
            for env in envs:
                name = c.args[0]
                if isinstance(name, ast.Name) and name.id in env:
                    name = env[name.id]
                if not (isinstance(name, ast.Constant) and name.value == 'flight_id'):
                    continue
                n += 1
                t = arg_or_kw_(c, 1, 'datatype')
                if isinstance(t, ast.Name) and t.id in env:
                    t = env[t.id]
                code = dtype_expr_code(fi, t)
                if code is None:
                    ctx.undecided('C08-R2', fi, norm(c)[:80], 'element type of the flight_id index variable is not a literal type')
                ok = code == 'i8'
                ctx.ob('C08-R2', fi, f'index variable flight_id created as {norm(t)}', ok,
                       'the identifiers\' own 64-bit integer type' if ok else
                       f'the index variable holds its values as {dt_text(code)}, the identifiers are 64-bit integers: an identifier '
                       f'that {dt_text(code)} does not hold exactly is stored as another number and cannot be looked up',
                       line=c.lineno, nontrivial=False)
    ctx.floor('C08-R2/type', n, 1, "createVariable('flight_id', ...) sites")


def _component_expr(target: ast.expr, elt: ast.expr):
    """k such that `elt` is component k of the pair bound to `target` (an index, or a field name of a record)"""
    if isinstance(target, (ast.Tuple, ast.List)) and isinstance(elt, ast.Name):
        hits = [i for i, t in enumerate(target.elts) if isinstance(t, ast.Name) and t.id == elt.id]
        return hits[0] if len(hits) == 1 else None
    if isinstance(target, ast.Name) and isinstance(elt, ast.Subscript) and isinstance(elt.value, ast.Name) \
            and elt.value.id == target.id and isinstance(elt.slice, ast.Constant) and isinstance(elt.slice.value, int):
        return elt.slice.value
    if isinstance(target, ast.Name) and isinstance(elt, ast.Attribute) and isinstance(elt.value, ast.Name) \
            and elt.value.id == target.id:
        return elt.attr                           # field of a record: positional index through the record's class
    return None


def _component_fn(fn: ast.expr):
    """k for a function that maps a pair to its component k (as a sort key: the primary component)"""
    if fn is None:
        return 0                                  # tuples compare by their first component first
    if isinstance(fn, ast.Lambda) and len(fn.args.args) == 1 and not fn.args.vararg and not fn.args.kwarg:
        body = fn.body
        if isinstance(body, ast.Tuple) and body.elts:
            body = body.elts[0]
        return _component_expr(ast.Name(id=fn.args.args[0].arg, ctx=ast.Load()), body)
    if isinstance(fn, ast.Call) and call_name(fn) in ('itemgetter', 'operator.itemgetter', 'attrgetter', 'operator.attrgetter') \
            and fn.args and isinstance(fn.args[0], ast.Constant) and isinstance(fn.args[0].value, (int, str)):
        return fn.args[0].value
    return None


def _projection(prog, r: Ref):
    """r (resolved) is column k of a sequence S of pairs -> (Ref of S, k)"""
    e = r.e
    if r.comp:
        if len(r.comp) == 1 and isinstance(e, ast.Call) and call_name(e) == 'zip' and len(e.args) == 1 \
                and isinstance(e.args[0], ast.Starred) and not e.keywords:
            return r.sub(e.args[0].value), r.comp[0]
        return None
    if isinstance(e, (ast.ListComp, ast.GeneratorExp)) and len(e.generators) == 1:
        gen = e.generators[0]
        if not gen.ifs and not gen.is_async:
            k = _component_expr(gen.target, e.elt)
            if k is not None:
                return r.sub(gen.iter), k
    if isinstance(e, ast.Call) and call_name(e) == 'map' and len(e.args) == 2 and not e.keywords:
        k = _component_fn(e.args[0])
        if k is not None:
            return r.sub(e.args[1]), k
    return None


def _sort_of(prog, s: Ref):
    """(Ref of the sorted iterable, key expr, reverse expr, the sorting call) of a resolved sequence reference"""
    e = s.e
    if s.comp:
        return None
    if isinstance(e, ast.Call) and call_name(e) == 'sorted' and len(e.args) == 1:
        return s.sub(e.args[0]), kwarg(e, 'key'), kwarg(e, 'reverse'), e
    if isinstance(e, ast.Name):
        muts = _mutations(s.fi.node, e.id)
        v = single_def_value(s.fi.node, e.id)
        if len(muts) == 1 and muts[0].func.attr == 'sort' and not muts[0].args and v is not None \
                and isinstance(stmt_of(muts[0]), ast.Expr) and not guards_of(muts[0]) \
                and not any(isinstance(a, (ast.For, ast.While)) for a in ancestors(muts[0])):
            return s.sub(v), kwarg(muts[0], 'key'), kwarg(muts[0], 'reverse'), muts[0]
    return None


def _argsort_of(prog, r: Ref):
    """Ref of the array F when r is `np.argsort(F)` / `F.argsort()` (ascending permutation of F)"""
    e = r.e
    if r.comp or not isinstance(e, ast.Call):
        return None
    if any(k.arg not in ('kind', 'axis') for k in e.keywords):
        return None
    if call_name(e) in ('np.argsort', 'numpy.argsort') and len(e.args) == 1:
        return r.sub(e.args[0])
    if isinstance(e.func, ast.Attribute) and e.func.attr == 'argsort' and not e.args:
        return r.sub(e.func.value)
    return None


def _record_fields(prog, fi, func: ast.expr):
    """field names, in positional order, of the record class (typing.NamedTuple / dataclass) that `func` names"""
    if prog is None or not hasattr(fi, 'module') or not isinstance(func, ast.Name):
        return None
    ci = prog.resolve_name(fi.module, func.id)
    node = getattr(ci, 'node', None)
    if not isinstance(node, ast.ClassDef):
        return None
    is_record = any(b.split('.')[-1] == 'NamedTuple' for b in getattr(ci, 'base_exprs', [])) \
        or any('dataclass' in norm(d) for d in node.decorator_list)
    if not is_record:
        return None
    return [st.target.id for st in node.body if isinstance(st, ast.AnnAssign) and isinstance(st.target, ast.Name)]


def _record_args(prog, fi, elt: ast.expr):
    """(component expressions in positional order, field names | None) of a pair built by `elt`"""
    if isinstance(elt, ast.Tuple) and len(elt.elts) == 2:
        return list(elt.elts), None
    if isinstance(elt, ast.Call) and not any(isinstance(a, ast.Starred) for a in elt.args):
        fields = _record_fields(prog, fi, elt.func)
        if fields and len(fields) == 2 and len(elt.args) + len(elt.keywords) == 2:
            args = dict(zip(fields, elt.args))
            for k in elt.keywords:
                if k.arg not in fields or k.arg in args:
                    return None
                args[k.arg] = k.value
            return [args[f] for f in fields], fields
    return None


def _comp_index(c, fields):
    """positional index of a component named by position or by field name"""
    if isinstance(c, bool):
        return None
    if isinstance(c, int):
        return c
    if isinstance(c, str) and fields and c in fields:
        return fields.index(c)
    return None


def _pair_layout(prog, p: Ref):
    """Component sources of an iterable of pairs: ([c0, c1], field names | None) with
    c = ('position', None) | ('value', Ref) | ('shifted position', Ref of the start)."""
    p = resolve_value(prog, p)
    e = p.e
    if p.comp:
        return None
    if isinstance(e, (ast.GeneratorExp, ast.ListComp)) and len(e.generators) == 1 and not e.generators[0].ifs:
        # pairs (tuples or records) rebuilt from the components of another iterable of pairs
        gen = e.generators[0]
        inner = _pair_layout(prog, p.sub(gen.iter))
        made = _record_args(prog, p.fi, e.elt)
        if inner is None or made is None:
            return None
        lay = []
        for a in made[0]:
            i = _comp_index(_component_expr(gen.target, a), inner[1])
            if i is None or not 0 <= i < len(inner[0]):
                return None
            lay.append(inner[0][i])
        return lay, made[1]
    if not isinstance(e, ast.Call):
        return None
    cn = call_name(e)
    if cn == 'enumerate' and 1 <= len(e.args) <= 2 and all(k.arg == 'start' for k in e.keywords):
        start = e.args[1] if len(e.args) == 2 else kwarg(e, 'start')
        pos = ('position', None) if start is None or (isinstance(start, ast.Constant) and start.value == 0) \
            else ('shifted position', p.sub(start))
        return [pos, ('value', p.sub(e.args[0]))], None
    pair_args, fields = None, None
    if cn == 'zip' and len(e.args) == 2 and all(k.arg == 'strict' for k in e.keywords):
        pair_args = e.args
    elif cn == 'map' and len(e.args) == 3 and not e.keywords:
        fields = _record_fields(prog, p.fi, e.args[0])
        if fields and len(fields) == 2:
            pair_args = e.args[1:]
        elif isinstance(e.args[0], ast.Lambda) and len(e.args[0].args.args) == 2 and isinstance(e.args[0].body, ast.Tuple) \
                and [norm(x) for x in e.args[0].body.elts] == [a.arg for a in e.args[0].args.args]:
            pair_args, fields = e.args[1:], None
    if pair_args is not None and not any(isinstance(a, ast.Starred) for a in pair_args):
        out = []
        for i, a in enumerate(pair_args):
            other = pair_args[1 - i]
            if isinstance(a, ast.Call) and call_name(a) == 'range' and len(a.args) == 1 and isinstance(a.args[0], ast.Call) \
                    and call_name(a.args[0]) == 'len' and len(a.args[0].args) == 1 and norm(a.args[0].args[0]) == norm(other):
                out.append(('position', None))
            else:
                out.append(('value', p.sub(a)))
        return out, fields
    return None


def _describe(c) -> str:
    return c[0] if c[1] is None else (c[1].text() if c[0] == 'value' else f'{c[0]} from {c[1].text()}')


def _index_writers(prog, fi, self_only: bool = False):
    """{'flight_id': [(stmt, Ref of the stored value)], 'trajectory_index': [...]}: stores into the variables of a
    flight-identifier index group in fi."""
    out: dict[str, list] = {}
    for tt, st, how in stores_to(fi.node):
        if how != 'assign' or not isinstance(tt, ast.Subscript):
            continue
        vo = None
        for cand in (tt.value, tt):
            vo = _variable_object(fi, cand)
            if vo is not None:
                break
        if vo is None or not _is_index_group(fi, vo[1]):
            continue
        if self_only and not _denotes_self_attr(fi, vo[1], 'index_group'):
            continue
        comp = ()
        tgt = st.targets[0]
        if isinstance(tgt, (ast.Tuple, ast.List)):
            pos = [i for i, x in enumerate(tgt.elts) if x is tt]
            if len(st.targets) != 1 or not pos:
                continue
            comp = (pos[0],)
        out.setdefault(vo[0], []).append((st, Ref(st.value, fi, None, comp)))
    return out


def _denotes_self_attr(fi, e: ast.expr, attr: str) -> bool:
    for _ in range(4):
        if isinstance(e, ast.Name):
            v = single_def_value(fi.node, e.id)
            if v is None:
                return False
            e = v
        else:
            break
    return isinstance(e, ast.Attribute) and e.attr == attr and isinstance(e.value, ast.Name) and e.value.id == 'self'


def reindex_table_through_helpers(prog, m, max_parts: int = 3, max_size: int = 3):
    """`sa.rules.c09.reindex_table` once more, this time with the private helpers of the module that `_reindex` hands
    its store (or anything read from it) interpreted as well: a `_reindex` whose steps - reading the identifiers off
    the files, pairing, sorting, writing the two variables - live in methods / module functions of their own is the same
    computation.  Same model stores, same requirement on what ends up in the two index variables.
    -> (verdict, text, line); None = undecided"""
    import itertools
    from .c09 import AV, ID_DT, TruthTable, TTUndecided, _Raised, _check_index_writes, _model_parts, _repr_line
    fn = m.func('TrajectoryStore._reindex')
    line0 = fn.node.lineno
    n_runs = 0
    for wide, n in [(w, k) for w in (False, True) for k in range(1, max_parts + 1)]:
        for sizes in itertools.product(range(0, max_size + 1), repeat=n):
            if sum(sizes) > 9 or sum(sizes) == 0:
                continue
            if wide and n == max_parts and len(set(sizes)) > 1 and sorted(sizes) != list(range(n)):
                continue
            _, where = _model_parts(sizes, wide)
            ids = sorted(where, key=lambda f: where[f])
            groups, g = [], 0
            for sz in sizes:
                arr = AV('a', [AV('c', x, True) for x in ids[g:g + sz]], True, None, ID_DT)
                groups.append(AV('o', ('model', {'variables': AV('d', {'flight_id': arr}, True)}, {'variables'})))
                g += sz
            files = AV('o', ('model', {'groups': AV('o', ('anykey', AV('l', groups)))}, {'groups'}))
            # (the store counts as carrying identifier information, which is what makes the interpreter follow it into
            # the helpers it is handed to)
            store = AV('o', ('model', {'indexable': AV('c', True), 'index_stale': AV('c', True), 'nc_linked': AV('c', True),
                                      '_write_enabled': AV('c', True), '_nc': AV('o', ('anykey', files)),
                                      'index_group': AV('o', 'index group of the store')},
                             {'indexable', 'index_stale', 'nc_linked', '_nc', 'index_group'}), True)
            tt = TruthTable(prog, fn, (), '<none>', None)
            tt.enter_helpers = True
            try:
                res = tt.run(None, keep_flags=True, bindings={fn.params[0]: store})
            except TTUndecided as ex:
                return None, f'files of sizes {sizes}: {ex}', line0
            except (_Raised, RecursionError):
                return None, f'files of sizes {sizes}: an exception escaped the interpretation', line0
            acc = [r for r in res if r[0] == 'accepted']
            if not acc or len(acc) != len(res):
                return None, f'files of sizes {sizes}: _reindex does not complete on every path', line0
            n_runs += 1
            for r in acc:
                v, text = _check_index_writes(r[5], where, f'for a store whose files hold {sizes} trajectories')
                if v is not True:
                    return v, text, _repr_line(r[5]) or line0
    return True, (f'for every store of up to {max_parts} files with 0..{max_size} trajectories each ({n_runs} runs, helpers of the '
                  f'module interpreted with it; small identifiers and identifiers above 2**53) the stored index maps every '
                  f'identifier, unchanged and in ascending order, to the position of its trajectory'), line0


def rule_sorted_writers(ctx, m):
    """R2, writer side.  What is stored into the two index variables must be the two columns of ONE ascending sort
    of the (identifier, position) pairs keyed on the identifier — the column the reader bisects on — whether the
    sort is written inline, through locals, or inside a resolved callee."""
    prog = ctx.prog
    from .c09 import merged_index_table, reindex_table
    for qn in ('TrajectoryStore._reindex', 'TrajectoryStore._create_merged_store_index'):
        fi = m.func(qn)
        # first by bounded interpretation of the writer on model stores (c09: every store / every tuple of parts within
        # small bounds): what it stores must be the identifiers in ascending order, each next to the position of its
        # trajectory.  Only when that is not decided, by tracing the stored values back to one sort (below).
        try:
            verdict, text, line = reindex_table(prog, m) if qn.endswith('_reindex') else merged_index_table(ctx, prog, m)
        except Exception as ex:
            if type(ex).__name__ == 'AnalysisError':
                raise
            verdict, text = None, f'internal: {type(ex).__name__}: {ex}'
        if verdict is None and qn.endswith('_reindex'):
            # not decided with the helpers of the module taken as opaque: once more with those helpers interpreted
            try:
                v2, t2, l2 = reindex_table_through_helpers(prog, m)
            except Exception as ex:
                if type(ex).__name__ == 'AnalysisError':
                    raise
                v2, t2, l2 = None, f'internal: {type(ex).__name__}: {ex}', None
            if v2 is not None:
                verdict, text, line = v2, t2, l2
            else:
                text = f'{text}; with helpers: {t2}'
        if verdict is not None:
            ctx.ob('C08-R2', fi, 'index variables = identifiers ascending, each next to the position of its trajectory', verdict,
                   text, line=line)
            continue
        ctx.note(f'C08-R2: interpretation of {fi.name} not decided ({text}); value-tracing rule used')
        W = _index_writers(prog, fi)
        if set(W) != {'flight_id', 'trajectory_index'} or any(len(v) != 1 for v in W.values()):
            ctx.undecided('C08-R2', fi, 'index variable stores',
                          'expected one store into each of flight_id / trajectory_index, found '
                          + str({k: len(v) for k, v in sorted(W.items())}))
        (s_id, v_id), (s_ix, v_ix) = W['flight_id'][0], W['trajectory_index'][0]
        # whatever the form of the sort: a construct on the way of the stored identifiers that does not hold 64-bit integers
        narrowed = narrowing_steps(v_id, prog=prog)
        for x, why in narrowed[:1]:
            ctx.ob('C08-R2', fi, f'identifiers stored unchanged: {norm(x)[:60]}', False,
                   f'on their way into the flight_id index variable the identifiers pass through `{norm(x)[:60]}` ({why}), which does '
                   'not hold every 64-bit identifier exactly: such an identifier is stored as another number and cannot be looked up',
                   line=getattr(x, 'lineno', s_id.lineno))
        r_id, r_ix = resolve_value(prog, v_id), resolve_value(prog, v_ix)
        p_id, p_ix = _projection(prog, r_id), _projection(prog, r_ix)
        if p_id is not None and p_ix is not None:
            S_id, S_ix = resolve_value(prog, p_id[0]), resolve_value(prog, p_ix[0])
            one = same_value(S_id, S_ix) or (S_id.fi.node is S_ix.fi.node and norm(S_id.e) == norm(S_ix.e)
                                             and all(same_value(S_id.env[k], S_ix.env[k]) for k in S_id.env)
                                             and S_id.env.keys() == S_ix.env.keys())
            ctx.ob('C08-R2', fi, 'both index variables are columns of one sequence of sorted pairs', one,
                   f'both project {S_id.text()[:70]}' if one else
                   (f'flight_id is a column of {S_id.text()[:60]} but trajectory_index is a column of {S_ix.text()[:60]}: '
                    'slot i of one table no longer describes slot i of the other'), line=s_ix.lineno)
            so = _sort_of(prog, S_id)
            if so is None:
                ctx.undecided('C08-R2', fi, S_id.text()[:80], 'the sequence the index columns are taken from is not a '
                              'recognised sort (sorted(...) or one in-place .sort())')
            P, key, rev, scall = so
            if rev is not None and not (isinstance(rev, ast.Constant) and not rev.value):
                ctx.ob('C08-R2', fi, f'{norm(scall)[:60]} reverse={norm(rev)}', False,
                       'descending table, but the reader does a left bisection of an ascending array', line=scall.lineno)
            lf = _pair_layout(prog, P)
            layout, fields = lf if lf is not None else (None, None)
            k, c_id, c_ix = (_comp_index(c, fields) for c in (_component_fn(key), p_id[1], p_ix[1]))
            if layout is None or k not in (0, 1) or c_id not in (0, 1) or c_ix not in (0, 1):
                ctx.undecided('C08-R2', fi, norm(scall)[:80], 'pair layout, sort key or projected component not recognised')
            ok = c_id == k
            ctx.ob('C08-R2', fi, f'flight_id table = component {c_id} of pairs sorted by component {k}', ok,
                   'the searched variable is the sort key, hence ascending' if ok else
                   'the variable the reader bisects on is not the one the pairs were sorted by', line=s_id.lineno)
            id_col, pos_col, what_pos = layout[c_id], (layout[c_ix] if c_ix != c_id else None), f'component {c_ix}'
        else:
            # permutation form: ids[order], order  /  ids[order], positions[order]   with order = argsort(ids)
            def permuted(r):
                if r.comp or not isinstance(r.e, ast.Subscript):
                    return None
                o = resolve_value(prog, r.sub(r.e.slice))
                f = _argsort_of(prog, o)
                return (resolve_value(prog, r.sub(r.e.value)), o, resolve_value(prog, f)) if f is not None else None
            pm = permuted(r_id)
            if pm is None:
                ctx.undecided('C08-R2', fi, 'index variable stores', 'store is not a projection of the sorted pairs')
            arr, order, sorted_arr = pm
            ok = same_value(arr, sorted_arr)
            if not ok:
                ctx.undecided('C08-R2', fi, r_id.text()[:80], 'the permutation is not the argsort of the permuted array itself')
            ctx.ob('C08-R2', fi, f'flight_id table = {arr.text()[:40]} in its own argsort order', True,
                   'the searched variable is ascending', line=s_id.lineno)
            id_col = ('value', arr)

            def same_order(o2):
                """the same permutation: the same evaluation, or the same argsort written out again with nothing stored
                in between (a temporary that was inlined)"""
                return same_value(o2, order) or (
                    o2.fi.node is order.fi.node and not o2.comp and not order.comp and isinstance(o2.e, ast.Call)
                    and isinstance(order.e, ast.Call) and norm(o2.e) == norm(order.e)
                    and not _stores_between(o2.fi.node, [o2.e, order.e]))
            if _argsort_of(prog, r_ix) is not None and same_order(r_ix):
                pos_col = ('position', None)
            else:
                pm2 = permuted(r_ix)
                pos_col = ('value', pm2[0]) if pm2 is not None and same_order(pm2[1]) else None
            what_pos = r_ix.text()[:50]
        keys = {k_ for k_, _ in variable_reads(id_col[1], prog=prog)} if id_col[0] == 'value' else set()
        steps = narrowing_steps(id_col[1], prog=prog) if id_col[0] == 'value' and not narrowed else []
        for x, why in steps[:1]:
            ctx.ob('C08-R2', fi, f'identifiers stored unchanged: {norm(x)[:60]}', False,
                   f'on their way into the flight_id index variable the identifiers pass through `{norm(x)[:60]}` ({why}), which does '
                   'not hold every 64-bit identifier exactly: such an identifier is stored as another number and cannot be looked up',
                   line=getattr(x, 'lineno', s_id.lineno))
        ok = id_col[0] == 'value' and keys == {'flight_id'}
        ctx.ob('C08-R2', fi, f'flight_id table holds {_describe(id_col)[:60]}', ok,
               'the searched variable holds the flight identifiers' if ok else
               f'what is stored as flight_id is not the identifier column (built from {sorted(keys) or id_col[0]})',
               line=s_id.lineno)
        if pos_col is None:
            ok = False
        elif pos_col[0] == 'position':
            ok = True
        elif pos_col[0] == 'value':
            ok = {k_ for k_, _ in variable_reads(pos_col[1], prog=prog)} == {'trajectory_index'}
        else:
            ok = False
        ctx.ob('C08-R2', fi, f'trajectory_index table = {what_pos} = {_describe(pos_col) if pos_col else "?"}'[:110], ok,
               'the parallel variable carries the store position of the same pair' if ok else
               'trajectory_index is not the position column of the same sorted pairs', line=s_ix.lineno)


# ---------------------------------------------------------------------------
# reader
# ---------------------------------------------------------------------------

def _search_call(c: ast.Call):
    """(array expr, searched value expr, 'left'|'right') for a binary search call, else None;
    'other' as side when the call has options that are not modelled."""
    cn = call_name(c)
    extra = [k.arg for k in c.keywords if k.arg != 'side']
    if cn in ('bisect.bisect_left', 'bisect_left', 'bisect.bisect_right', 'bisect_right', 'bisect.bisect', 'bisect') \
            and len(c.args) >= 2:
        side = 'left' if cn.endswith('_left') else 'right'
        return c.args[0], c.args[1], (side if len(c.args) == 2 and not c.keywords else 'other')
    if cn in ('np.searchsorted', 'numpy.searchsorted') and len(c.args) >= 2:
        arr, val, rest = c.args[0], c.args[1], c.args[2:]
    elif isinstance(c.func, ast.Attribute) and c.func.attr == 'searchsorted' and len(c.args) >= 1:
        arr, val, rest = c.func.value, c.args[0], c.args[1:]
    else:
        return None
    side = rest[0] if rest else kwarg(c, 'side')
    if extra or len(rest) > 1 or (side is not None and not isinstance(side, ast.Constant)):
        return arr, val, 'other'
    return arr, val, ('left' if side is None else str(side.value))


def _self_attr_fills(cls, attr: str):
    """[(value expr, FunctionInfo, stmt)] for every `self.<attr> = value` in the class whose value is not None"""
    out = []
    for fi in cls.methods.values():
        for t, st, how in stores_to(fi.node):
            if isinstance(t, ast.Attribute) and t.attr == attr and isinstance(t.value, ast.Name) and t.value.id == 'self' \
                    and how in ('assign', 'ann') and getattr(st, 'value', None) is not None \
                    and not (isinstance(st.value, ast.Constant) and st.value.value is None):
                tgt = st.targets[0] if isinstance(st, ast.Assign) else st.target
                if tgt is t:
                    out.append((st.value, fi, st))
    return out


def index_source(prog, cls, r: Ref, depth: int = 0):
    """(key, via) when the value of r is the content of index variable `key` of the store's own index group, read
    directly (via None) or through the attribute `via` of self that holds a copy of it; else None."""
    r = resolve_value(prog, r)
    e = r.e
    if isinstance(e, ast.Attribute) and isinstance(e.value, ast.Name) and e.value.id == 'self' and depth < 3:
        found = set()
        for val, fi, _ in _self_attr_fills(cls, e.attr):
            s = index_source(prog, cls, Ref(val, fi, None, r.comp), depth + 1)
            found.add(s[0] if s is not None else None)
        if len(found) == 1 and None not in found:
            return found.pop(), e.attr
        return None
    if r.comp:
        return None
    key = _index_variable(r.fi, e)
    if key is not None:
        return key, None
    for var, lst in _index_writers(prog, r.fi).items():
        for st, v in lst:
            if same_value(resolve_value(prog, v), r):
                return var, None
    return None


IN_MEMORY_FACTS = {('self.nc_linked', False), ('len(self._nc_files) != 0', False), ('len(self._nc_files) > 0', False),
                   ('len(self._nc_files) == 0', True), ('self._nc_files', False), ('len(self._nc_files)', False)}


def _none_const(e) -> bool:
    return isinstance(e, ast.Constant) and e.value is None


def _holds(op: str, a, b):
    """truth of `a <op> b` for two python constants, None when it cannot be said"""
    try:
        if op == 'Is':
            return (a is b) if (a is None or b is None or isinstance(a, bool) or isinstance(b, bool)) else None
        if op == 'IsNot':
            return (a is not b) if (a is None or b is None or isinstance(a, bool) or isinstance(b, bool)) else None
        return {'Eq': lambda: a == b, 'NotEq': lambda: a != b, 'Lt': lambda: a < b, 'LtE': lambda: a <= b,
                'Gt': lambda: a > b, 'GtE': lambda: a >= b}[op]()
    except (TypeError, KeyError):
        return None


_FLIP = {'Lt': 'Gt', 'LtE': 'GtE', 'Gt': 'Lt', 'GtE': 'LtE', 'Eq': 'Eq', 'NotEq': 'NotEq', 'Is': 'Is', 'IsNot': 'IsNot'}


def _test_on_name(e: ast.expr):
    """(name, op, constant) when e tests one local against a constant (`x is None`, `x < 0`, `0 <= x`), (name, 'Truth',
    None) when e is the bare local; else None"""
    if isinstance(e, ast.Name):
        return e.id, 'Truth', None
    if isinstance(e, ast.Compare) and len(e.ops) == 1:
        l, r, op = e.left, e.comparators[0], type(e.ops[0]).__name__
        if isinstance(r, ast.UnaryOp) and isinstance(r.op, ast.USub) and isinstance(r.operand, ast.Constant) \
                and isinstance(r.operand.value, (int, float)):
            r = ast.Constant(value=-r.operand.value)
        if isinstance(l, ast.UnaryOp) and isinstance(l.op, ast.USub) and isinstance(l.operand, ast.Constant) \
                and isinstance(l.operand.value, (int, float)):
            l = ast.Constant(value=-l.operand.value)
        if isinstance(l, ast.Name) and isinstance(r, ast.Constant) and op in _FLIP:
            return l.id, op, r.value
        if isinstance(r, ast.Name) and isinstance(l, ast.Constant) and op in _FLIP:
            return r.id, _FLIP[op], l.value
    return None


def _nonneg_satisfies(tests) -> bool | None:
    """is there a non-negative integer for which every (op, constant, truth) of `tests` comes out as stated?
    None when a test is outside what is evaluated here"""
    cands = {0, 1, 2}
    for op, c, _ in tests:
        if isinstance(c, (int, float)) and not isinstance(c, bool):
            cands |= {int(c) + d for d in (-1, 0, 1)}
    for v in sorted(x for x in cands if x >= 0):
        ok = True
        for op, c, p in tests:
            r = bool(v) if op == 'Truth' else _holds(op, v, c)
            if r is None:
                return None
            if r != p:
                ok = False
                break
        if ok:
            return True
    return False


def _canon_none(e: ast.expr):
    """(e', flipped): one spelling for the tests against None - `X is None`; e is e' negated when flipped"""
    if isinstance(e, ast.Compare) and len(e.ops) == 1 and isinstance(e.ops[0], (ast.Is, ast.IsNot, ast.NotEq, ast.Eq)) \
            and (_none_const(e.comparators[0]) or _none_const(e.left)):
        if isinstance(e.ops[0], ast.Is) and _none_const(e.comparators[0]):
            return e, False
        other = e.left if _none_const(e.comparators[0]) else e.comparators[0]
        canon = ast.copy_location(ast.Compare(left=other, ops=[ast.Is()], comparators=[ast.Constant(value=None)]), e)
        canon._parent = getattr(e, '_parent', None)
        return canon, isinstance(e.ops[0], (ast.IsNot, ast.NotEq))
    return e, False


def truth_under(test: ast.expr, facts) -> bool | None:
    """truth value of a test at a point where the (text, truth) facts hold, None when they do not say"""
    if isinstance(test, ast.UnaryOp) and isinstance(test.op, ast.Not):
        r = truth_under(test.operand, facts)
        return None if r is None else not r
    if isinstance(test, ast.BoolOp):
        vals = [truth_under(v, facts) for v in test.values]
        short = isinstance(test.op, ast.Or)
        if any(v is short for v in vals):
            return short
        return (not short) if all(v is (not short) for v in vals) else None
    if isinstance(test, ast.Constant):
        return bool(test.value)
    e, fl = _canon_none(test)
    if isinstance(e, ast.Compare) and len(e.ops) == 1 and isinstance(e.left, ast.Constant) \
            and isinstance(e.comparators[0], ast.Constant):
        r = _holds(type(e.ops[0]).__name__, e.left.value, e.comparators[0].value)
        return None if r is None else (r != fl)
    t = norm(e)
    for v in (True, False):
        if (t, v) in facts:
            return v != fl
    return None


def conjuncts_links(test: ast.expr, pol: bool):
    """`conjuncts`, with a chained comparison that holds (`0 <= pos < n`) split into its links (`0 <= pos`, `pos < n`);
    one that does not hold is a disjunction and stays whole"""
    out = []
    for e, p in conjuncts(test, pol):
        if p and isinstance(e, ast.Compare) and len(e.ops) > 1:
            operands = [e.left] + list(e.comparators)
            for i, op in enumerate(e.ops):
                link = ast.copy_location(ast.Compare(left=operands[i], ops=[op], comparators=[operands[i + 1]]), e)
                link._parent = getattr(e, '_parent', None)
                out.append((link, True))
        else:
            out.append((e, p))
    return out


def value_arms(v: ast.expr, cond=()):
    """[(leaf value, [(test, truth)] that selects it)] of a value with conditional expressions in it"""
    if isinstance(v, ast.IfExp):
        return value_arms(v.body, tuple(cond) + ((v.test, True),)) + value_arms(v.orelse, tuple(cond) + ((v.test, False),))
    return [(v, list(cond))]


def path_facts(fn: ast.AST, domain=None):
    """Forward dataflow of branch conditions: for each CFG node the set of (expr text, truth value) facts that hold
    on every normal path reaching it (`if`/`while` outcomes and `assert`s; a fact dies when a name or self attribute
    it mentions is stored to).  Returns (cfg, {node id: facts}, {text: expr}, facts_of(test, truth) -> facts,
    {node id: {facts of one feasible path}} or None when there are too many paths, {text of a definition fact: the
    defining expression}).

    The per-path sets also carry, for every local, *which* of its assignments the path went through (`@def <n> x := E`,
    alive until x or a name of E is stored to; a conditional expression forks the path into its arms with the outcome of
    its test), so a local bound on several branches can be read per path.  `domain(E)` may say 'nonneg' (E is a
    non-negative integer: a position, a length) or 'notnone' about a defining expression; together with constants
    (`x = None`, `x = -1`, `x = False`) that decides the tests a path takes on such a local, and paths that contradict
    it are not feasible."""
    g = CFG(fn)
    exprs: dict[str, ast.expr] = {}
    dexprs: dict[str, ast.expr] = {}

    def facts_of(test, pol, depth=0):
        out = set()
        for e, p in conjuncts_links(test, pol):
            if isinstance(e, ast.Name) and depth < 4:
                # a flag computed once from side-effect-free tests stands for those tests
                v = single_def_value(fn, e.id)
                if v is not None and all(call_name(c) in ('len', 'int', 'bool') for c in calls_in(v)):
                    out |= facts_of(v, p, depth + 1)
                    continue
            e, fl = _canon_none(e)
            p = p != fl
            t = norm(e)
            exprs[t] = e
            out.add((t, p))
        return out

    def transfer(node, st):
        s_ = node.stmt
        if node.kind != 'stmt' or s_ is None:
            return st
        killed = set()
        for t, _, _ in stores_to(s_) if isinstance(s_, (ast.Assign, ast.AugAssign, ast.AnnAssign, ast.Delete)) else []:
            killed.add(norm(t.value) if isinstance(t, ast.Subscript) else norm(t))
        if killed:
            st = frozenset(f for f in st if not any(re.search(r'(?<![\w.])' + re.escape(k) + r'(?![\w])', f[0]) for k in killed))
        if isinstance(s_, ast.Assert):
            st = st | frozenset(facts_of(s_.test, True))
        return st

    def branch(node, lab, st):
        s_ = node.stmt
        if node.kind == 'test' and isinstance(s_, (ast.If, ast.While)):
            return st | frozenset(facts_of(s_.test, lab == 't'))
        return st

    ins, _ = g.forward(frozenset(), transfer, lambda a, b: a & b, edge_ok=_normal, branch_transfer=branch)

    # Path-sensitive refinement: the fact sets of every *feasible* simple normal path reaching each node.  A path is
    # infeasible when a branch outcome contradicts a fact it carries; constants assigned to a local are facts too
    # (`x = None` -> `x is None`; `found = True` -> `found`), and so is "x holds the result of call C" (`@is C x`),
    # which lets a sentinel idiom (`pos = search(); if <miss>: pos = None; if pos is None: return None`) be followed.
    loop_kills: dict[int, set[str]] = {}
    for x in walk_no_nested(fn):
        if isinstance(x, (ast.For, ast.AsyncFor, ast.While)):
            loop_kills[id(x)] = {norm(t.value) if isinstance(t, ast.Subscript) else norm(t) for t, _, _ in stores_to(x)}

    def kill(st, killed):
        if not killed:
            return st
        return frozenset(f for f in st if not any(re.search(r'(?<![\w.])' + re.escape(k) + r'(?![\w])', f[0]) for k in killed))

    def gen_value(x, v):
        """facts about the local x after `x = v`"""
        out = set()
        while isinstance(v, ast.Call) and call_name(v) in _TRANSPARENT and len(v.args) == 1 and not v.keywords:
            v = v.args[0]
        if isinstance(v, ast.Constant) and v.value is None:
            t = f'{x} is None'
            exprs.setdefault(t, ast.parse(t, mode='eval').body)
            out.add((t, True))
        elif isinstance(v, ast.Constant) and isinstance(v.value, bool):
            exprs.setdefault(x, ast.Name(id=x, ctx=ast.Load()))
            out.add((x, v.value))
        elif isinstance(v, ast.Call):
            out.add((f'@is {id(v)} {x}', True))
            t = f'{x} is None'
            if call_name(v).split('.')[-1] in ('bisect_left', 'bisect_right', 'bisect', 'searchsorted', 'len'):
                exprs.setdefault(t, ast.parse(t, mode='eval').body)
                out.add((t, False))
        d = f'@def {id(v)} {x} := {norm(v)}'
        dexprs[d] = v
        out.add((d, True))
        return out

    def arms(v):
        """[(leaf value, facts of the tests that select it)] of a value with conditional expressions in it"""
        return [(leaf, frozenset(f for t_, p_ in cond for f in facts_of(t_, p_))) for leaf, cond in value_arms(v)]

    def atom_cases(e, p):
        """the ways the atomic test e can come out as p: [facts], one entry per arm when e compares a conditional
        expression (`(None if miss else T[pos]) is None`: a temporary that was substituted into its test)"""
        if isinstance(e, ast.Compare) and len(e.ops) == 1:
            sides = [e.left, e.comparators[0]]
            k = next((i for i, x in enumerate(sides) if isinstance(x, ast.IfExp)), None)
            if k is not None and not isinstance(sides[1 - k], ast.IfExp):
                out = []
                for leaf, cond in arms(sides[k]):
                    pair = [leaf, sides[1 - k]] if k == 0 else [sides[1 - k], leaf]
                    e2 = ast.copy_location(ast.Compare(left=pair[0], ops=e.ops, comparators=[pair[1]]), e)
                    e2._parent = getattr(e, '_parent', None)
                    r = truth_under(e2, ())
                    if r is None and _none_const(sides[1 - k]) and domain is not None and domain(leaf) in ('nonneg', 'notnone'):
                        r = isinstance(e.ops[0], (ast.IsNot, ast.NotEq))
                    if r is None:
                        out.append(set(cond) | facts_of(e2, p))
                    elif r == p:
                        out.append(set(cond))
                return out
        c, fl = _canon_none(e)
        t = norm(c)
        exprs[t] = c
        return [{(t, p != fl)}]

    def test_cases(test, pol, st=frozenset(), depth=0):
        """[facts] - the ways a branch test comes out as pol (on a path that carries the facts st: a flag that this path
        bound to a side-effect-free test stands for that test, whatever other branches bind it to)"""
        cases = [set()]
        for e, p in conjuncts_links(test, pol):
            if isinstance(e, ast.Name):
                alts = [facts_of(e, p)]
                d = def_on_path(e.id, st) if depth < 4 and len(local_defs(fn, e.id)) > 1 else None
                if isinstance(d, (ast.Compare, ast.BoolOp, ast.UnaryOp)) \
                        and all(call_name(c) in ('len', 'int', 'bool') for c in calls_in(d)):
                    alts = [a | facts_of(e, p) for a in test_cases(d, p, st, depth + 1)]
            else:
                alts = atom_cases(e, p)
            cases = [c | a for c in cases for a in alts]
            if len(cases) > 16:
                return [facts_of(test, pol)]
        return cases

    def gen(s_):
        """the ways through an assignment to one local: [facts established]"""
        x = v = None
        if isinstance(s_, ast.Assign) and len(s_.targets) == 1 and isinstance(s_.targets[0], ast.Name):
            x, v = s_.targets[0].id, s_.value
        elif isinstance(s_, ast.AnnAssign) and isinstance(s_.target, ast.Name) and s_.value is not None:
            x, v = s_.target.id, s_.value
        if x is None:
            return [set()]
        return [set(kill(frozenset(cond), {x})) | gen_value(x, leaf) for leaf, cond in arms(v)]

    def def_on_path(x, st):
        ds = [t for t, p_ in st if p_ and t.startswith('@def ') and t.split(' ', 3)[2] == x]
        return dexprs.get(ds[0]) if len(ds) == 1 else None

    def decided(e, st):
        """truth value of the test e on a path with the facts st when the local it tests has a known constant or a known
        domain on that path, else None"""
        tn = _test_on_name(e)
        if tn is None:
            return None
        x, op, c = tn
        d = def_on_path(x, st)
        if d is None:
            return None
        if isinstance(d, ast.UnaryOp) and isinstance(d.op, ast.USub) and isinstance(d.operand, ast.Constant) \
                and isinstance(d.operand.value, (int, float)):
            d = ast.Constant(value=-d.operand.value)
        if isinstance(d, ast.Constant):
            return bool(d.value) if op == 'Truth' else _holds(op, d.value, c)
        dom_ = domain(d) if domain is not None else None
        if dom_ in ('nonneg', 'notnone') and c is None and op in ('Is', 'IsNot', 'Eq', 'NotEq'):
            return op in ('IsNot', 'NotEq')
        if dom_ == 'nonneg' and op != 'Truth' and isinstance(c, (int, float)) and not isinstance(c, bool):
            yes, no = _nonneg_satisfies([(op, c, True)]), _nonneg_satisfies([(op, c, False)])
            if yes is False:
                return False
            if no is False:
                return True
        return None

    paths: dict[int, set] | None = {}
    budget = [60000]

    def walk(nid, st, seen):
        budget[0] -= 1
        if budget[0] < 0:
            return
        node = g.nodes[nid]
        if node.stmt is not None and node.kind in ('iter', 'test') and id(node.stmt) in loop_kills:
            st = kill(st, loop_kills[id(node.stmt)])
        paths.setdefault(nid, set()).add(st)
        out_sts = [st]
        if node.kind == 'stmt' and node.stmt is not None:
            base = transfer(node, st)
            out_sts = []
            for fs_ in gen(node.stmt):
                if any((t, not p_) in base for t, p_ in fs_) \
                        or any(truth_under(exprs[t], base) is (not p_) or decided(exprs[t], base) is (not p_)
                               for t, p_ in fs_ if t in exprs):
                    continue                      # (an arm of a conditional expression this path cannot take)
                out_sts.append(base | frozenset(fs_))
        for out_st in out_sts:
            for b_, lab in g.succ[nid]:
                if lab == 'e' or b_ in seen:
                    continue
                if lab in ('t', 'f') and node.kind == 'test' and isinstance(node.stmt, (ast.If, ast.While)):
                    for new in test_cases(node.stmt.test, lab == 't', out_st):
                        if any((t, not p_) in out_st or (t in exprs and truth_under(exprs[t], out_st) is (not p_))
                               for t, p_ in new):
                            continue
                        if any(t in exprs and decided(exprs[t], out_st) is (not p_) for t, p_ in new):
                            continue
                        walk(b_, out_st | frozenset(new), seen | {b_})
                else:
                    walk(b_, out_st, seen | {b_})

    import sys
    old = sys.getrecursionlimit()
    sys.setrecursionlimit(max(old, 5000))
    try:
        walk(g.entry, frozenset(), {g.entry})
    except RecursionError:
        budget[0] = -1
    finally:
        sys.setrecursionlimit(old)
    if budget[0] < 0:
        paths = None
    def consistent(st, new) -> bool:
        """can the facts `new` hold on a path that carries st?"""
        return not any((t, not p_) in st or (t in exprs and (truth_under(exprs[t], st) is (not p_)
                                                             or decided(exprs[t], st) is (not p_))) for t, p_ in new)
    facts_of.consistent = consistent
    return g, ins, exprs, facts_of, paths, dexprs


def _alternatives(e: ast.expr | None):
    """leaf values of a returned expression (conditional expressions split)"""
    if isinstance(e, ast.IfExp):
        return _alternatives(e.body) + _alternatives(e.orelse)
    return [e]


def _cache_search(prog, gf, ret: ast.Return, v: ast.expr, facts, loop_facts=None):
    """Recognise `v` as "the element of an iterable whose attribute equals the key".
    -> dict(elt, target, iter, conds, missing) or None.  `missing` says what happens when nothing matches:
    'none' | 'falls through' | 'raises'."""
    r0 = Ref(v, gf)
    # (a) loop with early return of the loop variable
    if isinstance(v, ast.Name):
        lp = next((a for a in ancestors(ret) if isinstance(a, (ast.For, ast.AsyncFor))
                   and v.id in {x.id for x in ast.walk(a.target) if isinstance(x, ast.Name)}), None)
        if lp is not None:
            conds = [(e, p) for t, pol, _ in guards_of(ret, stop=lp) for e, p in conjuncts(t, pol)]
            if loop_facts is not None:
                # what is known at the return and was not known on entry to the loop (guard clauses with `continue`)
                have = {(norm(e), p) for e, p in conds}
                conds += [ep for ep in loop_facts(lp) if (norm(ep[0]), ep[1]) not in have]
            return dict(elt=v, target=lp.target, iter=lp.iter, conds=conds, missing='falls through')
    r = resolve_value(prog, r0)
    e = r.e
    if r.comp:
        return None

    def from_comp(c, missing):
        if isinstance(c, (ast.ListComp, ast.GeneratorExp)) and len(c.generators) == 1 and not c.generators[0].is_async:
            gen = c.generators[0]
            return dict(elt=c.elt, target=gen.target, iter=gen.iter,
                        conds=[(x, p) for i in gen.ifs for x, p in conjuncts(i, True)], missing=missing)
        return None
    # (b) next(generator[, None])
    if isinstance(e, ast.Call) and call_name(e) == 'next' and 1 <= len(e.args) <= 2 and not e.keywords:
        src = resolve_value(prog, r.sub(e.args[0]))
        missing = 'raises' if len(e.args) == 1 else \
            ('none' if isinstance(e.args[1], ast.Constant) and e.args[1].value is None else 'other')
        s = src.e
        if isinstance(s, ast.Call) and call_name(s) == 'filter' and len(s.args) == 2 and isinstance(s.args[0], ast.Lambda) \
                and len(s.args[0].args.args) == 1:
            a = s.args[0].args.args[0].arg
            nm = ast.Name(id=a, ctx=ast.Load())
            return dict(elt=nm, target=nm, iter=s.args[1], conds=[(s.args[0].body, True)], missing=missing)
        return from_comp(s, missing)
    # (c) matches[0] guarded by the list being non-empty
    if isinstance(e, ast.Subscript) and isinstance(e.slice, ast.Constant) and e.slice.value == 0:
        lst = resolve_value(prog, r.sub(e.value))
        d = from_comp(lst.e, 'none') if isinstance(lst.e, ast.ListComp) else None
        if d is not None:
            texts = {norm(e.value)}
            nonempty = any((t in texts and p) or (t in {f'len({x})' for x in texts} and p)
                           or (t in {f'len({x}) {op}' for x in texts for op in ('> 0', '!= 0', '>= 1')} and p)
                           or (t in {f'len({x}) == 0' for x in texts} and not p) for t, p in facts)
            d['missing'] = 'none' if nonempty else 'raises'
            return d
    # (d) {t.key: t for t in ...}.get(x)
    if isinstance(e, ast.Call) and isinstance(e.func, ast.Attribute) and e.func.attr == 'get' and 1 <= len(e.args) <= 2 \
            and not e.keywords:
        dc = resolve_value(prog, r.sub(e.func.value)).e
        if isinstance(dc, ast.DictComp) and len(dc.generators) == 1 and not dc.generators[0].ifs:
            gen = dc.generators[0]
            missing = 'none' if len(e.args) == 1 or (isinstance(e.args[1], ast.Constant) and e.args[1].value is None) else 'other'
            eq = ast.Compare(left=dc.key, ops=[ast.Eq()], comparators=[e.args[0]])
            return dict(elt=dc.value, target=gen.target, iter=gen.iter, conds=[(eq, True)], missing=missing)
    return None


def _stores_between(fn: ast.AST, calls: list[ast.Call]) -> bool:
    """do the calls sit in different statements with a store, a mutating call or a loop between / around them?"""
    stmts = {id(stmt_of(c)) for c in calls}
    if len(stmts) == 1 and not any(isinstance(a, (ast.For, ast.AsyncFor, ast.While, ast.ListComp, ast.GeneratorExp, ast.SetComp,
                                                  ast.DictComp)) for c in calls for a in ancestors(c)
                                   if not isinstance(a, (ast.FunctionDef, ast.AsyncFunctionDef, ast.ClassDef, ast.Module))
                                   and a is not fn and any(x is a for x in ast.walk(stmt_of(calls[0])))):
        return False
    lo, hi = min(c.lineno for c in calls), max(getattr(c, 'end_lineno', c.lineno) for c in calls)
    names = {x.id for c in calls for x in ast.walk(c) if isinstance(x, ast.Name)}
    for t, st, _ in stores_to(fn):
        if lo <= st.lineno <= hi and ({x.id for x in ast.walk(t) if isinstance(x, ast.Name)} & names or not isinstance(t, ast.Name)):
            return True
    return any(isinstance(x, (ast.For, ast.AsyncFor, ast.While)) and lo <= x.lineno <= hi for x in walk_no_nested(fn))


def rule_reader(ctx, m):
    """R2, reader side (get_flight)."""
    prog = ctx.prog
    cls = m.cls('TrajectoryStore')
    gf = m.func('TrajectoryStore.get_flight')
    fid = gf.params[1]

    def value_domain(d):
        """what is known about a defining expression: an element of one of the two index variables is never None, an
        element of trajectory_index - like the result of a binary search or a length - is a position (>= 0)"""
        if isinstance(d, ast.Call) and (_search_call(d) is not None or call_name(d) == 'len'):
            return 'nonneg'
        if isinstance(d, ast.Subscript) and not isinstance(d.slice, (ast.Slice, ast.Tuple)):
            src = index_source(prog, cls, Ref(d.value, gf))
            if src is not None:
                return 'nonneg' if src[0] == 'trajectory_index' else 'notnone'
        return None

    g, ins, fexprs, facts_of, paths, dexprs = path_facts(gf.node, value_domain)

    def on_path(e, fs, depth=0) -> Ref:
        """the value of e on a path with the facts fs: a local bound on several branches is followed through the
        assignment this path went through"""
        if isinstance(e, ast.Name) and depth < 8:
            ds = [t for t, p_ in fs if p_ and t.startswith('@def ') and t.split(' ', 3)[2] == e.id]
            if len(ds) == 1 and ds[0] in dexprs:
                return on_path(dexprs[ds[0]], fs, depth + 1)
        if isinstance(e, ast.IfExp) and isinstance(stmt_of(e), ast.Return) and depth < 8:
            # (evaluated at the return, where the facts hold: the arms this path cannot take drop out)
            live = [leaf for leaf, cond in value_arms(e) if not any(truth_under(t_, fs) is (not p_) for t_, p_ in cond)]
            if len(live) == 1:
                return on_path(live[0], fs, depth + 1)
        r = resolve_value(prog, Ref(e, gf))
        if r.e is not e and isinstance(r.e, (ast.Name, ast.IfExp)) and r.fi is gf and not r.comp and depth < 8:
            return on_path(r.e, fs, depth + 1)
        return r

    def sets_at(nid):
        """fact sets, one per feasible path reaching the node (the dataflow solution when paths were not enumerated)"""
        if paths is None:
            return [set(ins[nid])] if nid in ins else []
        return [set(f) for f in paths.get(nid, ())]

    def meet_at(nid):
        ss = sets_at(nid)
        return set.intersection(*ss) if ss else set()

    def is_fid(e):
        x = resolve_value(prog, Ref(e, gf))
        return isinstance(x.e, ast.Name) and x.e.id == fid and not x.comp

    searches = [(c, _search_call(c)) for c in calls_in(gf.node)]
    searches = [(c, s) for c, s in searches if s is not None]
    # the same search written out more than once (a temporary that was inlined: same function, same arguments, nothing
    # stored in between) is one search
    texts = {norm(c) for c, _ in searches}
    if len(texts) != 1 or (len(searches) > 1 and _stores_between(gf.node, [c for c, _ in searches])):
        ctx.undecided('C08-R2', gf, 'bisect', f'expected one binary search call (bisect_left / searchsorted), found {len(searches)}')
    same = [c for c, _ in searches]
    b, (arr, val, side) = searches[0]
    if side not in ('left', 'right'):
        ctx.undecided('C08-R2', gf, norm(b)[:80], 'binary search with options that are not modelled')
    a_src = index_source(prog, cls, Ref(arr, gf))
    for x, why in (narrowing_steps(Ref(arr, gf)) + narrowing_steps(Ref(val, gf)))[:1]:
        ctx.ob('C08-R2', gf, f'identifiers compared unchanged: {norm(x)[:60]}', False,
               f'the look-up compares identifiers through `{norm(x)[:60]}` ({why}), which does not hold every 64-bit identifier '
               'exactly: two different identifiers can compare equal, and the trajectory of another flight is returned',
               line=getattr(x, 'lineno', b.lineno))
    ok = a_src is not None and a_src[0] == 'flight_id' and is_fid(val)
    ctx.ob('C08-R2', gf, f'{call_name(b).split(".")[-1]}({norm(arr)}, {norm(val)})', ok,
           'searches the flight_id variable for the requested identifier'
           + (f' (through the copy kept in self.{a_src[1]})' if ok and a_src[1] else '') if ok else
           'the binary search does not run over the flight_id variable with the requested identifier', line=b.lineno)

    def is_pos(e, facts=()):
        x = on_path(e, facts)
        if any(x.e is c for c in same) and not x.comp:
            return True
        # a local assigned more than once: on this path it holds the search result
        cands = []
        for c in same:
            v = c
            par = getattr(v, '_parent', None)
            while isinstance(par, ast.Call) and call_name(par) in _TRANSPARENT and len(par.args) == 1:
                v, par = par, getattr(par, '_parent', None)
            cands += [c, v]
        return isinstance(e, ast.Name) and any((f'@is {id(c)} {e.id}', True) in facts for c in cands)

    def src_of(e):
        return index_source(prog, cls, Ref(e, gf))

    def length_of(e):
        """array expr A when e is len(A) / A.size / A.shape[0]"""
        if isinstance(e, ast.Call) and call_name(e) == 'len' and len(e.args) == 1:
            return e.args[0]
        if isinstance(e, ast.Attribute) and e.attr == 'size':
            return e.value
        if isinstance(e, ast.Subscript) and isinstance(e.value, ast.Attribute) and e.value.attr == 'shape' \
                and isinstance(e.slice, ast.Constant) and e.slice.value == 0:
            return e.value.value
        return None

    IN_RANGE = {('Lt', True, True), ('GtE', True, False), ('Gt', False, True), ('LtE', False, False),
                ('Eq', True, False), ('Eq', False, False), ('NotEq', True, True), ('NotEq', False, True)}

    def confirmed(facts):
        """(identifier equality established, bounds established) at a point where `facts` hold"""
        eq = bounds = False
        for t, p in facts:
            e = fexprs.get(t)
            if not isinstance(e, ast.Compare) or len(e.ops) != 1:
                continue
            l, r_, op = e.left, e.comparators[0], type(e.ops[0]).__name__
            for x, y, pos_left in ((l, r_, True), (r_, l, False)):
                if op in ('Eq', 'NotEq') and (op == 'Eq') == p and is_fid(y) and isinstance(x, ast.Subscript) \
                        and is_pos(x.slice, facts) and src_of(x.value) == a_src and a_src is not None:
                    eq = True
                la = length_of(y)
                if la is not None and is_pos(x, facts) and (op, pos_left, p) in IN_RANGE:
                    s = src_of(la)
                    if s is not None and a_src is not None and s[1] == a_src[1]:
                        bounds = True
        return eq, bounds

    ret_nodes = [n for n in g.nodes if n.kind == 'stmt' and isinstance(n.stmt, ast.Return) and n.id in ins]

    def _is_none_on(v, fs) -> bool:
        r = on_path(v, fs)
        return _none_const(r.e) and not r.comp

    def _answering_paths():
        """fact sets of the confirmed-hit paths that end in a value-returning `return`"""
        out = []
        for rn in ret_nodes:
            for x in _alternatives(rn.stmt.value):
                if x is not None and not _none_const(x):
                    out += [fs for fs in sets_at(rn.id) if not (fs & IN_MEMORY_FACTS) and confirmed(fs) == (True, True)
                            and not _is_none_on(x, fs)]
        return out

    OUT_OF_RANGE = {(op, pl, p) for op in ('Lt', 'LtE', 'Gt', 'GtE', 'Eq', 'NotEq') for pl in (True, False) for p in (True, False)} \
        - IN_RANGE - {('LtE', True, True), ('GtE', False, True), ('Gt', True, False), ('Lt', False, False)}

    def _fact_alternatives(e, p):
        """the ways the fact `e is p` can hold: [[(atom, truth)]] - a disjunction (a chained comparison or an `and` that
        does not hold, an `or` that holds) gives one entry per disjunct, each split into its conjuncts"""
        if isinstance(e, ast.UnaryOp) and isinstance(e.op, ast.Not):
            return _fact_alternatives(e.operand, not p)
        if isinstance(e, ast.BoolOp) and isinstance(e.op, ast.Or if p else ast.And):
            return [alt for v_ in e.values for alt in _fact_alternatives(v_, p)]
        if isinstance(e, ast.Compare) and len(e.ops) > 1 and not p:
            operands = [e.left] + list(e.comparators)
            out = []
            for i, op in enumerate(e.ops):
                link = ast.copy_location(ast.Compare(left=operands[i], ops=[op], comparators=[operands[i + 1]]), e)
                link._parent = getattr(e, '_parent', None)
                out.append([(link, False)])
            return out
        alts = [[]]
        for e2, p2 in conjuncts_links(e, p):
            if e2 is e or not isinstance(e2, (ast.BoolOp, ast.UnaryOp)) and not (isinstance(e2, ast.Compare) and len(e2.ops) > 1):
                alts = [a + [(e2, p2)] for a in alts]
            else:
                alts = [a + b for a in alts for b in _fact_alternatives(e2, p2)]
        return alts

    def _miss_atom(e, p, fs):
        """'miss' when the outcome says the found slot is out of range or holds another identifier (what justifies
        answering None), ('pos', name, op, constant, truth) for a test of the found position / of the position read from
        trajectory_index against a constant, else None"""
        if isinstance(e, ast.Compare) and len(e.ops) == 1:
            l, r_, op = e.left, e.comparators[0], type(e.ops[0]).__name__
            for x, y, pos_left in ((l, r_, True), (r_, l, False)):
                if op in ('Eq', 'NotEq') and (op == 'Eq') != p and is_fid(y) and isinstance(x, ast.Subscript) \
                        and src_of(x.value) is not None:
                    return 'miss'
                if length_of(y) is not None and is_pos(x, fs) and (op, pos_left, p) in OUT_OF_RANGE:
                    return 'miss'
        tn = _test_on_name(e)
        if tn is not None:
            nm = ast.Name(id=tn[0], ctx=ast.Load())
            r = on_path(nm, fs)
            if is_pos(nm, fs) or (not r.comp and isinstance(r.e, ast.Subscript) and value_domain(r.e) == 'nonneg'):
                return ('pos', tn[0], tn[1], tn[2], p)
            d = r.e
            if isinstance(d, ast.UnaryOp) and isinstance(d.op, ast.USub) and isinstance(d.operand, ast.Constant) \
                    and isinstance(d.operand.value, (int, float)):
                d = ast.Constant(value=-d.operand.value)
            if not r.comp and isinstance(d, ast.Constant) \
                    and (bool(d.value) if tn[1] == 'Truth' else _holds(tn[1], d.value, tn[2])) is p:
                return 'neutral'                  # (a sentinel this path itself assigned: the test says nothing new)
        return None

    def _lost_hit(per_path):
        """text of the test that sends a hit to `return None`, or None.  A path that answers None is compared with every
        answering path (bounds and equality confirmed): when everything that tells the two apart is a test of the found
        position (or of the position read from trajectory_index) against constants that some position satisfies, and
        nothing on the None path says that the slot is out of range or holds another identifier, the identifier in that
        slot is not found although it was added (`if not pos: return None`, `if not 0 < pos < n: return None` lose slot
        0).  Tests of anything else are not judged here."""
        if paths is None:
            return None
        good = None
        for fs in per_path:
            if fs & IN_MEMORY_FACTS:
                continue
            good = _answering_paths() if good is None else good
            for gs_ in good:
                extra = [(t, p_) for t, p_ in fs - gs_ if not t.startswith('@')]
                if not extra or any(t not in fexprs for t, _ in extra):
                    continue
                combos = [[]]
                for t, p_ in extra:
                    combos = [c + a for c in combos for a in _fact_alternatives(fexprs[t], p_)]
                    if len(combos) > 32:
                        combos = []
                        break
                shared = [k for t, p_ in fs & gs_ if t in fexprs and not t.startswith('@')
                          for k in [_miss_atom(fexprs[t], p_, fs)] if isinstance(k, tuple)]
                for atoms in combos:
                    kinds = [k for k in (_miss_atom(e, p_, fs) for e, p_ in atoms) if k != 'neutral']
                    if not kinds or any(k is None or k == 'miss' for k in kinds):
                        continue
                    by_name: dict[str, list] = {}
                    for _, x, op, c, p_ in kinds + shared:
                        by_name.setdefault(x, []).append((op, c, p_))
                    if all(_nonneg_satisfies(tests) is True for tests in by_name.values()):
                        return ' and '.join(('' if p_ else 'not ') + f'`{norm(e)}`' for e, p_ in atoms
                                            if _miss_atom(e, p_, fs) != 'neutral')
        return None

    n_val = n_none = 0
    for rnode in ret_nodes:
        ret = rnode.stmt
        if not sets_at(rnode.id):
            continue                                  # no feasible path reaches this return
        for v in _alternatives(ret.value):
            local = set()
            for t, pol, _ in (guards_of(v, stop=ret) if v is not None else []):
                local |= facts_of(t, pol)
            facts = meet_at(rnode.id) | local
            # (the arm of a conditional `return A if T else B` is reached only on the paths its test agrees with)
            per_path = [fs | local for fs in sets_at(rnode.id) if paths is None or facts_of.consistent(fs, local)]
            if not per_path:
                continue
            txt = f'return {norm(v) if v is not None else "None"}'
            if v is not None and not _none_const(v) and paths is not None:
                # the paths on which the returned local holds None (`result = None` on the miss branch) return None
                none_paths = [fs for fs in per_path if _is_none_on(v, fs)]
                if none_paths:
                    per_path = [fs for fs in per_path if not _is_none_on(v, fs)]
                    lost = _lost_hit(none_paths)
                    if lost is not None:
                        ctx.ob('C08-R2', gf, txt + ' (None on this path) although the identifier was found', False,
                               f'None is returned when {lost} - which the slot / the position of an added trajectory satisfies - on a path '
                               'where nothing says that the slot is out of range or holds another identifier: '
                               'a trajectory that was added with that identifier is not found', line=ret.lineno)
                    if not per_path:
                        n_none += 1
                        continue
                    facts = set.intersection(*[set(fs) for fs in per_path])
            in_memory = bool(facts & IN_MEMORY_FACTS)
            if v is None or (isinstance(v, ast.Constant) and v.value is None):
                n_none += 1
                # a hit must be answered: on a path where the found slot was confirmed (bounds and equality hold), None
                # is wrong.  Reported when the only thing that tells this path from an answering one is a test of the
                # position read from trajectory_index that some position satisfies (`if not traj_idx: return None`
                # loses position 0); tests of anything else are not judged here.
                lost = _lost_hit(per_path)
                if lost is not None:
                    ctx.ob('C08-R2', gf, txt + ' although the identifier was found', False,
                           f'None is returned when {lost} - which the slot / the position of an added trajectory satisfies - on a path '
                           'where nothing says that the slot is out of range or holds another identifier: '
                           'a trajectory that was added with that identifier is not found', line=ret.lineno)
                continue
            n_val += 1
            # ---- answer from the cache of an in-memory store --------------------------------------
            def loop_facts(lp, here=rnode):
                head = [i for i in g.nodes_of(lp) if g.nodes[i].kind == 'iter' and i in ins]
                before = meet_at(head[0]) if head else set()
                return [(fexprs[t], p) for t, p in sorted(meet_at(here.id) - before) if t in fexprs]
            cs = _cache_search(prog, gf, ret, v, facts, loop_facts)
            if cs is not None:
                it = resolve_value(prog, Ref(cs['iter'], gf)).e
                how = norm(it)
                elt_ok = False
                if how == 'self._trajectories.values()' or how == 'list(self._trajectories.values())':
                    elt_ok = isinstance(cs['target'], ast.Name) and isinstance(cs['elt'], ast.Name) \
                        and cs['elt'].id == cs['target'].id
                elif how == 'self._trajectories.items()':
                    elt_ok = _component_expr(cs['target'], cs['elt']) == 1
                match = [c for c in cs['conds'] if isinstance(c[0], ast.Compare) and len(c[0].ops) == 1
                         and ((isinstance(c[0].ops[0], ast.Eq) and c[1]) or (isinstance(c[0].ops[0], ast.NotEq) and not c[1]))
                         and any(is_fid(y) and isinstance(x, ast.Attribute) and x.attr == 'flight_id'
                                 and norm(x.value) == norm(cs['elt'])
                                 for x, y in ((c[0].left, c[0].comparators[0]), (c[0].comparators[0], c[0].left)))]
                miss_is_none = cs['missing'] != 'falls through'
                if not miss_is_none:
                    # loop form: what does a miss run into after the loop?
                    lp = next(a for a in ancestors(ret) if isinstance(a, (ast.For, ast.AsyncFor)))
                    after = [i for i in g.nodes_of(lp) if g.nodes[i].kind == 'join']
                    nxt = [g.nodes[j] for i in after for j, lab in g.succ[i] if lab != 'e']
                    miss_is_none = any(n.kind == 'exit' or (isinstance(n.stmt, ast.Return) and n.kind == 'stmt' and (
                        n.stmt.value is None or (isinstance(n.stmt.value, ast.Constant) and n.stmt.value.value is None)))
                        for n in nxt)
                if not in_memory and not miss_is_none and elt_ok and len(match) == 1 and len(cs['conds']) == 1:
                    ctx.ob('C08-R2', gf, txt + ' (cache short-cut)', True,
                           'a cached trajectory with the requested identifier is the answer; a miss goes on to the index',
                           line=ret.lineno)
                    continue
                if not in_memory:
                    ctx.ob('C08-R2', gf, txt, False,
                           'a store with files attached is answered by scanning the trajectory cache, which holds only the '
                           'trajectories loaded so far: an identifier that is in the file but not in the cache returns None',
                           line=ret.lineno)
                    continue
                if not elt_ok or len(match) != 1 or len(cs['conds']) != 1 or cs['missing'] == 'other':
                    if elt_ok and not match and len(cs['conds']) <= 1:
                        ctx.ob('C08-R2', gf, txt, False,
                               'the cached trajectory returned is not selected by equality of its flight_id with the '
                               'requested identifier', line=ret.lineno)
                        continue
                    ctx.undecided('C08-R2', gf, txt[:100], 'in-memory look-up: search form not recognised '
                                  f'(iterates {how[:40]}, {len(cs["conds"])} condition(s))')
                if cs['missing'] == 'raises':
                    ctx.ob('C08-R2', gf, txt, False,
                           'an identifier that was never added raises (StopIteration / IndexError) instead of returning None',
                           line=ret.lineno)
                    continue
                ctx.ob('C08-R2', gf, txt, True,
                       'in-memory store: the cached trajectory whose identifier equals the requested one, None when there is none',
                       line=ret.lineno)
                continue
            # ---- answer through the index ---------------------------------------------------------
            # (path by path: a local that is bound on several branches - a position-or-None sentinel handed back by
            # a search helper - holds, on each path, what the assignment that path went through gave it)
            okr = True
            for fs in per_path:
                rv = on_path(v, fs)
                e = rv.e
                item = None
                if not rv.comp and isinstance(e, ast.Subscript) and norm(e.value) == 'self':
                    item = e.slice
                elif not rv.comp and isinstance(e, ast.Call) and call_name(e) == 'self.__getitem__' and len(e.args) == 1:
                    item = e.args[0]
                if item is None:
                    ctx.undecided('C08-R2', gf, txt[:100], 'returned value is neither a look-up through the index nor a '
                                  'recognised search of the cache')
                ri = on_path(item, fs)
                slot = ri.e.slice if isinstance(ri.e, ast.Subscript) and not ri.comp else None
                t_src = src_of(ri.e.value) if slot is not None else None
                okr = okr and slot is not None and is_pos(slot, fs) and t_src is not None \
                    and t_src[0] == 'trajectory_index' \
                    and a_src is not None and t_src[1] == a_src[1]
            why_bad = 'the returned trajectory is not looked up through the parallel trajectory_index slot'
            if okr and side == 'right':
                okr = False
                why_bad = ('a right bisection returns the slot after the last equal key, so slot `pos` never holds the '
                           'requested identifier')
            ctx.ob('C08-R2', gf, txt, okr,
                   'returns the trajectory at the parallel trajectory_index slot' if okr else why_bad, line=ret.lineno)
            eq, bounds = (all(x) for x in zip(*[confirmed(fs) for fs in per_path]))
            if eq and not bounds:
                # an out-of-range slot answered by catching IndexError around the comparison
                for t, p in facts:
                    e2 = fexprs.get(t)
                    tr = next((a for a in ancestors(e2) if isinstance(a, ast.Try)), None) if e2 is not None else None
                    if tr is not None and any(h.type is None or norm(h.type) in ('IndexError', 'Exception', 'LookupError')
                                              or 'IndexError' in norm(h.type) for h in tr.handlers):
                        bounds = True
            okc = eq and bounds
            ctx.ob('C08-R2', gf, 'hit confirmed (bounds and equality) else None', okc,
                   'returns None unless the found slot holds exactly the requested identifier' if okc else
                   'a missing identifier can return a neighbouring trajectory or index past the end'
                   + ('' if eq else ' (no equality test of the found slot against the requested identifier)')
                   + ('' if bounds else ' (no bounds test of the found slot)'), line=ret.lineno)
            if in_memory:
                ctx.ob('C08-R2', gf, txt + ' on an in-memory store', False,
                       'an in-memory store has no index group: it must answer from its cache', line=ret.lineno)
    # (that an in-memory store is answered at all is R5's business: without that branch the index group is dereferenced)
    ctx.floor('C08-R2/get_flight', n_val, 1, 'value-returning answers of get_flight')


def rule_sorted(ctx, m):
    rule_identifier_type(ctx, m)
    rule_sorted_writers(ctx, m)
    rule_reader(ctx, m)


# ---------------------------------------------------------------------------
# R6 freshness of copies of the index
# ---------------------------------------------------------------------------

_NOT_A_COPY = {'index_group', 'index_dataset', 'index_stale'}


def _self_attr_of_target(t: ast.expr):
    """attribute name X when the store target is self.X, self.X[...] (any depth)"""
    while isinstance(t, ast.Subscript):
        t = t.value
    if isinstance(t, ast.Attribute) and isinstance(t.value, ast.Name) and t.value.id == 'self':
        return t.attr
    return None


def _attr_writes(fi, attr: str):
    """statements of fi that rebind, delete, store into or mutate self.<attr>"""
    out = []
    for t, st, how in stores_to(fi.node):
        if _self_attr_of_target(t) == attr:
            out.append(st)
    for c in calls_in(fi.node):
        if isinstance(c.func, ast.Attribute) and c.func.attr in MUTATING_METHODS \
                and _self_attr_of_target(c.func.value) == attr:
            out.append(stmt_of(c))
    return out


def _whole_variable(t: ast.Subscript) -> bool:
    sl = t.slice
    return (isinstance(sl, ast.Slice) and sl.lower is None and sl.upper is None and sl.step is None) \
        or (isinstance(sl, ast.Constant) and (sl.value is Ellipsis or isinstance(sl.value, str)))


_COPIES_MEMO: dict = {}


def index_copies(prog, methods: dict):
    """{attr: [(FunctionInfo, stmt)]}: attributes of self that are given a value built from the variables of the
    store's index group (read from them, or the very columns that are being written into them)."""
    key = (id(prog), tuple((k, id(fi.node)) for k, fi in methods.items()))
    hit = _COPIES_MEMO.get(key)
    if hit is not None and hit[0] is prog and all(a is b for a, b in zip(hit[1], methods.values())):
        return {a: list(v) for a, v in hit[2].items()}
    out = _index_copies(prog, methods)
    _COPIES_MEMO[key] = (prog, list(methods.values()), out)
    return {a: list(v) for a, v in out.items()}


def _index_copies(prog, methods: dict):
    out: dict[str, list] = {}
    for fi in methods.values():
        written = set()
        for lst in _index_writers(prog, fi).values():
            for st, v in lst:
                if all(_whole_variable(t) for t in ast.walk(st.targets[0]) if isinstance(t, ast.Subscript)
                       and not isinstance(t.slice, ast.Constant)):       # (a column, not one slot of it)
                    written |= {x.id for x in ast.walk(v.e) if isinstance(x, ast.Name) and isinstance(x.ctx, ast.Load)}
        cands = []
        for t, st, how in stores_to(fi.node):
            a = _self_attr_of_target(t)
            if a is not None and a not in _NOT_A_COPY and getattr(st, 'value', None) is not None and how != 'del':
                cands.append((a, st, st.value))
        for c in calls_in(fi.node):
            if isinstance(c.func, ast.Attribute) and c.func.attr in MUTATING_METHODS:
                a = _self_attr_of_target(c.func.value)
                if a is not None and a not in _NOT_A_COPY:
                    for x in list(c.args) + [k.value for k in c.keywords]:
                        cands.append((a, stmt_of(c), x))
        for a, st, v in cands:
            if isinstance(v, ast.Constant):
                continue
            reads = variable_reads(Ref(v, fi))
            names = {x.id for x in ast.walk(v) if isinstance(x, ast.Name) and isinstance(x.ctx, ast.Load)}
            if any(is_idx for _, is_idx in reads) or (names & written):
                out.setdefault(a, []).append((fi, st))
    return out


def lookup_copies(prog, methods: dict, lookups=('get_flight',)):
    """index_copies restricted to the attributes a look-up reads (in the look-up method or a method it calls on self)."""
    copies = index_copies(prog, methods)
    reach, work = set(), [n for n in lookups if n in methods]
    if not work:            # no look-up method by that name: every method that runs a binary search
        work = [k for k, fi in methods.items() if any(_search_call(c) for c in calls_in(fi.node))]
    while work:
        k = work.pop()
        if k in reach:
            continue
        reach.add(k)
        for c in calls_in(methods[k].node):
            cn = call_name(c)
            if cn.startswith('self.') and cn.count('.') == 1 and cn[5:] in methods:
                work.append(cn[5:])
    read = {x.attr for k in reach for x in walk_no_nested(methods[k].node)
            if isinstance(x, ast.Attribute) and isinstance(x.ctx, ast.Load) and isinstance(x.value, ast.Name) and x.value.id == 'self'}
    return {a: v for a, v in copies.items() if a in read}


def freshness(prog, methods: dict):
    """For every copy of the index kept in an attribute: is it dropped or renewed wherever the index goes stale
    (`self.index_stale = True`, or a computed value) or wherever the index variables are rewritten?  One of the two is necessary: a
    look-up reads the copy, and nothing else tells the copy that trajectories were added since it was made.
    -> [(attr, ok, covered group, fills, uncovered sites [(fi, stmt)], detail)]"""
    copies = lookup_copies(prog, methods)
    stale_sites, rewrite_sites = [], []
    for fi in methods.values():
        if fi.node.name == '__init__':
            continue
        for t, st, how in stores_to(fi.node):
            if _self_attr_of_target(t) == 'index_stale' and isinstance(t, ast.Attribute) and how == 'assign':
                # the flag is given a value that can be true: the constant, or something computed (`= has_flight_id`);
                # not the constant False, not the value the flag had on entry put back by a failed addition
                v_ = st.value
                if isinstance(v_, ast.Constant):
                    goes_stale = v_.value is True
                else:
                    d = single_def_value(fi.node, v_.id) if isinstance(v_, ast.Name) else None
                    goes_stale = not (d is not None and norm(d) == 'self.index_stale')
                if goes_stale:
                    stale_sites.append((fi, st))
        for lst in _index_writers(prog, fi, self_only=True).values():
            rewrite_sites += [(fi, st) for st, _ in lst]

    def writes_attr(fi, attr, depth=0):
        if _attr_writes(fi, attr):
            return True
        if depth < 3:
            for c in calls_in(fi.node):
                cn = call_name(c)
                if cn.startswith('self.') and cn.count('.') == 1 and cn[5:] in methods and methods[cn[5:]] is not fi \
                        and writes_attr(methods[cn[5:]], attr, depth + 1):
                    return True
        return False

    def covered(fi, site, attr):
        g = CFG(fi.node)
        dom = g.dominators(edge_ok=_normal)
        pdom = g.postdominators([g.exit], edge_ok=_normal)
        s_nodes = g.nodes_of(site)
        w_nodes = set()
        for st in _attr_writes(fi, attr):
            w_nodes |= set(g.nodes_of(st))
        for n in g.nodes:
            if n.kind == 'stmt' and n.stmt is not None:
                for c in calls_in(n.stmt):
                    cn = call_name(c)
                    if cn.startswith('self.') and cn.count('.') == 1 and cn[5:] in methods and methods[cn[5:]] is not fi \
                            and writes_attr(methods[cn[5:]], attr, 1):
                        w_nodes.add(n.id)
        return bool(s_nodes) and all(any(w in dom.get(s, ()) or w in pdom.get(s, ()) for w in w_nodes) for s in s_nodes)

    out = []
    for attr, fills in sorted(copies.items()):
        unc_w = [(fi, st) for fi, st in rewrite_sites if not covered(fi, st, attr)]
        unc_e = [(fi, st) for fi, st in stale_sites if not covered(fi, st, attr)]
        if rewrite_sites and not unc_w:
            out.append((attr, True, 'rewritten', fills, [], ''))
            continue
        if stale_sites and not unc_e:
            out.append((attr, True, 'marked stale', fills, [], ''))
            continue
        # say what the code tries instead, if it tests the flag where it can no longer be set
        detail = ''
        for fi, st in fills:
            if any('self.index_stale' in norm(t) for t, pol, _ in guards_of(st)):
                if any(call_name(c) == 'self._reindex' for c in calls_in(fi.node)):
                    detail = (f'; the refill in {fi.node.name} is tested on `self.index_stale`, but by then the lazy `_reindex()` '
                              '(or an earlier sync()) has already cleared the flag, so the test is never true')
        out.append((attr, False, '', fills, unc_e or unc_w, detail))
    return out, len(stale_sites), len(rewrite_sites)


_FRESH_CONTROL = '''
class S:
    def add(self, t):
        self._write(t)
        if self.indexable:
            self.index_stale = True
    def _reindex(self):
        p = sorted(enumerate(self._ids()), key=lambda x: x[1])
        self.index_group.variables['flight_id'][:] = [i for _, i in p]
        self.index_group.variables['trajectory_index'][:] = [j for j, _ in p]
        self.index_stale = False
    def get_flight(self, x):
        if self.index_stale:
            self._reindex()
        if self._tab is None or self.index_stale:
            self._tab = (self.index_group.variables['flight_id'][:], self.index_group.variables['trajectory_index'][:])
        ids, idxs = self._tab
        i = bisect.bisect_left(ids, x)
        return self[idxs[i]] if i < len(ids) and ids[i] == x else None
    def _reindex_and_drop(self):
        self.index_group.variables['flight_id'][:] = []
        self._tab = None
'''


class _Fn:
    def __init__(self, node):
        self.node = node
        self.params = [a.arg for a in node.args.args]


def _control_methods(drop: bool):
    tree = ast.parse(_FRESH_CONTROL)
    for n in ast.walk(tree):
        for ch in ast.iter_child_nodes(n):
            if not isinstance(ch, (ast.expr_context, ast.operator, ast.unaryop, ast.cmpop, ast.boolop)):
                ch._parent = n
    ms = {f.name: _Fn(f) for f in tree.body[0].body}
    if drop:
        ms['_reindex'] = ms.pop('_reindex_and_drop')
    else:
        ms.pop('_reindex_and_drop')
    return ms


def rule_fresh(ctx, m):
    """R6: a copy of the index kept in an attribute is dropped or renewed wherever the index goes stale or is rewritten."""
    prog = ctx.prog
    cls = m.cls('TrajectoryStore')
    res, n_stale, n_rewrite = freshness(prog, dict(cls.methods))
    ctx.floor('C08-R6', n_stale + n_rewrite, 3, 'sites where the index goes stale or is rewritten')
    for attr, ok, group, fills, sites, detail in res:
        ffi, fst = fills[0]
        if ok:
            ctx.ob('C08-R6', ffi, f'copy of the index in self.{attr} renewed where the index is {group}', True,
                   f'every site where the index is {group} also writes self.{attr}', line=fst.lineno)
            continue
        for sfi, sst in sites:
            ctx.ob('C08-R6', sfi, f'{norm(sst)[:60]} leaves the copy of the index in self.{attr} in place', False,
                   (f'{ffi.qualname} keeps a copy of the index variables in self.{attr} (line {fst.lineno}) and searches that copy, '
                    f'but neither the place where the index goes stale (`{norm(sst)[:40]}` in {sfi.node.name}) nor the place where '
                    f'the index variables are rewritten (_reindex) drops or renews it: once filled, the copy is used for the '
                    f'lifetime of the object, so an identifier added after the first look-up is reported as missing' + detail),
                   line=sst.lineno)
    ctx.ob('C08-R6', (m.relpath, 'TrajectoryStore'), f'{len(res)} attribute(s) keep a copy of the index variables', True,
           ', '.join(f'self.{r[0]}' for r in res) or 'look-ups read the index variables themselves', nontrivial=False)
    bad, _, _ = freshness(None, _control_methods(drop=False))
    good, _, _ = freshness(None, _control_methods(drop=True))
    ctx.control('C08-R6', len(bad) == 1 and bad[0][0] == '_tab' and not bad[0][1] and 'never true' in bad[0][5]
                and len(good) == 1 and good[0][1],
                'embedded store that refills its index copy on `index_stale` after the lazy reindex is recognised as stale; '
                'the same store dropping the copy in _reindex is accepted')


# ---------------------------------------------------------------------------
# R7 what `add` knows about the stored table
# ---------------------------------------------------------------------------

def _attached_existing_index(fi):
    """statements `self.index_group = <an index group that exists already>` (not None, not a group created here)"""
    out = []
    for t, st, how in stores_to(fi.node):
        if how != 'assign' or not (isinstance(t, ast.Attribute) and t.attr == 'index_group' and isinstance(t.value, ast.Name)
                                   and t.value.id == 'self'):
            continue
        v = st.value
        for _ in range(4):
            if isinstance(v, ast.Name):
                d = single_def_value(fi.node, v.id)
                if d is None:
                    break
                v = d
            else:
                break
        if isinstance(v, ast.Constant) and v.value is None:
            continue
        if isinstance(v, ast.Call) and isinstance(v.func, ast.Attribute) and v.func.attr == 'createGroup':
            continue
        out.append(st)
    return out


_READ_ONLY_FACT = re.compile(r'self\.mode (==|is) [\w.]*\bAPPEND$')


def table_knowledge(prog, methods: dict, writer: str = 'add'):
    """Attributes of the store whose value is taken from the index table and that the writer consults (it decides from
    them whether the table is still in order, instead of marking it stale).  Such an attribute describes the table
    of the *file*: it has to be established wherever an existing table is attached to the object (opening a store
    for appending), otherwise the first decision of a session is taken on the constructor's value.
    -> [(attr, fills, [(fi, attach stmt, established?)])]"""
    if writer not in methods:
        return []
    copies = lookup_copies(prog, methods, lookups=(writer,))

    def writes_attr(fi, attr, depth=0):
        if _attr_writes(fi, attr):
            return True
        if depth < 3:
            for c in calls_in(fi.node):
                cn = call_name(c)
                if cn.startswith('self.') and cn.count('.') == 1 and cn[5:] in methods and methods[cn[5:]] is not fi \
                        and writes_attr(methods[cn[5:]], attr, depth + 1):
                    return True
        return False

    out = []
    for attr, fills in sorted(copies.items()):
        sites = []
        for fi in methods.values():
            att = _attached_existing_index(fi)
            if not att:
                continue
            g, ins, _, _, _, _ = path_facts(fi.node)
            dom = g.dominators(edge_ok=_normal)
            pdom = g.postdominators([g.exit], edge_ok=_normal)
            w_nodes = set()
            for st in _attr_writes(fi, attr):
                w_nodes |= set(g.nodes_of(st))
            for n in g.nodes:
                if n.kind == 'stmt' and n.stmt is not None:
                    for c in calls_in(n.stmt):
                        cn = call_name(c)
                        if cn.startswith('self.') and cn.count('.') == 1 and cn[5:] in methods and methods[cn[5:]] is not fi \
                                and writes_attr(methods[cn[5:]], attr, 1):
                            w_nodes.add(n.id)
            for st in att:
                s_nodes = g.nodes_of(st)
                # a store that cannot be written to in this state needs no such knowledge
                if s_nodes and all(any((_READ_ONLY_FACT.search(t) and not p) or (re.search(r'self\.mode (!=|is not) [\w.]*\bAPPEND$', t) and p)
                                       for t, p in ins.get(sn, ())) for sn in s_nodes):
                    continue
                ok = bool(s_nodes) and all(any(w in dom.get(sn, ()) or w in pdom.get(sn, ()) for w in w_nodes) for sn in s_nodes)
                sites.append((fi, st, ok))
        out.append((attr, fills, sites))
    return out


_KNOWLEDGE_CONTROL = '''
class S:
    def __init__(self):
        self._last = None
        self.index_group = None
    def _open(self):
        if '_index' in self.ds.groups:
            self.index_group = self.ds.groups['_index']
            LOAD
    def add(self, t):
        self._write(t)
        if self._last is None or t.flight_id > self._last:
            self._append_pair(t)
        else:
            self.index_stale = True
    def _reindex(self):
        p = sorted(enumerate(self._ids()), key=lambda x: x[1])
        self.index_group.variables['flight_id'][:] = [i for _, i in p]
        self.index_group.variables['trajectory_index'][:] = [j for j, _ in p]
        self._last = p[-1][1] if p else None
        self.index_stale = False
'''


def _knowledge_control(load: bool):
    src = _KNOWLEDGE_CONTROL.replace('LOAD', "self._last = self.index_group.variables['flight_id'][-1]" if load else 'pass')
    tree = ast.parse(src)
    for n in ast.walk(tree):
        for ch in ast.iter_child_nodes(n):
            if not isinstance(ch, (ast.expr_context, ast.operator, ast.unaryop, ast.cmpop, ast.boolop)):
                ch._parent = n
    return {f.name: _Fn(f) for f in tree.body[0].body}


def rule_table_knowledge(ctx, m):
    """R7: what `add` believes about the stored table is loaded wherever an existing table is attached."""
    cls = m.cls('TrajectoryStore')
    res = table_knowledge(ctx.prog, dict(cls.methods))
    n_sites = sum(len(_attached_existing_index(fi)) for fi in cls.methods.values())
    ctx.floor('C08-R7', n_sites, 1, 'places where an existing index group is attached to the store')
    for attr, fills, sites in res:
        ffi, fst = fills[0]
        for sfi, sst, ok in sites:
            ctx.ob('C08-R7', sfi, f'self.{attr} established where an existing index is attached: {norm(sst)[:50]}', ok,
                   f'self.{attr} is loaded together with the index group' if ok else
                   (f'add consults self.{attr} to decide whether the index table is still in order (instead of marking it stale), '
                    f'and self.{attr} is taken from the table ({ffi.node.name}, line {fst.lineno}); but where an existing table is '
                    f'attached to the store ({sfi.node.name}: `{norm(sst)[:60]}`) self.{attr} is not established: in a store reopened '
                    f'for appending it still has the constructor\'s value, so the first identifier added in the session is judged '
                    f'against nothing - the table can be left unsorted while index_stale stays False, and the bisecting look-up '
                    f'misses identifiers that were added'), line=sst.lineno)
    ctx.ob('C08-R7', (m.relpath, 'TrajectoryStore'), f'{len(res)} attribute(s) taken from the index table are consulted by add', True,
           ', '.join(f'self.{r[0]}' for r in res) or 'add decides nothing from the contents of the index table', nontrivial=False)
    bad = table_knowledge(None, _knowledge_control(load=False))
    good = table_knowledge(None, _knowledge_control(load=True))
    ctx.control('C08-R7', len(bad) == 1 and bad[0][0] == '_last' and [ok for _, _, ok in bad[0][2]] == [False]
                and len(good) == 1 and [ok for _, _, ok in good[0][2]] == [True],
                'embedded store whose add compares with a maximum that is never loaded on open is reported; the same store '
                'loading it next to the index group is accepted')


def rule_offsets(ctx, m, rule='C08-R3'):
    fi = m.func('TrajectoryStore._create_merged_store_index')
    loops = [n for n in walk_no_nested(fi.node) if isinstance(n, ast.For)]
    lp = next((l for l in loops if any(isinstance(s, ast.AugAssign) and norm(s.target) == 'index_offset' for s in l.body)), None)
    if lp is None:
        # pre-computed offsets idiom: [0, *accumulate(len(x) for x in S[:-1])]
        acc = [c for c in calls_in(fi.node) if call_name(c).split('.')[-1] == 'accumulate']
        if len(acc) == 1:
            c = acc[0]
            src = c.args[0]
            it = src.generators[0].iter if isinstance(src, (ast.GeneratorExp, ast.ListComp)) and len(src.generators) == 1 else None
            par = getattr(c, '_parent', None)
            starts_zero = False
            while par is not None and not isinstance(par, ast.stmt):
                if isinstance(par, ast.List) and par.elts and isinstance(par.elts[0], ast.Constant) and par.elts[0].value == 0:
                    starts_zero = True
                par = getattr(par, '_parent', None)
            if any(k.arg == 'initial' and isinstance(k.value, ast.Constant) and k.value.value == 0 for k in c.keywords):
                starts_zero = True
            if isinstance(it, ast.Subscript) and isinstance(it.slice, ast.Slice):
                sl = norm(it.slice)
                ok = starts_zero and sl == ':-1'
                ctx.ob(rule, fi, f'offsets = 0, then running sum of len(store) over stores[{sl}]', ok,
                       'offset of store k is the total length of the stores before it' if ok else
                       (f'the running sum is taken over stores[{sl}]: the offset of store k is not the number of '
                        'trajectories in the stores before it (it coincides only when all inputs have the same size), so '
                        'flight identifiers of later parts point at the wrong trajectory'), line=c.lineno)
                return
            if it is not None and starts_zero and any(k.arg == 'initial' for k in c.keywords) is False and isinstance(it, ast.Name):
                ctx.undecided(rule, fi, norm(c)[:80], 'accumulate over all stores with a leading 0: alignment with the stores cannot be decided')
        ctx.undecided(rule, fi, 'index_offset loop', 'no loop advancing index_offset and no recognised pre-computed offsets')
    # (which stores the loop visits, in which order: c09.rule_index_walk, by provenance)
    aug = [s for s in lp.body if isinstance(s, ast.AugAssign) and norm(s.target) == 'index_offset']
    use_idx = [i for i, s in enumerate(lp.body) if 'index_offset' in norm(s) and s not in aug]
    aug_idx = [i for i, s in enumerate(lp.body) if s in aug]
    # index_offset has two defs (init + aug) so single_def_value is None; find init
    inits = [st for t, st, how in stores_to(fi.node) if isinstance(t, ast.Name) and t.id == 'index_offset' and how == 'assign']
    ok = len(inits) == 1 and isinstance(inits[0].value, ast.Constant) and inits[0].value.value == 0 \
        and len(aug) == 1 and isinstance(aug[0].op, ast.Add) and norm(aug[0].value).startswith('len(') \
        and use_idx and max(use_idx) < aug_idx[0]
    ctx.ob(rule, fi, 'offset starts at 0 and advances by len(store) after use', ok,
           f'{norm(aug[0]) if aug else "?"} after the indexes were shifted' if ok else
           'offset arithmetic is off (initial value, increment, or advanced before use)',
           line=(aug[0].lineno if aug else lp.lineno))
    shifted = [s for s in lp.body if 'index_offset' in norm(s) and 'trajectory_index' in norm(s)]
    ok = bool(shifted) and any(isinstance(x, ast.BinOp) and isinstance(x.op, ast.Add)
                               and 'index_offset' in norm(x) for x in ast.walk(shifted[0]))
    ctx.ob(rule, fi, 'per-store indexes shifted by the offset', ok,
           norm(shifted[0])[:100] if ok else 'per-store trajectory indexes are not shifted by the running offset',
           line=(shifted[0].lineno if shifted else lp.lineno))
    # len(ts) must measure the store opened in this iteration
    opens = [s for s in lp.body if isinstance(s, ast.Assign) and isinstance(s.value, ast.Call)
             and call_name(s.value).endswith('TrajectoryStore.open')]
    ok = bool(opens) and bool(aug) and norm(aug[0].value) == f'len({norm(opens[0].targets[0])})'
    ctx.ob(rule, fi, 'offset advanced by the length of the store just indexed', ok,
           'same store object' if ok else 'the offset is advanced by a different store\'s length',
           line=(aug[0].lineno if aug else lp.lineno), nontrivial=False)


def rule_all_or_none(ctx, m):
    add = m.func('TrajectoryStore.add')
    # add: by interpretation over (identifier use of the store) x (the trajectory has no field / None / an identifier);
    # the spelling-bound rule below only when that is not decided
    from .c09 import add_identifier_table
    try:
        verdict, text, line = add_identifier_table(ctx.prog, m)
    except Exception as ex:
        if type(ex).__name__ == 'AnalysisError':
            raise
        verdict, text, line = None, f'internal: {type(ex).__name__}: {ex}', add.node.lineno
    if verdict is None:
        ctx.note(f'C08-R4: interpretation of add not decided ({text}); shape rule used')
        _all_or_none_add_shape(ctx, add)
    else:
        ctx.ob('C08-R4', add, 'mixed identifier use refused on add, first addition fixes identifier use', verdict, text, line=line)
    # merge: every mixed list of inputs is refused (truth table over short input sequences), and the merged index is
    # built exactly when every input is identified - shared with C09 (R2, R6)
    from .c09 import merge_builder, rule_mixed_refused
    refused = rule_mixed_refused(ctx, ctx.prog, m, 'C08-R4')
    merge_builder(ctx, ctx.prog, m, refused, 'C08-R3', 'C08-R4')


def _all_or_none_add_shape(ctx, add):
    found = None
    for n in walk_no_nested(add.node):
        if isinstance(n, ast.Raise):
            for t, pol, _ in guards_of(n):
                txt = norm(t)
                if 'has_flight_id != self.indexable' in txt or 'self.indexable != has_flight_id' in txt:
                    found = (n, txt)
    ok = found is not None and 'self.indexable is not None' in found[1]
    extra = []
    if found is not None:
        for t, pol, _ in guards_of(found[0]):
            for a, pp in conjuncts(t, pol):
                if norm(a) not in ('self.indexable is not None', 'has_flight_id != self.indexable', 'self.indexable != has_flight_id'):
                    extra.append(('' if pp else 'not ') + norm(a))
    ok = ok and not extra
    ctx.ob('C08-R4', add, 'mixed identifier use refused on add', ok,
           f'raise under `{found[1]}`' if ok else
           (f'the identifier check only runs under the extra condition {extra}: that is session-local state (the '
            'cache is empty at the start of an append session), so the first addition of a session can break '
            '"fully identified or not at all"' if extra else
            'add accepts a trajectory whose identifier use differs from the store'))
    hf = single_def_value(add.node, 'has_flight_id')
    ok = hf is not None and "hasattr(trajectory, 'flight_id')" in norm(hf) and 'is not None' in norm(hf)
    ctx.ob('C08-R4', add, f'has_flight_id = {norm(hf) if hf is not None else "?"}', ok,
           'identified = has the field and it is set' if ok else 'identifier presence test changed', nontrivial=False)
    # first add decides
    first = [st for t, st, how in stores_to(add.node) if norm(t) == 'self.indexable'
             and norm(getattr(st, 'value', None)) == 'has_flight_id']
    ok = bool(first) and any('self.indexable is None' in norm(t) and pol for t, pol, _ in guards_of(first[0]))
    ctx.ob('C08-R4', add, 'first addition fixes identifier use', ok,
           norm(first[0]) if ok else 'indexable is not fixed by the first addition only')


LINKED_ATOMS = {'self.nc_linked', 'self._file_creation_pending'}


def rule_linked(ctx, m, rule='C08-R5', entries=None):
    """Typestate of the file link.  A TrajectoryStore created without a base file is purely in memory until save():
    `self._nc` is empty and `self.index_group` is None.  Every operation that can be invoked on such a store must
    reach a dereference of those two (`self._nc[<fixed key>]`, `self.index_group.<attr>`) only on paths that have
    established that files are attached: a branch on `self.nc_linked` / `self._file_creation_pending`, a loop over
    `self._nc` / `self._nc_files`, or a call that attaches files.  Decided on the CFG of each method with the
    certifying edges removed, propagated over `self.<method>()` calls from the public entry points."""
    cls = m.cls('TrajectoryStore')
    meths = {k: v for k, v in cls.methods.items()}

    def is_static(fi):
        return any(norm(d) in ('staticmethod', 'classmethod') for d in fi.node.decorator_list)

    # methods that attach files (store into self._nc / append to self._nc_files), transitively over self-calls
    attach = set()
    changed = True
    while changed:
        changed = False
        for name, fi in meths.items():
            if name in attach:
                continue
            hit = False
            for x in walk_no_nested(fi.node):
                if isinstance(x, ast.Subscript) and isinstance(x.ctx, ast.Store) and norm(x.value) == 'self._nc':
                    hit = True
                if isinstance(x, ast.Call) and call_name(x) in ('self._nc_files.append', 'self._nc_files.extend'):
                    hit = True
                if isinstance(x, ast.Call) and call_name(x).startswith('self.') and call_name(x)[5:] in attach:
                    hit = True
            if hit:
                attach.add(name)
                changed = True

    def analyse(fi):
        g = CFG(fi.node)
        loopvars = set()
        keyed = {t.id for t, st, how in stores_to(fi.node) if isinstance(t, ast.Name) and getattr(st, 'value', None) is not None
                 and re.search(r'self\._nc(_files)?\b', norm(st.value))}
        for x in walk_no_nested(fi.node):
            if isinstance(x, (ast.For, ast.comprehension)) and (re.search(r'self\._nc(_files)?\b', norm(x.iter))
                                                                or (isinstance(x.iter, ast.Name) and x.iter.id in keyed)):
                loopvars |= {y.id for y in ast.walk(x.target) if isinstance(y, ast.Name)}

        def certifies(a, b, lab):
            n = g.nodes[a]
            s_ = n.stmt
            if n.kind == 'test' and isinstance(s_, (ast.If, ast.While)) and lab in ('t', 'f'):
                facts = conjuncts(s_.test, lab == 't')
                if any(norm(e) in LINKED_ATOMS and pol for e, pol in facts):
                    return True
                # an index group exists only inside an attached dataset
                if any((norm(e) in ('self.index_group is not None', 'self.index_group') and pol)
                       or (norm(e) == 'self.index_group is None' and not pol) for e, pol in facts):
                    return True
                if any(re.fullmatch(r'len\(self\._nc(_files)?\) (> 0|!= 0|>= 1)', norm(e)) and pol for e, pol in facts):
                    return True
            if n.kind == 'iter' and lab == 't' and re.search(r'self\._nc(_files)?\b', norm(s_.iter)):
                return True
            if n.kind == 'stmt' and lab != 'e' and s_ is not None:
                for c in calls_in(s_):
                    if call_name(c).startswith('self.') and call_name(c)[5:] in attach:
                        return True
                for x in ast.walk(s_):
                    if isinstance(x, ast.Subscript) and isinstance(x.ctx, ast.Store) and norm(x.value) == 'self._nc':
                        return True
                if isinstance(s_, ast.Assign) and any(norm(t) == 'self.index_group' for t in s_.targets) \
                        and not (isinstance(s_.value, ast.Constant) and s_.value.value is None):
                    return True
            return False
        reach = g._reach(edge_ok=lambda a, b, lab: not certifies(a, b, lab)) if hasattr(g, '_reach') else set()
        derefs, calls = [], []
        for nid in reach:
            n = g.nodes[nid]
            if n.stmt is None or n.kind in ('finally', 'dispatch', 'join', 'except'):
                continue
            heads = {'stmt': [n.stmt], 'test': [getattr(n.stmt, 'test', None)], 'iter': [getattr(n.stmt, 'iter', None)],
                     'with': [i.context_expr for i in getattr(n.stmt, 'items', [])]}.get(n.kind, [])
            for h in heads:
                if h is None:
                    continue
                for x in ast.walk(h):
                    if isinstance(x, (ast.FunctionDef, ast.Lambda)):
                        continue
                    if isinstance(x, ast.Subscript) and isinstance(x.ctx, ast.Load) and norm(x.value) == 'self._nc' \
                            and not (isinstance(x.slice, ast.Name) and x.slice.id in loopvars):
                        # `a or self._nc[k]` style short circuits are part of the statement: keep it simple, report
                        derefs.append((x, f'self._nc[{norm(x.slice)}]'))
                    if isinstance(x, ast.Attribute) and isinstance(x.ctx, ast.Load) and norm(x.value) == 'self.index_group':
                        derefs.append((x, f'self.index_group.{x.attr}'))
                    if isinstance(x, ast.Call) and call_name(x).startswith('self.') and call_name(x)[5:] in meths \
                            and call_name(x).count('.') == 1:
                        calls.append((x, call_name(x)[5:]))
        return derefs, calls

    if entries is None:
        entries = [k for k, v in meths.items() if not is_static(v) and (not k.startswith('_') or (k.startswith('__') and k != '__init__'))]
    summ = {}
    exposed = {}
    work = []
    for e in entries:
        if e in meths:
            exposed[e] = [e]
            work.append(e)
    while work:
        f = work.pop()
        if f not in summ:
            summ[f] = analyse(meths[f])
        for c, callee in summ[f][1]:
            if callee not in exposed and not is_static(meths[callee]):
                exposed[callee] = exposed[f] + [callee]
                work.append(callee)
    n = 0
    for f, path in sorted(exposed.items()):
        for x, what in summ[f][0]:
            n += 1
            ctx.ob(rule, meths[f], f'{what} reachable without an attached file (via {" → ".join(path)})', False,
                   (f'on a store created in memory (no base file) `{path[0]}` reaches `{what}` with no test that files are attached: '
                    + ('self._nc is empty there (KeyError)' if what.startswith('self._nc') else 'self.index_group is None there')
                    + ' — an identified in-memory store cannot be searched, synchronised or closed'), line=x.lineno,
                   path=path)
    ctx.ob(rule, (m.relpath, 'TrajectoryStore'), f'{len(exposed)} methods reachable from {len(entries)} entry points; '
           f'{n} unprotected dereference(s) of file-only state', n == 0,
           'every dereference of self._nc[…] / self.index_group is behind a test that files are attached' if n == 0 else 'see above',
           nontrivial=False)
    ctx.floor(rule, len(exposed), 10, 'methods examined for the file-link typestate')
    ctx.stats[f'{rule}.attaching_methods'] = sorted(attach)


# ---------------------------------------------------------------------------
# helper objects holding the state of a writer
# ---------------------------------------------------------------------------

_IMMUTABLE_CALLS = ('tuple', 'frozenset', 'int', 'float', 'str', 'bool', 'bytes', 'range')


def _immutable_literal(e) -> bool:
    if e is None or isinstance(e, ast.Constant):
        return True
    if isinstance(e, ast.UnaryOp):
        return _immutable_literal(e.operand)
    if isinstance(e, ast.Tuple):
        return all(_immutable_literal(x) for x in e.elts)
    if isinstance(e, ast.BinOp):
        return _immutable_literal(e.left) and _immutable_literal(e.right)
    return False


def _mutable_container(e) -> bool:
    """an expression that makes a container that can be grown in place (list / dict / set / deque / defaultdict ...)"""
    if isinstance(e, (ast.List, ast.Dict, ast.Set, ast.ListComp, ast.DictComp, ast.SetComp)):
        return True
    if isinstance(e, ast.Call):
        n = call_name(e).rsplit('.', 1)[-1]
        return n in ('list', 'dict', 'set', 'deque', 'defaultdict', 'OrderedDict', 'Counter', 'bytearray')
    return False


def _is_dataclass_decorator(d) -> bool:
    f = d.func if isinstance(d, ast.Call) else d
    return (dotted_name(f) or '').rsplit('.', 1)[-1] == 'dataclass'


def _class_layout(cnode: ast.ClassDef):
    """(data attributes of the class body {name: value | None} in order, plain methods {name: def}, is a dataclass);
    None when the class has anything else (bases, other decorators, properties, nested classes, __slots__ ...)"""
    if cnode.keywords or any(norm(b) != 'object' for b in cnode.bases):
        return None
    dc = False
    for d in cnode.decorator_list:
        if not _is_dataclass_decorator(d):
            return None
        if isinstance(d, ast.Call) and any(not isinstance(k.value, ast.Constant) or (k.arg == 'init' and not k.value.value)
                                           for k in d.keywords):
            return None
        dc = True
    data: dict = {}
    meths: dict = {}
    props: set = set()
    for i, s in enumerate(cnode.body):
        if isinstance(s, ast.Expr) and isinstance(s.value, ast.Constant) or isinstance(s, ast.Pass):
            continue
        if isinstance(s, ast.AnnAssign) and isinstance(s.target, ast.Name):
            if 'ClassVar' in norm(s.annotation):
                return None
            data[s.target.id] = s.value
        elif isinstance(s, ast.Assign) and len(s.targets) == 1 and isinstance(s.targets[0], ast.Name):
            if s.targets[0].id.startswith('__'):
                return None
            data[s.targets[0].id] = s.value
        elif isinstance(s, ast.FunctionDef):
            if len(s.decorator_list) == 1 and norm(s.decorator_list[0]) == 'property' and len(s.args.args) == 1 \
                    and s.name not in meths:
                props.add(s.name)                # a read-only property: a method called at every read
            elif s.decorator_list or s.name in meths or not s.args.args:
                return None
            if s.name in ('__new__', '__del__', '__getattr__', '__getattribute__', '__setattr__', '__delattr__',
                          '__init_subclass__', '__set_name__', '__class_getitem__'):
                return None                      # (other special methods act only on uses of the object as a whole,
                #                                   and such a use keeps the object as it is)
            meths[s.name] = s
        else:
            return None
    if dc and '__init__' in meths or set(data) & set(meths):
        return None
    for f in meths.values():
        if f.name in props:
            f._c08_property = True
    return data, meths, dc


def _instance_rebinds(meths: dict) -> set[str]:
    """attributes that the constructor binds on the instance, unconditionally, before anything else can touch them:
    `self.a = ...` as a top-level statement of __init__ / __post_init__"""
    out = set()
    for name in ('__init__', '__post_init__'):
        fn = meths.get(name)
        if fn is None:
            continue
        me = fn.args.args[0].arg
        for s in fn.body:
            tg = s.targets if isinstance(s, ast.Assign) else [s.target] if isinstance(s, ast.AnnAssign) and s.value is not None else []
            for t in tg:
                for x in (t.elts if isinstance(t, (ast.Tuple, ast.List)) else [t]):
                    if isinstance(x, ast.Attribute) and isinstance(x.value, ast.Name) and x.value.id == me:
                        out.add(x.attr)
    return out


def shared_state_mutations(cnode: ast.ClassDef):
    """[(attribute, the class-level statement, the mutating node, method)]: containers made once, in the class body,
    that methods grow in place through the instance (`self.a += [..]`, `self.a.append(..)`, `self.a[k] = ..`) and that
    no constructor replaces by a container of the instance: every instance of the class works on the same object, so
    what one of them collects is still there for the next.  (`self.n += 1` on a number rebinds the name on the
    instance and is not of this kind; a @dataclass refuses such defaults when the class is made.)"""
    if any(_is_dataclass_decorator(d) for d in cnode.decorator_list):
        return []
    shared = {}
    for s in cnode.body:
        if isinstance(s, ast.AnnAssign) and isinstance(s.target, ast.Name) and s.value is not None and _mutable_container(s.value):
            shared[s.target.id] = s
        elif isinstance(s, ast.Assign) and _mutable_container(s.value):
            for t in s.targets:
                if isinstance(t, ast.Name):
                    shared[t.id] = s
    meths = {s.name: s for s in cnode.body if isinstance(s, ast.FunctionDef) and s.args.args
             and not any(norm(d) in ('staticmethod', 'classmethod') for d in s.decorator_list)}
    for a in _instance_rebinds(meths):
        shared.pop(a, None)
    out = []
    for fn in meths.values():
        me = fn.args.args[0].arg

        def is_attr(e, a=None):
            return (isinstance(e, ast.Attribute) and isinstance(e.value, ast.Name) and e.value.id == me
                    and e.attr in shared and (a is None or e.attr == a))
        rebound = set()
        for x in ast.walk(fn):
            # a method that first gives the instance a container of its own (`self.a = []` / `self.a = self.a + [..]`)
            # is not decided here
            if isinstance(x, (ast.Assign, ast.AnnAssign)):
                for t in (x.targets if isinstance(x, ast.Assign) else [x.target]):
                    if is_attr(t):
                        rebound.add(t.attr)
        for x in ast.walk(fn):
            hit = None
            if isinstance(x, ast.AugAssign) and is_attr(x.target):
                hit = x.target.attr
            elif isinstance(x, ast.Call) and isinstance(x.func, ast.Attribute) and x.func.attr in MUTATING_METHODS \
                    and is_attr(x.func.value):
                hit = x.func.value.attr
            elif isinstance(x, ast.Subscript) and isinstance(x.ctx, (ast.Store, ast.Del)) and is_attr(x.value):
                hit = x.value.attr
            if hit is not None and hit not in rebound:
                out.append((hit, shared[hit], x, fn))
    return out


def dissolve_local_objects(prog, m, fi, only=None) -> list[str]:
    """A local of `fi` bound once to a new instance of a small class of the program - plain class or @dataclass, data
    attributes and plain methods only - that is used only through its attributes and methods and never leaves the
    function (not passed on, returned, stored or captured) is the set of its attributes kept in locals: the methods are
    spliced in at their calls (the engine's helper inliner, `prenorm._inline_call`, with the receiver for `self`), the
    constructor at the instantiation (class-level defaults first, then __init__ / the generated initialiser of a
    dataclass and __post_init__), and `v.attr` becomes the local `v__attr`.  The function node is rewritten in place
    and computes the same thing; nothing is done (and the function left as it was) when any use of the object is not
    of that kind, or when a class-level default is a container that the instance does not replace (the instances would
    share it: `shared_state_mutations`).  -> names of the dissolved locals"""
    import copy
    from ..prenorm import _eligible_helper, _inline_call, _set_lines, _sites
    done, tried = [], set()
    own = {k for k, c in m.classes.items() if c.module is m}
    if not any(isinstance(x, ast.Call) and isinstance(x.func, ast.Name) and x.func.id in own for x in ast.walk(fi.node)):
        return done
    for _round in range(4):
        fn = fi.node
        cand = None
        for t, st, how in stores_to(fn):
            if how not in ('assign', 'ann') or not isinstance(t, ast.Name) or not isinstance(st, (ast.Assign, ast.AnnAssign)):
                continue
            v = st.value
            if not isinstance(v, ast.Call) or (isinstance(st, ast.Assign) and (len(st.targets) != 1 or st.targets[0] is not t)):
                continue
            if t.id in tried or len(local_defs(fn, t.id)) != 1 or t.id in fi.params:
                continue
            ci = prog.resolve_class_expr(m, v.func)
            if ci is None or ci.module is not m or any(c.node is ci.node for c in ([fi.cls] if fi.cls else [])):
                continue
            if only is not None and ci.name not in only:
                continue
            lay = _class_layout(ci.node)
            if lay is None:
                continue
            cand = (t.id, st, ci, lay)
            break
        if cand is None:
            break
        name, st0, ci, (data, meths, dc) = cand
        tried.add(name)                                     # once, whatever comes of it
        work = _detached_copy(fn)
        if _dissolve_one(work, name, ci, data, meths, dc, st0.lineno, _eligible_helper, _inline_call, _set_lines, _sites):
            fn.body = work.body
            for n in ast.walk(fn):
                for ch in ast.iter_child_nodes(n):
                    if not isinstance(ch, (ast.expr_context, ast.operator, ast.unaryop, ast.cmpop, ast.boolop)):
                        ch._parent = n
            done.append(name)
    # an instance that is never given a name - `K(a).m(b)`, `x = K(a).m(b)`, `return K(a).attr`, `if K(a).m(): ...` - and
    # whose creation is the first thing its statement evaluates is `t = K(a)` followed by the statement on t (t a fresh
    # local): the same object, created at the same moment, unreachable after the statement either way
    failed = 0
    for _round in range(8):
        fn = fi.node
        work = _detached_copy(fn)
        sites = _anonymous_instances(prog, m, fi, work, only)
        if failed >= len(sites):
            break
        body, i, st, call, ci, (data, meths, dc) = sites[failed]
        used = {x.id for x in ast.walk(work) if isinstance(x, ast.Name)} | {a.arg for a in ast.walk(work) if isinstance(a, ast.arg)}
        stem = ci.name.strip('_').lower() or 'obj'
        name = next(n for n in ([stem] + [f'{stem}{k}' for k in range(2, 50)])
                    if n not in used and not any(u.startswith(n + '__') for u in used))
        holder = next(p_ for p_ in ast.walk(st) if isinstance(p_, ast.Attribute) and p_.value is call)
        holder.value = ast.copy_location(ast.Name(id=name, ctx=ast.Load()), call)
        bind = ast.copy_location(ast.Assign(targets=[ast.copy_location(ast.Name(id=name, ctx=ast.Store()), call)], value=call), st)
        prev_end = max((getattr(x, 'lineno', 0) for x in ast.walk(body[i - 1])), default=0) if i > 0 else 0
        lo = max(st.lineno - 1, prev_end if prev_end < st.lineno else st.lineno - 1)
        _set_lines([bind], lo, st.lineno)
        body.insert(i, bind)
        if _dissolve_one(work, name, ci, data, meths, dc, bind.lineno, _eligible_helper, _inline_call, _set_lines, _sites):
            fn.body = work.body
            for n in ast.walk(fn):
                for ch in ast.iter_child_nodes(n):
                    if not isinstance(ch, (ast.expr_context, ast.operator, ast.unaryop, ast.cmpop, ast.boolop)):
                        ch._parent = n
            done.append(name)
        else:
            failed += 1
    return done


def _first_evaluated(st: ast.stmt):
    """the chain of expressions of a simple statement (or of the test of an `if`) down to the one evaluated first: of a
    call its callee, of an attribute / subscript its object, of an operation its left operand, of a display its first
    element; an assignment evaluates its value before its targets"""
    if isinstance(st, (ast.Expr, ast.Return)):
        e = st.value
    elif isinstance(st, ast.Assign):
        e = st.value
    elif isinstance(st, (ast.AnnAssign, ast.AugAssign)) and isinstance(st.target, ast.Name):
        e = st.value
    elif isinstance(st, ast.If):
        e = st.test
    else:
        e = None
    out = []
    while e is not None:
        out.append(e)
        if isinstance(e, ast.Call):
            e = e.func
        elif isinstance(e, (ast.Attribute, ast.Subscript)):
            e = e.value
        elif isinstance(e, ast.BinOp):
            e = e.left
        elif isinstance(e, ast.Compare):
            e = e.left
        elif isinstance(e, ast.BoolOp):
            e = e.values[0]
        elif isinstance(e, ast.UnaryOp):
            e = e.operand
        elif isinstance(e, ast.IfExp):
            e = e.test
        elif isinstance(e, (ast.Tuple, ast.List, ast.Set)) and e.elts and not isinstance(e.elts[0], ast.Starred):
            e = e.elts[0]
        else:
            e = None
    return out


def _anonymous_instances(prog, m, fi, fn, only=None):
    """[(block, index, statement, call, class, layout)]: `K(..).<attr>` with K a small class of the module
    (`_class_layout`) whose creation is the first thing the statement evaluates, in statement order"""
    from ..temps import blocks
    out = []
    for _, _, body in blocks(fn):
        for i, st in enumerate(body):
            chain = _first_evaluated(st)
            for up, e in zip(chain, chain[1:]):
                if not (isinstance(e, ast.Call) and isinstance(e.func, ast.Name) and isinstance(up, ast.Attribute) and up.value is e):
                    continue
                if any(isinstance(a, ast.Starred) for a in e.args) or any(k.arg is None for k in e.keywords):
                    continue
                ci = prog.resolve_class_expr(m, e.func)
                if ci is None or ci.module is not m or (fi.cls is not None and fi.cls.node is ci.node):
                    continue
                if only is not None and ci.name not in only:
                    continue
                lay = _class_layout(ci.node)
                if lay is not None:
                    out.append((body, i, st, e, ci, lay))
                break
    out.sort(key=lambda s_: getattr(s_[2], 'lineno', 0) or 0)
    return out


def _detached_copy(node):
    """a deep copy of the node alone (the loader's parent links would take the whole module along)"""
    import copy
    up = getattr(node, '_parent', None)
    if up is not None:
        del node._parent
    try:
        return copy.deepcopy(node)
    finally:
        if up is not None:
            node._parent = up


def _dissolve_one(fn, name, ci, data, meths, dc, line0, _eligible_helper, _inline_call, _set_lines, _sites) -> bool:
    import copy
    rebinds = _instance_rebinds(meths)
    for a, val in data.items():
        if val is None or a in rebinds or _immutable_literal(val):
            continue
        if dc and isinstance(val, ast.Call) and call_name(val).rsplit('.', 1)[-1] == 'field':
            continue
        return False
    used = {x.id for x in ast.walk(fn) if isinstance(x, ast.Name)} | {a.arg for a in ast.walk(fn) if isinstance(a, ast.arg)}
    pre = f'{ci.name.strip("_")}__'
    helpers = {}
    props: set = set()
    kwdict: dict = {}
    for mname, f in meths.items():
        h = _detached_copy(f)
        if getattr(f, '_c08_property', False):
            h.decorator_list = []
            props.add(mname)
        if h.args.kwarg is not None and h.args.vararg is None:
            # `**extra` filled by explicit keywords is a dict display handed to an ordinary (keyword-only) parameter
            kwdict[mname] = h.args.kwarg.arg
            h.args.kwonlyargs.append(ast.arg(arg=h.args.kwarg.arg, annotation=None))
            h.args.kw_defaults.append(None)
            h.args.kwarg = None
        h.name = pre + mname.strip('_') + ('_' if mname.startswith('__') else '')
        me = h.args.args[0].arg
        hnames = {x.id for x in ast.walk(h) if isinstance(x, ast.Name)} | {a.arg for a in ast.walk(h) if isinstance(a, ast.arg)}
        if h.name in used or (name in hnames and name != me):
            return False
        # the receiver is the object: `self` is the caller's local; annotated attribute declarations are assignments
        for x in ast.walk(h):
            if isinstance(x, ast.Name) and x.id == me:
                x.id = name
        h.args.args[0].arg = name
        h.args.args[0].annotation = None

        class _Decl(ast.NodeTransformer):
            def visit_AnnAssign(self, n):
                if isinstance(n.target, ast.Attribute) and isinstance(n.target.value, ast.Name) and n.target.value.id == name:
                    if n.value is None:
                        return ast.copy_location(ast.Pass(), n)
                    return ast.copy_location(ast.Assign(targets=[n.target], value=n.value), n)
                return n
        _Decl().visit(h)
        if not _eligible_helper(h):
            return False
        helpers[mname] = h

    def find(body_owner):
        """the instantiation statement: (block, index, statement)"""
        from ..temps import blocks
        for _, _, body in blocks(body_owner):
            for i, s in enumerate(body):
                if isinstance(s, (ast.Assign, ast.AnnAssign)) and isinstance(s.value, ast.Call) \
                        and isinstance((s.targets[0] if isinstance(s, ast.Assign) else s.target), ast.Name) \
                        and (s.targets[0] if isinstance(s, ast.Assign) else s.target).id == name:
                    return body, i, s
        return None
    site = find(fn)
    if site is None:
        return False
    body, idx, st = site
    call = st.value
    if any(isinstance(a, ast.Starred) for a in call.args) or any(k.arg is None for k in call.keywords):
        return False
    # --- the constructor: class-level defaults, then the initialiser ---------------------------------------------------
    new = []
    recv = lambda: ast.Name(id=name, ctx=ast.Load())           # noqa: E731

    def set_attr(a, val):
        return ast.Assign(targets=[ast.Attribute(value=recv(), attr=a, ctx=ast.Store())], value=val)
    if dc:
        fields = [(a, v) for a, v in data.items()]
        if len(call.args) > len(fields):
            return False
        given = {fields[i][0]: a for i, a in enumerate(call.args)}
        for k in call.keywords:
            if k.arg in given or k.arg not in data:
                return False
            given[k.arg] = k.value
        # arguments are evaluated in call order, then the fields are set in declaration order
        tmp = {}
        for a, e in given.items():
            if isinstance(e, (ast.Constant, ast.Name)):
                tmp[a] = e
            else:
                tn = f'{name}__{a}__arg'
                new.append(ast.Assign(targets=[ast.Name(id=tn, ctx=ast.Store())], value=e))
                tmp[a] = ast.Name(id=tn, ctx=ast.Load())
        for a, val in fields:
            if a in given:
                new.append(set_attr(a, copy.deepcopy(tmp[a])))
            elif val is None:
                return False
            elif isinstance(val, ast.Call) and call_name(val).rsplit('.', 1)[-1] == 'field':
                fac, dflt = kwarg(val, 'default_factory'), kwarg(val, 'default')
                if fac is not None and isinstance(fac, (ast.Name, ast.Attribute)):
                    new.append(set_attr(a, ast.Call(func=copy.deepcopy(fac), args=[], keywords=[])))
                elif fac is not None and isinstance(fac, ast.Lambda) and not fac.args.args:
                    new.append(set_attr(a, copy.deepcopy(fac.body)))
                elif dflt is not None and _immutable_literal(dflt):
                    new.append(set_attr(a, copy.deepcopy(dflt)))
                else:
                    return False
            else:
                new.append(set_attr(a, copy.deepcopy(val)))
        if '__post_init__' in meths:
            new.append(ast.Expr(value=ast.Call(func=ast.Attribute(value=recv(), attr='__post_init__', ctx=ast.Load()),
                                               args=[], keywords=[])))
    else:
        for a, val in data.items():
            if val is not None and a not in rebinds:
                new.append(set_attr(a, copy.deepcopy(val)))
        if '__init__' in meths:
            new.append(ast.Expr(value=ast.Call(func=ast.Attribute(value=recv(), attr='__init__', ctx=ast.Load()),
                                               args=list(call.args), keywords=list(call.keywords))))
        elif call.args or call.keywords:
            return False
    if not new:
        new = [ast.Pass()]
    for s in new:
        ast.fix_missing_locations(s)
    prev_end = max((getattr(x, 'lineno', 0) for x in ast.walk(body[idx - 1])), default=0) if idx > 0 else 0
    lo = max(st.lineno - 1, prev_end if prev_end < st.lineno else st.lineno - 1)
    _set_lines(new, lo, st.lineno)
    body[idx:idx + 1] = new
    # --- the methods, at their calls ---------------------------------------------------------------------------------------
    if props:
        class _PropReads(ast.NodeTransformer):
            def visit_Attribute(self, n):
                self.generic_visit(n)
                if isinstance(n.value, ast.Name) and n.value.id == name and n.attr in props and isinstance(n.ctx, ast.Load):
                    return ast.copy_location(ast.Call(func=n, args=[], keywords=[]), n)
                return n
        _PropReads().visit(fn)
        for h in helpers.values():
            _PropReads().visit(h)
    # an accessor - no parameter but the receiver, body one `return E` with E free of scopes of its own and reading, besides
    # the receiver, only names the caller never binds - is E at the place of the call, wherever that is (also inside a
    # comprehension or a lambda of the caller, where the statement inliner does not go)
    stored_here = {x.id for x in ast.walk(fn) if isinstance(x, ast.Name) and not isinstance(x.ctx, ast.Load)} \
        | {a.arg for a in ast.walk(fn) if isinstance(a, ast.arg)}
    accessors = {}
    for mname, h in helpers.items():
        hb = [s_ for k_, s_ in enumerate(h.body) if not (k_ == 0 and isinstance(s_, ast.Expr) and isinstance(s_.value, ast.Constant)
                                                         and isinstance(s_.value.value, str))]
        a_ = h.args
        if len(hb) != 1 or not isinstance(hb[0], ast.Return) or hb[0].value is None or len(a_.args) != 1 or a_.posonlyargs \
                or a_.kwonlyargs or a_.vararg or a_.kwarg or mname in kwdict:
            continue
        E = hb[0].value
        if any(isinstance(x, (ast.Lambda, ast.ListComp, ast.SetComp, ast.DictComp, ast.GeneratorExp, ast.NamedExpr, ast.Yield,
                              ast.YieldFrom, ast.Await)) for x in ast.walk(E)):
            continue
        if any(isinstance(x, ast.Name) and x.id != name and (x.id in stored_here or not isinstance(x.ctx, ast.Load))
               for x in ast.walk(E)):
            continue
        accessors[mname] = E
    if accessors:
        class _Open(ast.NodeTransformer):
            def visit_Call(self, n):
                self.generic_visit(n)
                if isinstance(n.func, ast.Attribute) and isinstance(n.func.value, ast.Name) and n.func.value.id == name \
                        and n.func.attr in accessors and not n.args and not n.keywords:
                    e = copy.deepcopy(accessors[n.func.attr])
                    for x in ast.walk(e):
                        if isinstance(x, (ast.expr, ast.keyword)):
                            ast.copy_location(x, n)
                    return e
                return n
        for _ in range(6):              # accessors reading accessors
            before = ast.dump(fn)
            _Open().visit(fn)
            if ast.dump(fn) == before:
                break
        for h in helpers.values():
            for _ in range(6):
                before = ast.dump(h)
                _Open().visit(h)
                if ast.dump(h) == before:
                    break
    for _ in range(200):
        hit = None
        for x in ast.walk(fn):
            if isinstance(x, ast.Call) and isinstance(x.func, ast.Attribute) and isinstance(x.func.value, ast.Name) \
                    and x.func.value.id == name and x.func.attr in helpers:
                hit = x
                break
        if hit is None:
            break
        h = helpers[hit.func.attr]
        if hit.func.attr in kwdict:
            named = {a.arg for a in h.args.args + h.args.kwonlyargs} - {kwdict[hit.func.attr]}
            if any(k.arg is None for k in hit.keywords):
                return False
            extra = [k for k in hit.keywords if k.arg not in named]
            hit.keywords = [k for k in hit.keywords if k.arg in named] + [ast.keyword(
                arg=kwdict[hit.func.attr], value=ast.copy_location(ast.Dict(
                    keys=[ast.copy_location(ast.Constant(value=k.arg), hit) for k in extra], values=[k.value for k in extra]), hit))]
        hit.args = [ast.copy_location(recv(), hit)] + list(hit.args)
        hit.func = ast.copy_location(ast.Name(id=h.name, ctx=ast.Load()), hit)
        sites = [s for s in _sites(fn, h.name, None, None) if s[3] is hit]
        if len(sites) != 1:
            return False
        b_, i_, s_, c_, how, where = sites[0]
        if not _inline_call(fn, b_, i_, s_, c_, h, how, where):
            return False
    else:
        return False
    # --- what is left of the object: its attributes ------------------------------------------------------------------------
    attrs = set(data)
    for x in ast.walk(fn):
        if isinstance(x, ast.Attribute) and isinstance(x.value, ast.Name) and x.value.id == name:
            attrs.add(x.attr)
    if attrs & set(meths) or any(f'{name}__{a}' in used for a in attrs):
        return False
    parents = {}
    for p in ast.walk(fn):
        for c in ast.iter_child_nodes(p):
            parents[id(c)] = p
    for x in ast.walk(fn):
        if isinstance(x, ast.Name) and x.id == name:
            p = parents.get(id(x))
            if not (isinstance(p, ast.Attribute) and p.value is x):
                return False
            q = p
            while q is not None and q is not fn:
                q = parents.get(id(q))
                if isinstance(q, (ast.FunctionDef, ast.AsyncFunctionDef, ast.Lambda, ast.ClassDef)) and q is not fn:
                    return False
    # an attribute that is read must have been given a value by the constructor (else the read is an AttributeError
    # that locals would turn into something else)
    given_attrs = set()
    for x in ast.walk(fn):
        if isinstance(x, ast.Attribute) and isinstance(x.value, ast.Name) and x.value.id == name and isinstance(x.ctx, ast.Store):
            given_attrs.add(x.attr)
    if any(isinstance(x, ast.Attribute) and isinstance(x.value, ast.Name) and x.value.id == name
           and x.attr not in given_attrs for x in ast.walk(fn)):
        return False

    class _ToLocal(ast.NodeTransformer):
        def visit_Attribute(self, n):
            if isinstance(n.value, ast.Name) and n.value.id == name:
                return ast.copy_location(ast.Name(id=f'{name}__{n.attr}', ctx=n.ctx), n)
            self.generic_visit(n)
            return n
    _ToLocal().visit(fn)
    _drop_constructor_aliases(fn, name)
    return True


def _drop_constructor_aliases(fn, name) -> int:
    """`v__a = L` - L a plain local or parameter of the function, or a constant -, the only store into the attribute-local
    `v__a`, outside any loop, with L never stored afterwards (and never bound by a nested scope): `v__a` is L from there
    on, the uses read L and the statement goes.  (`K(slope=slope, ...)` dissolved gives back the caller's own names.)"""
    from ..temps import blocks
    pre = f'{name}__'
    n = 0
    for _ in range(40):
        parents = {id(c): p_ for p_ in ast.walk(fn) for c in ast.iter_child_nodes(p_)}

        def inside(x, kinds):
            q = parents.get(id(x))
            while q is not None and q is not fn:
                if isinstance(q, kinds):
                    return True
                q = parents.get(id(q))
            return False
        stores: dict = {}
        for x in ast.walk(fn):
            if isinstance(x, ast.Name) and not isinstance(x.ctx, ast.Load):
                stores.setdefault(x.id, []).append(x)
        nested_args = {a.arg for x in ast.walk(fn) if x is not fn and isinstance(x, (ast.Lambda, ast.FunctionDef, ast.AsyncFunctionDef))
                       for a in ast.walk(x.args) if isinstance(a, ast.arg)}
        declared = {g for x in ast.walk(fn) if isinstance(x, (ast.Global, ast.Nonlocal)) for g in x.names}
        hit = None
        for _, _, body in blocks(fn):
            for i, st in enumerate(body):
                if not (isinstance(st, ast.Assign) and len(st.targets) == 1 and isinstance(st.targets[0], ast.Name)
                        and st.targets[0].id.startswith(pre) and isinstance(st.value, (ast.Name, ast.Constant))):
                    continue
                A = st.targets[0].id
                if len(stores.get(A, [])) != 1 or inside(st, (ast.For, ast.AsyncFor, ast.While)):
                    continue
                if isinstance(st.value, ast.Name):
                    L = st.value.id
                    if L.startswith(pre) or L in nested_args or L in declared:
                        continue
                    if any((getattr(y, 'lineno', 0) or 0) >= st.lineno
                           or inside(y, (ast.ListComp, ast.SetComp, ast.DictComp, ast.GeneratorExp, ast.Lambda, ast.FunctionDef,
                                         ast.AsyncFunctionDef, ast.ClassDef)) for y in stores.get(L, []) if y is not st.targets[0]):
                        continue
                    if any(isinstance(y, ast.Delete) and any(isinstance(t, ast.Name) and t.id == L for t in y.targets)
                           for y in ast.walk(fn)):
                        continue
                elif not _immutable_literal(st.value):
                    continue
                hit = (body, i, A, st.value)
                break
            if hit:
                break
        if hit is None:
            break
        body, i, A, val = hit
        del body[i]
        if not body:
            body.append(ast.copy_location(ast.Pass(), val))

        class _Sub(ast.NodeTransformer):
            def visit_Name(self, x):
                if x.id == A and isinstance(x.ctx, ast.Load):
                    return ast.copy_location(copy.deepcopy(val), x)
                return x
        import copy
        _Sub().visit(fn)
        n += 1
    return n


def _reaches_index(prog, m, fi, depth: int = 0, seen=None):
    """what of the function's surroundings ends up in the index variables: {('attr', a)} for `self.a`, {('param', p)},
    over the statements of the function and - through the arguments it hands on - of the functions of the module it
    calls.  A backward slice on names (every binding of a name counts), not a proof; it only selects which state the
    shared-state rule looks at."""
    seen = seen if seen is not None else set()
    if id(fi.node) in seen or depth > 3:
        return set()
    seen = seen | {id(fi.node)}
    me = fi.params[0] if fi.cls is not None and fi.params and not any(
        norm(d) in ('staticmethod', 'classmethod') for d in fi.node.decorator_list) else None
    roots: list = []
    for vs in _index_writers(prog, fi).values():
        roots += [r.e for _, r in vs]
    for c in calls_in(fi.node):
        callee = _module_callee(prog, m, fi, c)
        if callee is None:
            continue
        sub = _reaches_index(prog, m, callee, depth + 1, seen)
        if not sub:
            continue
        bound = _bind_params(callee, c, Ref(c, fi))
        for kind, x in sub:
            if kind == 'param' and bound and x in bound:
                roots.append(bound[x].e)
            elif kind == 'attr' and me is not None and isinstance(c.func, ast.Attribute) and norm(c.func.value) == me \
                    and callee.cls is fi.cls:
                roots.append(ast.Attribute(value=ast.Name(id=me, ctx=ast.Load()), attr=x, ctx=ast.Load()))
    out, names, work = set(), set(), list(roots)
    while work:
        e = work.pop()
        for x in ast.walk(e):
            if isinstance(x, ast.Attribute) and isinstance(x.value, ast.Name) and x.value.id == me:
                out.add(('attr', x.attr))
            elif isinstance(x, ast.Name) and x.id not in names and x.id != me:
                names.add(x.id)
                if x.id in fi.params:
                    out.add(('param', x.id))
                for t, st, how in stores_to(fi.node):
                    if isinstance(t, ast.Name) and t.id == x.id:
                        v = getattr(st, 'iter', None) if how == 'for' else getattr(st, 'value', None)
                        if v is not None:
                            work.append(v)
                for y in ast.walk(fi.node):
                    if isinstance(y, ast.comprehension) and any(isinstance(z, ast.Name) and z.id == x.id for z in ast.walk(y.target)):
                        work.append(y.iter)
                    # grown in place: `x.append(e)` / `x.extend(e)`
                    if isinstance(y, ast.Call) and isinstance(y.func, ast.Attribute) and y.func.attr in MUTATING_METHODS \
                            and isinstance(y.func.value, ast.Name) and y.func.value.id == x.id:
                        work += list(y.args)
    return out


def _module_callee(prog, m, fi, c: ast.Call):
    """the function of the module a call goes to: a module-level function by name, a method of the own class through
    the receiver, `K.m(..)`"""
    f = c.func
    if isinstance(f, ast.Name):
        return m.functions.get(f.id)
    if isinstance(f, ast.Attribute) and isinstance(f.value, ast.Name):
        if fi.cls is not None and fi.params and f.value.id == fi.params[0]:
            return fi.cls.find_method(f.attr)
        k = m.classes.get(f.value.id)
        if k is not None:
            return k.find_method(f.attr)
    return None


_SHARED_CONTROL = '''
class B:
    ids: list = []
    n: int = 0
    def add_part(self, g):
        self.ids += list(g.variables['flight_id'][:])
        self.n += 1
class G:
    def __init__(self):
        self.ids = []
    ids: list = []
    def add_part(self, g):
        self.ids.extend(g.variables['flight_id'][:])
'''


def rule_call_local_state(ctx, m):
    """R8: the table a writer stores is made of what this call collected.  A class of the module whose methods put
    something of the instance into the index variables (directly, or through the functions they hand it to) keeps that
    state per instance: a container made once in the class body and grown in place through `self` is one object for
    every instance of the process, so the second table written also holds the entries of the first."""
    prog = ctx.prog
    ctl = ast.parse(_SHARED_CONTROL)
    got = {c.name: sorted({a for a, *_ in shared_state_mutations(c)}) for c in ctl.body}
    ctx.control('C08-R8', got == {'B': ['ids'], 'G': []}, 'class-level list grown through self / list of the instance')
    for cname, ci in m.classes.items():
        if ci.module is not m:
            continue
        muts = shared_state_mutations(ci.node)
        writes = any(_index_writers(prog, fi) for fi in ci.methods.values())
        if not muts and not writes:
            continue
        reach = set()
        for fi in ci.methods.values():
            reach |= {x for k, x in _reaches_index(prog, m, fi) if k == 'attr'}
        bad = [t for t in muts if t[0] in reach]
        # an instance may be given its own container from outside (a factory: `b = cls(); b.ids = []`): not decided here
        elsewhere = {t.attr for x in ast.walk(m.tree) if isinstance(x, (ast.Assign, ast.AnnAssign)) and getattr(x, 'value', None)
                     is not None for t in (x.targets if isinstance(x, ast.Assign) else [x.target])
                     for t in ([t] if not isinstance(t, (ast.Tuple, ast.List)) else t.elts) if isinstance(t, ast.Attribute)
                     and (norm(t.value) not in ('self', 'cls') or any(a is ci.node for a in ancestors(t)))}
        if any(t[0] in elsewhere for t in bad):
            ctx.note(f'C08-R8: {cname}: ' + ', '.join(sorted({t[0] for t in bad if t[0] in elsewhere}))
                     + ' also assigned through an object somewhere in the module; sharing not decided')
            bad = [t for t in bad if t[0] not in elsewhere]
        for attr, decl, node, fn in bad:
            fi = ci.methods.get(fn.name)
            ctx.ob('C08-R8', fi if fi is not None else (m.relpath, f'{cname}.{fn.name}'),
                   f'{norm(node)[:70]} (declared `{norm(decl)[:50]}` in the class body)', False,
                   f'`{attr}` is made once, when class {cname} is created, and {fn.name} grows it in place through the instance; no '
                   f'constructor gives the instance a container of its own, so every {cname} of the process shares it - and '
                   f'what it holds is stored into the index variables: the index written by a later call also contains the '
                   f'(position, identifier) entries collected by the earlier ones, so a look-up in that store finds identifiers '
                   f'that were never added to it (wrong trajectory or IndexError instead of None)',
                   line=getattr(node, 'lineno', fn.lineno))
        if not bad and reach:
            ctx.ob('C08-R8', (m.relpath, cname), f'state that reaches the index variables ({", ".join(sorted(reach))[:60]}) is per instance',
                   True, 'no container made in the class body is grown in place on the way into the index', line=ci.node.lineno)


# ---------------------------------------------------------------------------
# generator helpers consumed on the spot
# ---------------------------------------------------------------------------

def _own_scope(fn):
    """nodes of fn's own scope (nested functions / lambdas / classes not entered; comprehensions are)"""
    todo = list(fn.body)
    while todo:
        n = todo.pop()
        yield n
        if isinstance(n, (ast.FunctionDef, ast.AsyncFunctionDef, ast.ClassDef, ast.Lambda)):
            continue
        todo.extend(ast.iter_child_nodes(n))


def _plain_generator(fn) -> bool:
    """a generator whose run, when it is consumed to the end at once, is its body with every `yield v` standing for
    'v is the next element': only `yield v` statements (no value taken from a yield, no `yield from`), no `return`,
    no scope declarations, no nested definitions"""
    if not isinstance(fn, ast.FunctionDef):
        return False
    ys = 0
    for n in ast.walk(fn):
        if n is not fn and isinstance(n, (ast.FunctionDef, ast.AsyncFunctionDef, ast.ClassDef)):
            return False
    for n in _own_scope(fn):
        if isinstance(n, (ast.Return, ast.YieldFrom, ast.Global, ast.Nonlocal, ast.Await)):
            return False
        if isinstance(n, ast.Yield):
            p = getattr(n, '_parent', None)
            if not (isinstance(p, ast.Expr) and p.value is n):
                return False
            ys += 1
    # a yield inside a lambda / comprehension of the body would be another generator
    if sum(isinstance(n, ast.Yield) for n in ast.walk(fn)) != ys:
        return False
    return ys > 0


def open_consumed_generators(prog, m, fi) -> list[str]:
    """`T = list(G(args))` / `tuple(...)` / `sorted(G(args), ...)` with G a plain generator function of the module
    (`_plain_generator`) is the loop of G run at that place, collecting what it yields: the parameters bound to the
    arguments (in order), an empty list, the body of G with `yield v` as `<list>.append(v)`, then the statement on the
    list.  The generator is consumed to the end before anything else of the statement happens and nothing else can
    see it, so the function computes the same thing; locals of G that the caller also uses are renamed.  The function
    node is rewritten in place (the rules then read a writer whose loop was moved into a generator as the loop again).
    Nothing is done for any other use of a generator (consumed lazily, passed on, looped over with a body of its own).
    -> names of the generators opened"""
    import copy
    done = []
    for _round in range(4):
        fn = fi.node
        site = None
        for st in ast.walk(fn):
            if not isinstance(st, ast.Assign) or len(st.targets) != 1 or not isinstance(st.targets[0], ast.Name):
                continue
            v = st.value
            if not (isinstance(v, ast.Call) and isinstance(v.func, ast.Name) and v.func.id in ('list', 'tuple', 'sorted')
                    and len(v.args) == 1 and isinstance(v.args[0], ast.Call)
                    and all(k.arg is not None and isinstance(k.value, (ast.Lambda, ast.Constant)) for k in v.keywords)):
                continue
            if v.func.id != 'sorted' and v.keywords:
                continue
            scope = next((a for a in ancestors(st) if isinstance(a, (ast.FunctionDef, ast.AsyncFunctionDef, ast.Lambda, ast.ClassDef))),
                         None)
            if scope is not fn:
                continue
            c = v.args[0]
            callee = resolve_call(prog, fi, c)
            if callee is None or callee.module is not m or callee.node is fn or not _plain_generator(callee.node):
                continue
            decos = {norm(d) for d in callee.node.decorator_list}
            if decos - {'staticmethod'}:
                continue
            env = _bind_params(callee, c, Ref(c, fi))
            if env is None:
                continue
            a = callee.node.args
            names = [x.arg for x in a.posonlyargs + a.args]
            if callee.cls is not None and 'staticmethod' not in decos:
                # a method: the receiver must be the caller's own `self`
                if not (names and fi.params and names[0] == fi.params[0] and fi.cls is not None
                        and 'staticmethod' not in {norm(d) for d in fn.decorator_list}
                        and isinstance(c.func, ast.Attribute) and isinstance(c.func.value, ast.Name)
                        and c.func.value.id == names[0] and names[0] not in env):
                    continue
                recv, names = names[0], names[1:]
            else:
                recv = None
            # defaults of the parameters that were not given
            pos = a.posonlyargs + a.args
            dflt = {x.arg: d for x, d in zip(pos[len(pos) - len(a.defaults):], a.defaults)}
            dflt.update({x.arg: d for x, d in zip(a.kwonlyargs, a.kw_defaults) if d is not None})
            binds, ok = [], True
            for p_ in names + [x.arg for x in a.kwonlyargs]:
                if p_ in env:
                    binds.append((p_, env[p_].e))
                elif p_ in dflt and isinstance(dflt[p_], ast.Constant):
                    binds.append((p_, dflt[p_]))
                else:
                    ok = False
            # arguments are evaluated in the order written: keep it (positional first, then keywords, as in the call)
            order = [id(x) for x in list(c.args) + [k.value for k in c.keywords]]
            binds.sort(key=lambda b: order.index(id(b[1])) if id(b[1]) in order else len(order))
            if not ok or (recv is not None and any(isinstance(t, ast.Name) and t.id == recv for t, _, _ in stores_to(callee.node))):
                continue
            site = (st, v, c, callee, binds, recv)
            break
        if site is None:
            break
        st, v, c, callee, binds, recv = site
        parent = getattr(st, '_parent', None)
        block = next((b for f_ in ('body', 'orelse', 'finalbody') for b in [getattr(parent, f_, None)]
                      if isinstance(b, list) and any(x is st for x in b)), None)
        if block is None:
            break
        used = {x.id for x in ast.walk(fn) if isinstance(x, ast.Name)} | {x.arg for x in ast.walk(fn) if isinstance(x, ast.arg)}
        body = copy.deepcopy(callee.node.body)
        if body and isinstance(body[0], ast.Expr) and isinstance(body[0].value, ast.Constant) and isinstance(body[0].value.value, str):
            body = body[1:]
        holder = ast.Module(body=body, type_ignores=[])
        own = {x.id for x in ast.walk(holder) if isinstance(x, ast.Name) and isinstance(x.ctx, (ast.Store, ast.Del))}
        own |= {p_ for p_, _ in binds}
        ren = {}
        for n_ in sorted(own & used):
            k = 2
            while f'{n_}{k}' in used or f'{n_}{k}' in own:
                k += 1
            ren[n_] = f'{n_}{k}'
        acc = 'collected'
        k = 2
        while acc in used or acc in own or acc in ren.values():
            acc, k = f'collected{k}', k + 1
        for x in ast.walk(holder):
            if isinstance(x, ast.Name) and x.id in ren:
                x.id = ren[x.id]
        new = []
        for p_, e in binds:
            new.append(ast.copy_location(ast.Assign(targets=[ast.copy_location(ast.Name(id=ren.get(p_, p_), ctx=ast.Store()), c)],
                                                    value=e), st))
        new.append(ast.copy_location(ast.Assign(targets=[ast.copy_location(ast.Name(id=acc, ctx=ast.Store()), c)],
                                                value=ast.copy_location(ast.List(elts=[], ctx=ast.Load()), c)), st))

        class _Y(ast.NodeTransformer):
            def visit_Expr(self, node):
                if isinstance(node.value, ast.Yield):
                    y = node.value
                    val = y.value if y.value is not None else ast.copy_location(ast.Constant(value=None), y)
                    call = ast.copy_location(ast.Call(func=ast.copy_location(ast.Attribute(
                        value=ast.copy_location(ast.Name(id=acc, ctx=ast.Load()), y), attr='append', ctx=ast.Load()), y),
                        args=[val], keywords=[]), y)
                    return ast.copy_location(ast.Expr(value=call), node)
                return self.generic_visit(node)
        holder = _Y().visit(holder)
        new += holder.body
        got = ast.copy_location(ast.Name(id=acc, ctx=ast.Load()), c)
        if v.func.id == 'list':
            st.value = got
        else:
            v.args[0] = got
        i = next(j for j, x in enumerate(block) if x is st)
        block[i:i] = new
        ast.fix_missing_locations(fn)
        for n in ast.walk(fn):
            for ch in ast.iter_child_nodes(n):
                if not isinstance(ch, (ast.expr_context, ast.operator, ast.unaryop, ast.cmpop, ast.boolop)):
                    ch._parent = n
        done.append(callee.name)
    return done


def run(ctx):
    m = ctx.prog.module(STORE)
    rule_call_local_state(ctx, m)
    # helper objects that hold the state of a writer are that state in locals (the rules below read the functions so)
    for fi in list(m.functions.values()):
        if fi.module is m:
            dissolve_local_objects(ctx.prog, m, fi)
    # a writer whose loop moved into a generator that it consumes on the spot is that loop again
    for fi in list(m.functions.values()):
        if fi.module is m:
            open_consumed_generators(ctx.prog, m, fi)
    rule_stale(ctx, m)
    rule_fresh(ctx, m)
    rule_table_knowledge(ctx, m)
    # R2 decides the writers by interpretation and, failing that, by tracing values; a builder that walks its inputs in
    # another order than the one given is decided by neither (there is no table to compare with) - that is R3's
    # statement.  So an undecided R2 does not end the run before R3 has looked at the same builder: it stands (exit 2)
    # unless R3 establishes a violation, which is then the verdict.
    undecided_r2 = None
    try:
        rule_sorted(ctx, m)
    except Exception as ex:
        if type(ex).__name__ != 'AnalysisError' or 'UNDECIDED rule=C08-R2' not in str(ex):
            raise
        undecided_r2 = ex
    # R3: the merged index and the metadata agree on the order of the parts (provenance rules shared with C09)
    from .c09 import merge_metadata, rule_index_walk, rule_merged_index
    n0 = sum(1 for o in ctx.obligations if not o.ok)
    try:
        merge_metadata(ctx, ctx.prog, m, 'C08-R3')
        rule_index_walk(ctx, ctx.prog, m, 'C08-R3')
        rule_merged_index(ctx, ctx.prog, m, 'C08-R3')
    except Exception:
        if undecided_r2 is not None and sum(1 for o in ctx.obligations if not o.ok) == n0:
            raise undecided_r2
        raise
    if undecided_r2 is not None:
        raise undecided_r2
    rule_all_or_none(ctx, m)
    rule_linked(ctx, m)
    ctx.note('wrong-trajectory reads in append sessions caused by a stale size table are reported under C07-R1')
    ctx.assumptions += ['bisect_left / np.searchsorted(side="left") on an ascending array return the left-most slot of an equal key',
                        'netCDF4 variable slices return arrays in stored order']
