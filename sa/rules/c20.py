"""C20 — single-thread confinement of TrajectoryStore (lock discipline).

R1  every load and store of the owner record `active_in_thread` in executable
    code lies inside one `with <lock>:` whose lock object is created once at
    class or module level (threading.Lock/RLock); the deciding load and the
    store share the same `with` body, and nothing that can block or fail with
    the record half-updated (no call other than threading.get_ident) sits
    between them.
R2  who-may-write: only TrajectoryStore.__init__ stores the record, the value
    stored is the current thread's identity, and nothing resets it.
R3  the refusal: inside that critical section a `raise` is control-dependent on
    a comparison of the record with the current thread identity, and no
    statement of the constructor that performs a call precedes the critical
    section (so no file is touched before the check).
R4  (thorough) no subclass of TrajectoryStore defines __init__ without
    delegating to super().__init__, and no other class-level attribute named
    like the record shadows it.
"""

from __future__ import annotations

import ast

from ..astutil import ancestors, calls_in, call_name, guards_of, norm, walk_no_nested
from ..loader import dotted_name, enclosing_function

STORE = 'trajectories/store.py'
RECORD = 'active_in_thread'
LOCK_CTORS = {'threading.Lock', 'threading.RLock', 'Lock', 'RLock'}
IDENT_CALLS = {'threading.get_ident', 'get_ident', 'threading.get_native_id', 'get_native_id'}


def _record_accesses(prog, cls_name):
    """All Attribute nodes `.active_in_thread` in the program's src tree."""
    out = []
    for m in prog.src_modules():
        for n in ast.walk(m.tree):
            if isinstance(n, ast.Attribute) and n.attr == RECORD:
                out.append((m, n))
    return out


def _lock_decl(prog, m, cls, expr):
    """Return a description if expr names a lock created once at class/module
    level, else None."""
    d = dotted_name(expr)
    if d is None:
        return None
    parts = d.split('.')
    name = parts[-1]
    # class-level: TrajectoryStore._lock / cls._lock / self._lock / type(self)._lock
    if len(parts) >= 2 and parts[-2] in (cls.name, 'cls', 'self'):
        for c in cls.mro():
            v = c.class_assignments().get(name)
            if v is not None and isinstance(v, ast.Call) and call_name(v) in LOCK_CTORS:
                return f'class attribute {c.name}.{name} = {norm(v)}'
        return None
    if len(parts) == 1:
        v = m.constants.get(name)
        if v is not None and isinstance(v, ast.Call) and call_name(v) in LOCK_CTORS:
            return f'module global {name} = {norm(v)}'
    return None


def _enclosing_lock_with(prog, m, cls, node):
    for a in ancestors(node):
        if isinstance(a, (ast.FunctionDef, ast.AsyncFunctionDef)):
            break
        if isinstance(a, ast.With):
            for it in a.items:
                d = _lock_decl(prog, m, cls, it.context_expr)
                if d:
                    return a, d
    return None, None


def run(ctx):
    prog = ctx.prog
    m = prog.module(STORE)
    cls = m.cls('TrajectoryStore')
    init = cls.methods.get('__init__')
    if init is None:
        ctx.undecided('C20-R1', (m.relpath, 'TrajectoryStore'), '__init__', 'constructor not found')

    accesses = _record_accesses(prog, cls.name)
    exec_acc = [(mm, n) for mm, n in accesses if enclosing_function(n) is not None]
    ctx.floor('C20-R1', len(exec_acc), 2, 'accesses of the owner record')
    if RECORD not in cls.class_assignments():
        ctx.undecided('C20-R1', (m.relpath, 'TrajectoryStore'), RECORD,
                      'owner record is no longer a class-level attribute')

    withs = {}
    loads_in, stores_in = [], []
    for mm, n in exec_acc:
        fn = enclosing_function(n)
        fi = next((f for f in mm.functions.values() if f.node is fn), None)
        where = fi or (mm.relpath, fn.name)
        w, decl = _enclosing_lock_with(prog, mm, cls, n)
        is_store = isinstance(n.ctx, (ast.Store, ast.Del))
        kind = 'store' if is_store else 'load'
        ctx.ob('C20-R1', where, f'{kind} {norm(n)} under lock',
               w is not None,
               (f'inside `with` on {decl}' if w is not None else
                f'{kind} of the owner record outside any `with <class/module-level lock>`: '
                'two first constructors can interleave between the test and the set'),
               line=n.lineno)
        if w is not None:
            withs[id(w)] = w
            (stores_in if is_store else loads_in).append((w, n))
        # R2: who may write
        if is_store:
            ok_site = mm is m and fi is not None and fi.qualname == 'TrajectoryStore.__init__'
            ctx.ob('C20-R2', where, f'store {norm(n)} site', ok_site,
                   'only the constructor records the owner' if ok_site else
                   'the owner record is written outside TrajectoryStore.__init__ '
                   '(a reset or takeover lets another thread in)', line=n.lineno)
            st = n
            while not isinstance(st, ast.stmt):
                st = st._parent
            val = getattr(st, 'value', None)
            ok_val = isinstance(val, ast.Call) and call_name(val) in IDENT_CALLS
            ctx.ob('C20-R2', where, f'stored value {norm(val) if val is not None else "<del>"}',
                   ok_val,
                   'stores the current thread identity' if ok_val else
                   'value stored into the owner record is not the current thread identity',
                   line=n.lineno)

    # same critical section for the deciding load and the store
    store_withs = {id(w) for w, _ in stores_in}
    load_withs = {id(w) for w, _ in loads_in}
    for w, n in stores_in:
        ok = id(w) in load_withs
        ctx.ob('C20-R1', init, 'check and set in one critical section', ok,
               'the `is not None` test and the store share one `with` body' if ok else
               'the store is in a different critical section from the test', line=n.lineno)
    if not stores_in and not any(isinstance(n.ctx, ast.Store) for _, n in exec_acc):
        ctx.ob('C20-R2', init, 'owner record is recorded', False,
               'no store of the owner record in the constructor: nothing is ever refused',
               line=init.node.lineno)

    # nothing that can fail/yield between test and set except get_ident
    for w in withs.values():
        for c in calls_in(w):
            if any(c is it.context_expr for it in w.items):
                continue
            cn = call_name(c)
            inside_raise = any(isinstance(a, ast.Raise) for a in ancestors(c))
            ok = cn in IDENT_CALLS or inside_raise
            ctx.ob('C20-R1', init, f'call {cn} inside critical section', ok,
                   'thread identity / building the refusal' if ok else
                   'a call inside the check-and-set section can fail or release control '
                   'with the record half-updated', line=c.lineno, nontrivial=False)

    # R3 refusal shape
    found_refusal = False
    for w in withs.values():
        for n in walk_no_nested(w):
            if isinstance(n, ast.Raise):
                gs = guards_of(n, stop=w)
                txts = [norm(g) for g, _, _ in gs]
                cmp_ok = False
                for g, pol, _ in gs:
                    for x in ast.walk(g):
                        if isinstance(x, ast.Compare) and len(x.ops) == 1:
                            sides = [x.left, x.comparators[0]]
                            has_rec = any(isinstance(s, ast.Attribute) and s.attr == RECORD for s in sides)
                            has_id = any(isinstance(s, ast.Call) and call_name(s) in IDENT_CALLS for s in sides)
                            if has_rec and has_id:
                                neq = isinstance(x.ops[0], ast.NotEq)
                                eq = isinstance(x.ops[0], ast.Eq)
                                if (neq and pol) or (eq and not pol):
                                    cmp_ok = True
                found_refusal = found_refusal or cmp_ok
                ctx.ob('C20-R3', init, f'refusal raise under {txts}', cmp_ok,
                       'raise is taken exactly when the recorded owner differs from the current thread'
                       if cmp_ok else
                       'the refusal is not guarded by "recorded owner != current thread"',
                       line=n.lineno)
    if withs and not found_refusal:
        ctx.ob('C20-R3', init, 'refusal present', False,
               'no raise guarded by owner != current thread inside the critical section',
               line=init.node.lineno)

    # nothing with a call before the critical section in __init__
    body = init.node.body
    first_with_idx = None
    for i, s in enumerate(body):
        if any(s is w for w in withs.values()):
            first_with_idx = i
            break
    if first_with_idx is not None:
        pre = [s for s in body[:first_with_idx] if calls_in(s)]
        ctx.ob('C20-R3', init, 'thread check precedes every call of the constructor', not pre,
               'no call is made before the ownership check' if not pre else
               f'statement with a call precedes the ownership check: {norm(pre[0])[:80]}',
               line=(pre[0].lineno if pre else body[first_with_idx].lineno))
    elif withs:
        ctx.ob('C20-R3', init, 'critical section is a top-level statement of the constructor', False,
               'the ownership check is nested under a condition: some constructions skip it',
               line=init.node.lineno)
    else:
        # no lock at all: every path is reported above by R1; still check position
        pass

    # constructors of the same class: classmethods create/open/append go through cls(...)
    ctx.stats['record_accesses'] = len(exec_acc)
    ctx.assumptions += [
        'threading.Lock provides mutual exclusion; threading.get_ident is unique per live thread',
        'all TrajectoryStore instances are constructed through TrajectoryStore.__init__ '
        '(no __new__/copy/pickle bypass)',
    ]

    if ctx.tier == 'thorough':
        for c in prog.subclasses_of('TrajectoryStore'):
            if c is cls:
                continue
            ini = c.methods.get('__init__')
            if ini is None:
                ctx.ob('C20-R4', (c.file, c.name), 'inherits constructor', True, 'no own __init__')
                continue
            delegates = any(
                isinstance(x, ast.Call) and isinstance(x.func, ast.Attribute)
                and x.func.attr == '__init__' and isinstance(x.func.value, ast.Call)
                and call_name(x.func.value) == 'super' for x in ast.walk(ini.node))
            ctx.ob('C20-R4', ini, 'subclass constructor delegates to super().__init__', delegates,
                   'delegates' if delegates else 'subclass bypasses the ownership check')
        for cm in ('__new__', '__copy__', '__deepcopy__', '__reduce__', '__setstate__'):
            ok = cm not in cls.methods
            ctx.ob('C20-R4', (m.relpath, 'TrajectoryStore'), f'no {cm} bypass', ok,
                   'not defined' if ok else f'{cm} can construct a store without the ownership check')
