"""C20 — single-thread confinement of TrajectoryStore (lock discipline).

All rules are decided by one abstract interpretation over the CFGs of the
constructor and of every function that touches the owner record.  The abstract
value is the set of values the class-level record `active_in_thread` may hold
as last observed by the running thread: a subset of {none, me, other}.  A test
of the record against None / the current thread identity (directly, through a
local bound from it, by `==`/`!=`/`is None`/`in (None, me)`/truthiness, in
if / elif / guard clauses / `match` / conditional expressions, here or in a
resolved callee) narrows the set on the branch taken.  Acquiring or releasing
a lock forgets everything except "it is me" (only that fact is stable once the
lock is gone), so what was learnt outside a critical section, or in another
one, never justifies a store.  Names never matter: the record is the class
attribute, the lock is whatever resolves to a `threading.Lock/RLock` created
once at class level (of any class of the program) or module level, the
identity is whatever evaluates to `threading.get_ident()` (locals, resolved
helpers, parameters all callers bind to it).

State kept in helper objects (a guard class / dataclass / context manager):
* the record may be read and written by getattr / setattr with a name that is
  not a literal: the name is followed to the string it stands for (locals,
  module constants, parameters through every call site, `self.<x>` set once by
  the constructor of its class - through every place that constructs the
  class - a dataclass field, a class-body constant);
* a lock that belongs to an object (`self._lock = threading.Lock()` in the
  constructor, a dataclass `field(default_factory=threading.Lock)`, a lock
  handed to the constructor) excludes other threads only if the *object*
  exists once: every receiver through which the method holding the critical
  section is called (calls through the caller's own `self` stand for the
  caller's receivers) must be an object made by a constructor call in a class
  body or at module level and bound to a name nothing rebinds.  An object made
  in a method (`self.guard = Guard(...)`, a local, `Guard(...).claim()`, a
  lazily filled class attribute) has a private lock per constructor call: the
  store is then not under a lock (R1), and the message names the place that
  makes the object;
* `with <cm>():` on a @contextmanager generator is a critical section on the
  lock the generator holds at its `yield`; `with <object>:` on an object whose
  class has __enter__/__exit__ that acquire / release a lock is one on that
  lock (with the same once-only condition for the object);
* method calls on an object kept in a class attribute or a module global
  (`Owner.guard.claim(Owner)`) are resolved to the methods of its class.

What the interpretation follows besides direct tests:
* locals: a local bound once from the record is a snapshot (current inside the
  lock region that bound it, "a value the record held earlier" elsewhere); a
  local bound more than once is followed flow-sensitively - through the
  bindings that reach the use, and through two sets carried in the state: the
  locals that hold what the record holds now (`owner = record`,
  `record = owner = me`) and those that hold what it held earlier (after the
  lock was released / a callee ran);
* flags: `refused = owner != me` computed in one place and tested in another
  stands for the comparison it was bound to (read as a statement about the past
  when the lock has been released in between), provided its operands are not
  rebound in between;
* predicates: a resolved callee that returns a truth value (`if not
  self._claim(me): raise`) narrows by the states that reach its `return`
  statements with a true / a false value;
* a call that stands in an arm of a conditional expression, after a
  short-circuit operator, in a comprehension or in a lambda body may not run:
  its effect is joined with "did not happen".

R1  atomic claim: every store of the record happens while a lock is held that
    is created once at class or module level and never rebound (a `with`, or
    acquire()/try/finally-release()), and on every path to the store the same
    hold of that lock has observed the record to be None (or already this
    thread).  All such sections use one and the same lock object.
R2  who may write what: the value stored is the current thread's identity
    (never None, a thread name, a process id ...), the store goes to the class
    that owns the record (not to `self`, `type(self)` or a `cls` that can be a
    subclass, which would create a shadow and leave the record unset), and
    nothing deletes the record.  The receiver of the store is followed to what
    it stands for: a local bound once (`holder = type(self)`), a lazy import,
    a module-level alias, a parameter (`def claim(holder)`) through every
    resolved call site - the first site that does not pass the owning class is
    named in the message.  A tree in which nothing stores the record any more
    breaks R2 (nothing is ever refused).
R3  refusal on every path: no path through the constructor reaches a use of
    the file libraries, or the end of the constructor, unless the record has
    been established to be the current thread on that path (claimed under R1
    or observed equal).  Hence a thread that finds another owner cannot get
    past the guard, the guard cannot be skipped under a condition, swallowed
    by a handler, or run after files were touched.
R4  (thorough) no subclass of TrajectoryStore defines __init__ without
    delegating to super().__init__, and no __new__/__copy__/... bypass exists.
"""

from __future__ import annotations

import ast

from ..astutil import ancestors, assigned_names, call_name, calls_in, local_defs, norm, walk_no_nested
from ..cfg import CFG
from ..effects import fs_effect_of_call
from ..loader import FunctionInfo, dotted_name, enclosing_function
from ..resolve import callers_of, closure, resolve_call

STORE = 'trajectories/store.py'
RECORD = 'active_in_thread'
OWNER = 'TrajectoryStore'
LOCK_CTORS = {'threading.Lock', 'threading.RLock', '_thread.allocate_lock', '_thread.RLock'}
IDENT_CALLS = {'threading.get_ident', 'threading.get_native_id', '_thread.get_ident', '_thread.get_native_id'}
THREAD_CALLS = {'threading.current_thread', 'threading.currentThread'}
TOP = frozenset('NMO')
ME = frozenset('M')
NONE = frozenset()
NAMES = {'N': 'unset', 'M': 'this thread', 'O': 'another thread'}


def _show(S) -> str:
    return '{' + ', '.join(NAMES[x] for x in 'NMO' if x in S) + '}'


def _stable(S):
    return S if S == ME else TOP


def _stable2(S):
    """like _stable for a set that may be empty (no path)"""
    return S if (S == ME or not S) else TOP


def _fn_imports(fi) -> dict:
    """{local name: dotted target} of the import statements in the body of fi (a lazy import binds a local)"""
    cache = getattr(fi.node, '_c20_imports', None)
    if cache is not None:
        return cache
    out = {}
    m = fi.module
    parts = m.modname.split('.')
    base0 = parts if m.relpath.endswith('__init__.py') else parts[:-1]
    for s in walk_no_nested(fi.node):
        if isinstance(s, ast.Import):
            for a in s.names:
                out[a.asname or a.name.split('.')[0]] = a.name if a.asname else a.name.split('.')[0]
        elif isinstance(s, ast.ImportFrom):
            if s.level:
                base = base0[: len(base0) - (s.level - 1)]
                mod = '.'.join(base + ([s.module] if s.module else []))
            else:
                mod = s.module or ''
            for a in s.names:
                out[a.asname or a.name] = f'{mod}.{a.name}'
    try:
        fi.node._c20_imports = out
    except AttributeError:
        pass
    return out


def _qual(m, e: ast.AST, fi=None) -> str:
    """dotted name of a callee / attribute with the import aliases of the module (and of the function) resolved"""
    d = dotted_name(e)
    if not d:
        return ''
    head, _, rest = d.partition('.')
    tgt = (_fn_imports(fi).get(head) if fi is not None else None) or m.imports.get(head)
    if tgt:
        return tgt + ('.' + rest if rest else '')
    return d


def ast_decorators(k) -> list:
    return [ast.unparse(d) for d in k.node.decorator_list]


def _stmt_of(x: ast.AST):
    while x is not None and not isinstance(x, ast.stmt):
        x = getattr(x, '_parent', None)
    return x


def _maybe_skipped(x: ast.AST, root: ast.AST) -> bool:
    """evaluating `root` does not necessarily evaluate its sub-expression x"""
    child = x
    for a in ancestors(x):
        if isinstance(a, ast.IfExp) and child is not a.test:
            return True
        if isinstance(a, ast.BoolOp) and child is not a.values[0]:
            return True
        if isinstance(a, ast.Lambda):
            return True
        if isinstance(a, (ast.ListComp, ast.SetComp, ast.DictComp, ast.GeneratorExp)) \
                and child is not a.generators[0]:
            return True
        if isinstance(a, ast.comprehension) and child is not a.iter:
            return True
        if a is root or isinstance(a, ast.stmt):
            break
        child = a
    return False


class Analysis:
    def __init__(self, ctx):
        self.ctx = ctx
        self.prog = ctx.prog
        self.m = self.prog.module(STORE)
        self.cls = self.m.cls(OWNER)
        self.fn_of_node = {}
        for mm in self.prog.src_modules():
            for fi in mm.functions.values():
                self.fn_of_node.setdefault(id(fi.node), fi)
        self._holders = {}
        self._names = {}
        self._ctor_sites = {}
        self._resolved = {}
        self._callers = {}
        self._locks = {}
        self.ambiguous = []       # (function, expression text, values): an attribute name that may or may not be the record
        self.access_ids = set()
        self.accesses = self._find_accesses()
        self.record_fns = {}
        for mm, n, kind, fi in self.accesses:
            if fi is not None:
                self.record_fns[(fi.file, fi.qualname)] = fi
        self._relevant = {}
        self._touch = {}
        self._param = {}
        self._memo = {}
        self._env = None          # (function key, locals equal to the record now, locals equal to an earlier value)
        self._truth = {}          # analysis key -> (record when the function returns a true value, ... a false value)
        self._call_ctx = {}       # id(call) -> (callee, lock held, record before the call) at its last evaluation
        self._active = set()
        self._collected = set()
        self._cfg = {}
        self.store_obs = {}       # (file, qualname, line, text) -> dict
        self.lock_keys = {}       # lock key -> description (locks that guard a store)
        self.refusals = []        # (fi, line) raise nodes taken only when another thread owns
        self.analysed = set()

    # ---- the record ---------------------------------------------------------
    def _find_accesses(self):
        out = []
        for mm in self.prog.src_modules():
            for n in ast.walk(mm.tree):
                kind = None
                if isinstance(n, ast.Attribute) and n.attr == RECORD:
                    kind = 'store' if isinstance(n.ctx, ast.Store) else 'del' if isinstance(n.ctx, ast.Del) else 'load'
                elif isinstance(n, ast.Call) and isinstance(n.func, ast.Name) and len(n.args) >= 2 \
                        and n.func.id in ('setattr', 'delattr', 'getattr', 'hasattr'):
                    fn = enclosing_function(n)
                    fi = self.fn_of_node.get(id(fn)) if fn is not None else None
                    if self.names_record(fi if fi is not None else self._holder(mm), n.args[1]):
                        kind = {'setattr': 'store', 'delattr': 'del'}.get(n.func.id, 'load')
                if kind is None:
                    continue
                fn = enclosing_function(n)
                fi = self.fn_of_node.get(id(fn)) if fn is not None else None
                if fn is not None and fi is None:
                    fi = FunctionInfo(fn.name, fn, mm, None)
                self.access_ids.add(id(n))
                out.append((mm, n, kind, fi))
        return out

    def class_ref(self, fi, e) -> str | None:
        """how expression e denotes (a class carrying) the record: 'class' the owning class by name, 'sub' a subclass
        by name, 'cls' / 'self' / 'type' through the receiver, None for anything else"""
        return self.class_ref_deep(fi, e)[0]

    def class_ref_deep(self, fi, e, depth=0):
        """(kind as in class_ref, how the expression got its value - text for the message, function in which the
        final expression stands).  A name is followed to what it stands for: a local bound once (`holder = type(self)`,
        a lazy `from .store import TrajectoryStore`), a parameter through every resolved call site (the first site that
        does not pass the owning class decides), a module-level alias."""
        if depth > 5:
            return None, '', fi
        if isinstance(e, ast.Name):
            if e.id == 'self' and fi.cls is not None and fi.params[:1] == ['self']:
                return ('self' if fi.cls.is_subclass_of(OWNER) else None), '', fi
            if e.id == 'cls' and fi.cls is not None and fi.params[:1] == ['cls']:
                return ('cls' if fi.cls.is_subclass_of(OWNER) else None), '', fi
            a = fi.node.args
            ds = local_defs(fi.node, e.id)
            if e.id == '__class__' and fi.cls is not None and not ds:
                # the implicit cell of a method: the class the method is defined in, whatever the receiver is
                return ('class' if fi.cls is self.cls else 'sub' if fi.cls.is_subclass_of(OWNER) else None), '', fi
            if e.id in [x.arg for x in a.posonlyargs + a.args + a.kwonlyargs]:
                if ds:
                    return None, '', fi
                sites = self.param_args(fi, e.id)
                if not sites:
                    return None, '', fi
                for where, c, arg, caller in sites:
                    k, how, org = (None, '', caller) if arg is None else self.class_ref_deep(where, arg, depth + 1)
                    if k != 'class':
                        txt = norm(arg) if arg is not None else '<nothing>'
                        return k, (f', which the call at {caller.module.relpath}:{c.lineno} ({caller.qualname}) binds to '
                                   f'`{txt}`{how}'), org
                return 'class', '', fi
            if ds:
                if len(ds) == 1 and isinstance(ds[0], (ast.Assign, ast.AnnAssign)) and ds[0].value is not None \
                        and (isinstance(ds[0], ast.AnnAssign) or (len(ds[0].targets) == 1 and isinstance(ds[0].targets[0], ast.Name))):
                    k, how, org = self.class_ref_deep(fi, ds[0].value, depth + 1)
                    return k, f' (= `{norm(ds[0].value)}`{how})', org
                return None, '', fi
            tgt = _fn_imports(fi).get(e.id)
            if tgt:
                c = self.prog.resolve_dotted(tgt)
                if c is self.cls:
                    return 'class', '', fi
                if hasattr(c, 'is_subclass_of') and c.is_subclass_of(OWNER):
                    return 'sub', '', fi
                return None, '', fi
        if isinstance(e, ast.Attribute) and e.attr == '__class__':
            k, how, org = self.class_ref_deep(fi, e.value, depth + 1)
            if k == 'self':
                return 'type', how, org
        if isinstance(e, ast.Call) and isinstance(e.func, ast.Name) and e.func.id == 'type' and len(e.args) == 1 \
                and not e.keywords:
            k, how, org = self.class_ref_deep(fi, e.args[0], depth + 1)
            if k == 'self':
                return 'type', how, org
        if isinstance(e, (ast.Name, ast.Attribute)):
            c = self.prog.resolve_class_expr(fi.module, e)
            if c is self.cls:
                return 'class', '', fi
            if c is not None and c.is_subclass_of(OWNER):
                return 'sub', '', fi
            if isinstance(e, ast.Name) and c is None:
                r = self.prog.resolve_name(fi.module, e.id)
                if isinstance(r, tuple) and r[0] == 'const' and isinstance(r[1].constants[r[2]], (ast.Name, ast.Attribute)):
                    # a module-level alias `_Holder = TrajectoryStore` (bound once at import time)
                    v = r[1].constants[r[2]]
                    holder = FunctionInfo('<module>', ast.parse('def f(): pass').body[0], r[1], None)
                    k, how, org = self.class_ref_deep(holder, v, depth + 1)
                    if k is not None:
                        return k, f' (= `{norm(v)}`{how})', org
        return None, '', fi

    def param_args(self, fi, name):
        """[(function the expression stands in, call, argument expression | None, caller)]: what every resolved call
        site of fi passes for the parameter (its default, which stands in fi, when the site leaves it out)"""
        params = fi.params
        if name not in params:
            return []
        idx = params.index(name)
        implicit = 1 if fi.cls is not None and not any('staticmethod' in d for d in fi.decorators()) else 0
        out = []
        for caller, c in self.callers(fi):
            off = implicit if isinstance(c.func, ast.Attribute) or (isinstance(c.func, ast.Name) and fi.name == '__init__') else 0
            pos = idx - off
            if 0 <= pos < len(c.args) and not any(isinstance(a, ast.Starred) for a in c.args[:pos + 1]):
                arg = c.args[pos]
            else:
                arg = next((kw.value for kw in c.keywords if kw.arg == name), None)
            where = caller
            if arg is None:
                arg, where = self._default_of(fi, name), fi
            out.append((where, c, arg, caller))
        return out

    def record_read(self, fi, e) -> bool:
        if isinstance(e, ast.Attribute) and e.attr == RECORD and isinstance(e.ctx, ast.Load):
            return True
        if isinstance(e, ast.Call) and isinstance(e.func, ast.Name) and e.func.id == 'getattr' and len(e.args) >= 2 \
                and self.names_record(fi, e.args[1]):
            return True
        return False


    # ---- names given as strings, objects that carry state -------------------------------------------
    def _holder(self, mm):
        """a stand-in function for code at module / class level of mm"""
        h = self._holders.get(mm.relpath)
        if h is None:
            h = self._holders[mm.relpath] = FunctionInfo('<module>', ast.parse('def f(): pass').body[0], mm, None)
        return h

    def _fi_at(self, mm, n):
        fn = enclosing_function(n)
        fi = self.fn_of_node.get(id(fn)) if fn is not None else None
        return fi if fi is not None else self._holder(mm)

    def ctor_sites(self, G):
        """[(function the call stands in (a stand-in at class / module level), call)] for every call that constructs G"""
        if id(G) not in self._ctor_sites:
            out = []
            for mm in self.prog.src_modules():
                for n in ast.walk(mm.tree):
                    if isinstance(n, ast.Call) and isinstance(n.func, (ast.Name, ast.Attribute)) \
                            and (dotted_name(n.func) or '').split('.')[-1] in self._class_names(G, mm) \
                            and self.prog.resolve_class_expr(mm, n.func) is G:
                        out.append((self._fi_at(mm, n), n))
            self._ctor_sites[id(G)] = out
        return self._ctor_sites[id(G)]

    @staticmethod
    def _class_names(G, mm):
        names = {G.name.split('.')[-1]}
        for local, tgt in mm.imports.items():
            if tgt.split('.')[-1] == G.name.split('.')[-1]:
                names.add(local)
        return names

    def _ctor_arg(self, G, name, fi_site, c):
        """(function, expression) a construction site of G binds the constructor parameter / dataclass field `name`
        to; (None, None) when it cannot be told"""
        if any(isinstance(a, ast.Starred) for a in c.args) or any(kw.arg is None for kw in c.keywords):
            return None, None
        kw = next((k.value for k in c.keywords if k.arg == name), None)
        if kw is not None:
            return fi_site, kw
        ini = G.find_method('__init__')
        if ini is not None:
            params = ini.params
            if name not in params:
                return None, None
            pos = params.index(name) - 1
            if 0 <= pos < len(c.args):
                return fi_site, c.args[pos]
            d = self._default_of(ini, name)
            return (ini, d) if d is not None else (None, None)
        flds = list(G.all_fields())
        if name not in flds:
            return None, None
        pos = flds.index(name)
        if pos < len(c.args):
            return fi_site, c.args[pos]
        for k in G.mro():
            v = k.class_assignments().get(name)
            if v is not None:
                if isinstance(v, ast.Call) and (dotted_name(v.func) or '').split('.')[-1] == 'field':
                    d = next((x.value for x in v.keywords if x.arg == 'default'), None)
                    return (self._holder(k.module), d) if d is not None else (None, None)
                return self._holder(k.module), v
        return None, None

    def _self_stores(self, G, attr):
        """[(method, statement, value | None)] for every `self.<attr> = value` (or other binding of it) in the methods
        of G and of the classes it inherits from"""
        out = []
        for k in G.mro():
            for meth in k.methods.values():
                if not meth.params[:1]:
                    continue
                me = meth.params[0]
                for n in walk_no_nested(meth.node):
                    if isinstance(n, ast.Attribute) and n.attr == attr and isinstance(n.ctx, (ast.Store, ast.Del)) \
                            and isinstance(n.value, ast.Name) and n.value.id == me:
                        st = _stmt_of(n)
                        v = None
                        if isinstance(st, ast.Assign) and len(st.targets) == 1 and st.targets[0] is n:
                            v = st.value
                        elif isinstance(st, ast.AnnAssign) and st.target is n:
                            v = st.value
                        out.append((meth, st, v))
        return out

    def str_values(self, fi, e, depth=0):
        """the set of string constants e evaluates to, None when that cannot be told.  Followed: locals bound once,
        module constants, parameters through every resolved call site, `self.<x>` set once by the constructor of its
        class (through every place that constructs the class) or given in the class body"""
        if e is None or depth > 6:
            return None
        if isinstance(e, ast.Constant):
            return {e.value} if isinstance(e.value, str) else None
        if isinstance(e, ast.Name):
            a = fi.node.args
            if e.id in [x.arg for x in a.posonlyargs + a.args + a.kwonlyargs]:
                if local_defs(fi.node, e.id):
                    return None
                out = set()
                if fi.cls is not None and fi.name == '__init__':
                    sites = [self._ctor_arg(fi.cls, e.id, w, c) for w, c in self.ctor_sites(fi.cls)]
                else:
                    sites = [(w, arg) for w, _c, arg, _caller in self.param_args(fi, e.id)]
                if not sites:
                    return None
                for w, arg in sites:
                    v = self.str_values(w, arg, depth + 1) if w is not None else None
                    if v is None:
                        return None
                    out |= v
                return out
            ds = local_defs(fi.node, e.id)
            if ds:
                if len(ds) == 1 and isinstance(ds[0], (ast.Assign, ast.AnnAssign)) and ds[0].value is not None \
                        and (isinstance(ds[0], ast.AnnAssign) or (len(ds[0].targets) == 1 and isinstance(ds[0].targets[0], ast.Name))):
                    return self.str_values(fi, ds[0].value, depth + 1)
                return None
            r = self.prog.resolve_name(fi.module, e.id)
            if isinstance(r, tuple) and r[0] == 'const':
                return self.str_values(self._holder(r[1]), r[1].constants[r[2]], depth + 1)
            return None
        if isinstance(e, ast.Attribute):
            G = None
            if isinstance(e.value, ast.Name) and fi.cls is not None and fi.params[:1] == [e.value.id]:
                G = fi.cls
            elif isinstance(e.value, (ast.Name, ast.Attribute)):
                G = self.prog.resolve_class_expr(fi.module, e.value)
                if G is None:
                    io = self.instance_of(fi, e.value, depth + 1)
                    G = io[3] if io is not None else None
            if G is None:
                return None
            stores = self._self_stores(G, e.attr)
            if not stores:
                for k in G.mro():
                    ca = k.class_assignments()
                    if e.attr in ca:
                        v = ca[e.attr]
                        if v is not None and not (isinstance(v, ast.Call) and (dotted_name(v.func) or '').split('.')[-1] == 'field') \
                                and not any('dataclass' in d for d in ast_decorators(k)):
                            return self.str_values(self._holder(k.module), v, depth + 1)
                        break
                # a dataclass field: what the construction sites pass
                sites = self.ctor_sites(G)
                if not sites or e.attr not in G.all_fields() or G.find_method('__init__') is not None:
                    return None
                out = set()
                for w, c in sites:
                    w2, arg = self._ctor_arg(G, e.attr, w, c)
                    v = self.str_values(w2, arg, depth + 1) if w2 is not None else None
                    if v is None:
                        return None
                    out |= v
                return out
            if len(stores) == 1 and stores[0][0].name == '__init__' and stores[0][2] is not None:
                return self.str_values(stores[0][0], stores[0][2], depth + 1)
            return None
        return None

    def names_record(self, fi, e) -> bool:
        """the attribute name given by expression e (second argument of getattr / setattr / ...) is the record's"""
        if isinstance(e, ast.Constant):
            return e.value == RECORD
        k = id(e)
        if k not in self._names:
            self._names[k] = False
            vals = self.str_values(fi, e)
            self._names[k] = bool(vals) and RECORD in vals
            if vals and RECORD in vals and len(vals) > 1:
                self.ambiguous.append((fi, norm(e), sorted(vals), getattr(e, 'lineno', 0)))
        return self._names[k]

    def instance_of(self, fi, e, depth=0):
        """which object e denotes: ('once', key, description, class) for an object made by a constructor call that is
        evaluated exactly once - in a class body or at module level - and bound to a name nothing rebinds;
        ('many', reason, None, class) for one made at run time (for every instance, on every call);
        None when it cannot be told"""
        if depth > 4:
            return None
        m = fi.module
        if isinstance(e, ast.Call):
            G = self.prog.resolve_class_expr(m, e.func)
            if G is not None:
                return 'many', f'`{norm(e)[:70]}` makes a new {G.name} each time it is evaluated', None, G
            return None
        if isinstance(e, ast.Name):
            a = fi.node.args
            if e.id in [x.arg for x in a.posonlyargs + a.args + a.kwonlyargs]:
                return None
            ds = local_defs(fi.node, e.id)
            if ds:
                if len(ds) == 1 and isinstance(ds[0], (ast.Assign, ast.AnnAssign)) and ds[0].value is not None \
                        and (isinstance(ds[0], ast.AnnAssign) or (len(ds[0].targets) == 1 and isinstance(ds[0].targets[0], ast.Name))):
                    return self.instance_of(fi, ds[0].value, depth + 1)
                return None
            r = self.prog.resolve_name(m, e.id)
            if isinstance(r, tuple) and r[0] == 'const':
                v = r[1].constants[r[2]]
                G = self.prog.resolve_class_expr(r[1], v.func) if isinstance(v, ast.Call) else None
                if G is not None:
                    why = self._rebound(r[2], r[1])
                    if why:
                        return 'many', f'the module global {r[2]} is not bound once: {why}', None, G
                    return 'once', ('modobj', r[1].relpath, r[2]), \
                        f'{r[2]} = {norm(v)[:70]}, made once when {r[1].relpath} is imported', G
            return None
        if isinstance(e, ast.Attribute):
            ref, _how, org = self.class_ref_deep(fi, e.value)
            C = None
            if ref in ('cls', 'self', 'type'):
                C = org.cls
            elif ref in ('class',):
                C = self.cls
            else:
                b = e.value
                if isinstance(b, ast.Call) and isinstance(b.func, ast.Name) and b.func.id == 'type' and len(b.args) == 1:
                    b = b.args[0]
                if isinstance(b, ast.Attribute) and b.attr == '__class__':
                    b = b.value
                if isinstance(b, ast.Name) and b.id in ('self', 'cls') and fi.cls is not None and fi.params[:1] == [b.id]:
                    C = fi.cls
                elif isinstance(b, (ast.Name, ast.Attribute)):
                    C = self.prog.resolve_class_expr(m, b)
            if C is None:
                return None
            stores = self._self_stores(C, e.attr)
            for k in C.mro():
                ca = k.class_assignments()
                if e.attr in ca and ca[e.attr] is not None:
                    v = ca[e.attr]
                    G = self.prog.resolve_class_expr(k.module, v.func) if isinstance(v, ast.Call) else None
                    if G is None:
                        break
                    why = self._rebound(e.attr, owner=k)
                    if why:
                        return 'many', f'{k.name}.{e.attr} is not bound once: {why}', None, G
                    return 'once', ('clsobj', k.name, e.attr), \
                        f'{k.name}.{e.attr} = {norm(v)[:70]}, made once when the class is defined', G
            for meth, st, v in stores:
                G = self.prog.resolve_class_expr(meth.module, v.func) if isinstance(v, ast.Call) else None
                if G is not None:
                    return 'many', (f'`{norm(st)[:80]}` at {meth.module.relpath}:{st.lineno} ({meth.qualname}) makes a new '
                                    f'{G.name} for every {meth.cls.name if meth.cls is not None else "instance"}'), None, G
            # bound at run time through the class (`Owner.guard = Guard(...)` in a method: lazily, or again and again)
            for mm in self.prog.src_modules():
                for n in ast.walk(mm.tree):
                    if isinstance(n, ast.Attribute) and n.attr == e.attr and isinstance(n.ctx, ast.Store) \
                            and enclosing_function(n) is not None:
                        st = _stmt_of(n)
                        v = st.value if isinstance(st, (ast.Assign, ast.AnnAssign)) else None
                        w = self._fi_at(mm, n)
                        G = self.prog.resolve_class_expr(mm, v.func) if isinstance(v, ast.Call) else None
                        if G is not None and self._related_class(w, n.value, C) is not False:
                            return 'many', (f'`{norm(st)[:80]}` at {mm.relpath}:{st.lineno} ({w.qualname}) makes the {G.name} at '
                                            'run time, not once when the class is defined: two first constructor calls can '
                                            'each make (and lock) their own'), None, G
            return None
        return None

    def resolve(self, fi, c):
        """resolve_call, plus calls of methods of an object kept in a class attribute / module global
        (`Owner.guard.claim(...)`)"""
        k = id(c)
        if k in self._resolved:
            return self._resolved[k]
        r = resolve_call(self.prog, fi, c)
        self._resolved[k] = r
        if r is None and isinstance(c.func, ast.Attribute) and not isinstance(c.func.value, ast.Constant):
            io = self.instance_of(fi, c.func.value)
            if io is not None and io[3] is not None:
                r = self._resolved[k] = io[3].find_method(c.func.attr)
        return r

    def callers(self, target):
        """callers_of, plus the call sites only `resolve` understands"""
        k = (target.file, target.qualname)
        if k not in self._callers:
            out = list(callers_of(self.prog, target))
            seen = {id(c) for _f, c in out}
            for f in self.prog.all_functions():
                for c in calls_in(f.node):
                    if id(c) not in seen and isinstance(c.func, ast.Attribute) and c.func.attr == target.name \
                            and enclosing_function(c) is f.node and self.resolve(f, c) == target:
                        out.append((f, c))
                        seen.add(id(c))
            self._callers[k] = out
        return self._callers[k]

    def receivers_of(self, fi, seen=None):
        """[(caller, call, instance_of the receiver)] for every call of the method fi; a call through the caller's own
        `self` stands for the caller's receivers; the constructor's receiver is the object being made"""
        seen = set() if seen is None else seen
        seen.add((fi.file, fi.qualname))
        if fi.name in ('__init__', '__post_init__', '__new__'):
            return [(fi, None, ('many', f'{fi.qualname} runs on the object under construction: every constructor call '
                                        'has its own', None, fi.cls))]
        out = []
        for caller, c in self.callers(fi):
            if not isinstance(c.func, ast.Attribute):
                out.append((caller, c, None))
                continue
            b = c.func.value
            if isinstance(b, ast.Name) and caller.cls is not None and caller.params[:1] == [b.id] \
                    and not any('classmethod' in d or 'staticmethod' in d for d in caller.decorators()):
                if (caller.file, caller.qualname) not in seen:
                    out += self.receivers_of(caller, seen)
                continue
            out.append((caller, c, self.instance_of(caller, b)))
        return out

    def _instance_lock(self, fi, e, G, objs=None):
        """e = `<object>.<attr>` where <attr> is not bound in a class body: the lock an object of class G carries.  It
        excludes other threads only if it is made once per object (in the constructor, never rebound) and the object
        itself exists once: (key, description) / (None, reason) / None when <attr> is not such a lock"""
        attr = e.attr
        v = None
        stores = self._self_stores(G, attr)
        if stores:
            made = [(meth, st, val) for meth, st, val in stores if val is not None and self._is_lock_ctor(meth.module, val)]
            if not made and len(stores) == 1 and stores[0][0].name == '__init__' and isinstance(stores[0][2], ast.Name) \
                    and stores[0][2].id in stores[0][0].params and not local_defs(stores[0][0].node, stores[0][2].id):
                # the lock is handed to the constructor: what the construction sites pass
                sites = [self._ctor_arg(G, stores[0][2].id, w, c) for w, c in self.ctor_sites(G)]
                if sites and all(w is not None and self._is_lock_ctor(w.module, arg) for w, arg in sites):
                    made = [(stores[0][0], stores[0][1], sites[0][1])]   # made together with the object
                elif sites and all(w is not None for w, _a in sites):
                    res = {self.lock_of(w, arg, 1) for w, arg in sites}
                    if len(res) == 1:
                        return next(iter(res))
                    return None, f'`{norm(e)}` is not one fixed lock: the places that construct {G.name} pass different ones'
                else:
                    return None, f'?cannot tell which lock the places that construct {G.name} pass for `{norm(e)}`'
            if not made:
                return None
            if len(stores) > 1 or made[0][0].name not in ('__init__', '__post_init__'):
                meth, st, _ = next((x for x in stores if x[0].name not in ('__init__', '__post_init__')), stores[-1])
                return None, (f'the lock `{norm(e)}` is bound again at run time ({meth.module.relpath}:{st.lineno} in '
                              f'{meth.qualname}): two threads can hold different lock objects')
            v = made[0][2]
            where = f'{made[0][0].qualname}'
        else:
            for k in G.mro():
                cv = k.class_assignments().get(attr)
                if isinstance(cv, ast.Call) and (dotted_name(cv.func) or '').split('.')[-1] == 'field':
                    fac = next((x.value for x in cv.keywords if x.arg == 'default_factory'), None)
                    if fac is not None and _qual(k.module, fac) in LOCK_CTORS:
                        v, where = cv, f'dataclass {k.name}'
                    break
            if v is None:
                return None
        why = self._rebound(attr, owner=G)
        if why and stores:
            # the constructor's own store is the creation, anything else rebinds
            own = {(meth.module.relpath, st.lineno) for meth, st, _ in stores}
            if not any(why.startswith(f'{p}:{ln} ') for p, ln in own):
                return None, f'the lock {G.name}.{attr} is not created once per object: {why}'
        elif why:
            return None, f'the lock {G.name}.{attr} is not created once per object: {why}'
        if objs is not None:
            pass
        elif isinstance(e.value, ast.Name) and fi.cls is not None and fi.params[:1] == [e.value.id]:
            objs = self.receivers_of(fi)
        else:
            objs = [(fi, None, self.instance_of(fi, e.value))]
        if not objs:
            return None, f'?cannot tell which object\'s lock `{norm(e)}` is: no call of {fi.qualname} is resolved'
        keys = set()
        for caller, c, io in objs:
            if io is None:
                at = f'{caller.module.relpath}:{c.lineno} ({caller.qualname})' if c is not None else caller.qualname
                return None, f'?cannot tell which object\'s lock `{norm(e)}` is at {at}'
            if io[0] == 'many':
                recv = f'`{norm(c.func.value)}`, the receiver at {caller.module.relpath}:{c.lineno} ({caller.qualname})' \
                    if c is not None and isinstance(c.func, ast.Attribute) else 'its object'
                return None, (f'`{norm(e)}` ({G.name}.{attr} = {norm(v)[:50]}, made in {where}) is the private lock of '
                              f'{recv}; {io[1]}: each of them has its own lock, so no two constructor calls ever contend for '
                              'the same one and the lock excludes nobody')
            keys.add((io[1], io[2]))
        if len(keys) > 1:
            return None, (f'`{norm(e)}` is the lock of different objects at different call sites '
                          f'({"; ".join(sorted(d for _k, d in keys))}): they do not exclude each other')
        (key, desc), = keys
        return ('inst',) + tuple(key) + (attr,), f'{G.name}.{attr} = {norm(v)[:50]} (made in {where}) of the single object {desc}'

    # ---- the lock ------------------------------------------------------------
    def _is_lock_ctor(self, m, v) -> bool:
        return isinstance(v, ast.Call) and _qual(m, v.func) in LOCK_CTORS

    def _related_class(self, fi, base, owner):
        """does `base`, standing in fi, denote the class `owner`, a class below or above it, or an instance of one?
        True / False / None (cannot tell)"""
        if isinstance(base, ast.Call) and isinstance(base.func, ast.Name) and base.func.id == 'type' and len(base.args) == 1:
            base = base.args[0]
        if isinstance(base, ast.Attribute) and base.attr == '__class__':
            base = base.value
        if isinstance(base, ast.Name) and base.id in ('self', 'cls'):
            if fi is None or fi.cls is None:
                return None
            c = fi.cls
        elif isinstance(base, (ast.Name, ast.Attribute)):
            c = self.prog.resolve_class_expr(fi.module, base) if fi is not None else None
            if c is None:
                return None
        else:
            return None
        return any(x is owner for x in c.mro()) or any(x is c for x in owner.mro())

    def _rebound(self, name: str, module_level_in=None, owner=None) -> str | None:
        """a place where the lock `name` (a global of module_level_in, or a class attribute of `owner`) is bound again
        at run time"""
        for mm in self.prog.src_modules():
            for n in ast.walk(mm.tree):
                base = None
                if isinstance(n, ast.Attribute) and n.attr == name and isinstance(n.ctx, (ast.Store, ast.Del)):
                    base = n.value
                elif isinstance(n, ast.Call) and isinstance(n.func, ast.Name) and n.func.id in ('setattr', 'delattr') \
                        and len(n.args) >= 2 and isinstance(n.args[1], ast.Constant) and n.args[1].value == name:
                    base = n.args[0]
                if base is None:
                    continue
                if module_level_in is None:
                    # a class-level lock: only a store on the class, an instance or a subclass of it rebinds it; the same
                    # attribute name on an unrelated object is somebody else's
                    fn = enclosing_function(n)
                    fi = self.fn_of_node.get(id(fn)) if fn is not None else None
                    ctxfi = fi if fi is not None else FunctionInfo('<module>', ast.parse('def f(): pass').body[0], mm, None)
                    rel = self._related_class(ctxfi, base, owner if owner is not None else self.cls)
                    if rel is False:
                        continue   # (None: cannot tell whose attribute it is - counts as a rebinding)
                else:
                    # a module global: `mod.NAME = ...` rebinds it when `mod` is that module; the same attribute name on
                    # a class, another module or an instance is somebody else's; anything unresolved counts
                    q = _qual(mm, base)
                    r = self.prog.resolve_dotted(q) if q else None
                    if r is not None and r is not module_level_in:
                        continue
                    fn = enclosing_function(n)
                    fi = self.fn_of_node.get(id(fn)) if fn is not None else None
                    if r is None and isinstance(base, ast.Name) and base.id in ('self', 'cls') and fi is not None \
                            and fi.cls is not None:
                        continue
                return f'{mm.relpath}:{n.lineno} rebinds {norm(base)}.{name}'
            if module_level_in is not None and mm is module_level_in:
                for fi in mm.functions.values():
                    if any(isinstance(x, ast.Global) and name in x.names for x in walk_no_nested(fi.node)) \
                            and local_defs(fi.node, name):
                        return f'{mm.relpath}: {fi.qualname} rebinds the global {name}'
        return None

    def lock_of(self, fi, e, depth=0):
        """(key, description) when e denotes a lock object that is created exactly once at class or module level,
        else (None, reason)"""
        k = (fi.file, fi.qualname, ast.dump(e))
        if k not in self._locks:
            self._locks[k] = self._lock_of(fi, e, depth)
        return self._locks[k]

    def _lock_of(self, fi, e, depth):
        r = self._lock_of0(fi, e, depth)
        if r[0] is None and isinstance(e, (ast.Name, ast.Attribute, ast.Call)) and depth <= 3:
            cm = self._cm_object_lock(fi, e)
            if cm is not None:
                return cm
        return r

    def _cm_object_lock(self, fi, e):
        """`with <object>:` where the class of the object has __enter__ / __exit__ that take and release a lock: the
        lock they take (a class-level one, or the object's own - then the object must exist once)"""
        if isinstance(e, ast.Name) and fi.cls is not None and fi.params[:1] == [e.id] and fi.name != '__init__':
            G, objs = fi.cls, None
        else:
            io = self.instance_of(fi, e)
            if io is None or io[3] is None:
                return None
            G, objs = io[3], [(fi, None, io)]
        ent, ext = G.find_method('__enter__'), G.find_method('__exit__')
        if ent is None or ext is None or not ent.params:
            return None
        acq = [c for c in calls_in(ent.node) if isinstance(c.func, ast.Attribute) and c.func.attr in ('acquire', '__enter__')]
        rel = [c for c in calls_in(ext.node) if isinstance(c.func, ast.Attribute) and c.func.attr in ('release', '__exit__')]
        if len(acq) != 1 or len(rel) != 1 or norm(acq[0].func.value) != norm(rel[0].func.value) \
                or ent.params[0] != ext.params[0]:
            return None
        le = acq[0].func.value
        k = self.lock_of(ent, le, 1) if not (isinstance(le, ast.Attribute) and self._self_stores(G, le.attr)) else (None, '')
        if k[0] is not None:
            return k
        if isinstance(le, ast.Attribute) and isinstance(le.value, ast.Name) and le.value.id == ent.params[0]:
            r = self._instance_lock(ent, le, G, objs=objs if objs is not None else self.receivers_of(fi))
            if r is not None:
                return r
        return None

    def _lock_of0(self, fi, e, depth):
        if depth > 3:
            return None, 'not resolved'
        m = fi.module
        if isinstance(e, ast.Call):
            if self._is_lock_ctor(m, e):
                return None, f'`{norm(e)}` makes a new lock for every use: it excludes nobody'
            callee = self.resolve(fi, e)
            if callee is not None and any('contextmanager' in d for d in callee.decorators()):
                # a generator-based context manager: the block runs where the callee yields; it is a critical section
                # when every yield stands in one of the callee's own lock regions (all on the same lock)
                ys = [y for y in walk_no_nested(callee.node) if isinstance(y, (ast.Yield, ast.YieldFrom))]
                got = set()
                for y in ys:
                    sec = self.section_of(callee, _stmt_of(y))
                    got.add((sec[1], sec[2]) if sec else None)
                if ys and None not in got and len(got) == 1:
                    return next(iter(got))
                if ys and None in got:
                    _, nl = self.sections(callee)
                    why = next((d for _n, d in nl.values()), None)
                    for y in ys:
                        for a in ancestors(y):
                            if isinstance(a, (ast.With, ast.AsyncWith)) and why is None:
                                why = self.lock_of(callee, a.items[0].context_expr, depth + 1)[1]
                    return None, (f'the context manager `{norm(e)}` ({callee.qualname}) yields while no lock created once at '
                                  'class or module level is held' + (f': {why}' if why else ''))
                return None, f'?cannot tell what the context manager `{norm(e)}` holds while its block runs'
            if callee is not None:
                rets = [r for r in walk_no_nested(callee.node) if isinstance(r, ast.Return)]
                res = {self.lock_of(callee, r.value, depth + 1) for r in rets if r.value is not None}
                if len(res) == 1 and len(rets) == len([r for r in rets if r.value is not None]):
                    return next(iter(res))
                return None, f'`{norm(e)}` does not return one fixed lock'
            return None, f'`{norm(e)}` is not a lock created once at class or module level'
        if isinstance(e, ast.Name):
            a = fi.node.args
            if e.id not in [x.arg for x in a.posonlyargs + a.args + a.kwonlyargs]:
                ds = local_defs(fi.node, e.id)
                if len(ds) == 1 and isinstance(ds[0], (ast.Assign, ast.AnnAssign)) and ds[0].value is not None:
                    return self.lock_of(fi, ds[0].value, depth + 1)
                if ds:
                    return None, f'`{e.id}` is not a single fixed lock'
            r = self.prog.resolve_name(m, e.id)
            if isinstance(r, tuple) and r[0] == 'const':
                v = r[1].constants[r[2]]
                if self._is_lock_ctor(r[1], v):
                    why = self._rebound(r[2], r[1])
                    if why:
                        return None, f'the lock {r[2]} is not created once: {why}'
                    return ('mod', r[1].relpath, r[2]), f'module global {r[2]} = {norm(v)}'
                return None, f'module global {r[2]} = {norm(v)[:40]} is not a lock created at import time'
            return None, f'`{e.id}` is not a lock created once at class or module level'
        if isinstance(e, ast.Attribute):
            ref, _how, org = self.class_ref_deep(fi, e.value)
            owner = None
            if ref in ('cls', 'self', 'type'):
                owner = org.cls
            elif ref in ('class',):
                owner = self.cls
            else:
                # any class of the program can carry the lock (a guard class in a support module): by name, or
                # through self / cls / type(self) in one of its own methods
                b = e.value
                if isinstance(b, ast.Call) and isinstance(b.func, ast.Name) and b.func.id == 'type' and len(b.args) == 1:
                    b = b.args[0]
                if isinstance(b, ast.Attribute) and b.attr == '__class__':
                    b = b.value
                if isinstance(b, ast.Name) and b.id in ('self', 'cls') and fi.cls is not None and fi.params[:1] == [b.id]:
                    owner = fi.cls
                elif isinstance(b, (ast.Name, ast.Attribute)):
                    owner = self.prog.resolve_class_expr(m, b)
            if owner is not None:
                for c in owner.mro():
                    ca = c.class_assignments()
                    if e.attr in ca:
                        v = ca[e.attr]
                        if isinstance(v, ast.Call) and (dotted_name(v.func) or '').split('.')[-1] == 'field' \
                                and any(x.arg == 'default_factory' for x in v.keywords):
                            break   # a dataclass field made for every object: the lock of that object (below)
                        if v is not None and self._is_lock_ctor(c.module, v):
                            why = self._rebound(e.attr, owner=c)
                            if why:
                                return None, f'the lock {c.name}.{e.attr} is not created once: {why}'
                            return ('cls', c.name, e.attr), f'class attribute {c.name}.{e.attr} = {norm(v)}'
                        return None, (f'class attribute {c.name}.{e.attr} = {norm(v) if v is not None else "<unset>"} is not a '
                                      'lock created once when the class is defined (two first constructors can each make their own)')
                inst = self._instance_lock(fi, e, owner)
                if inst is not None:
                    return inst
                return None, f'`{norm(e)}` is not a class-level lock'
            q = _qual(m, e)
            r = self.prog.resolve_dotted(q) if q else None
            if isinstance(r, tuple) and r[0] == 'const' and self._is_lock_ctor(r[1], r[1].constants[r[2]]):
                why = self._rebound(r[2], r[1])
                if why:
                    return None, f'the lock {r[2]} is not created once: {why}'
                return ('mod', r[1].relpath, r[2]), f'module global {r[2]} = {norm(r[1].constants[r[2]])}'
        return None, f'`{norm(e)}` is not a lock created once at class or module level'

    def sections(self, fi):
        """{id(stmt): (stmt, key, description)} for the lock regions of fi: `with <lock>` and
        `<lock>.acquire(); try: ... finally: <lock>.release()`; plus the reasons of with-items that are no lock"""
        key = (fi.file, fi.qualname)
        if key in self._cfg and 'sections' in self._cfg[key]:
            return self._cfg[key]['sections'], self._cfg[key]['nolock']
        secs, nolock = {}, {}
        for n in walk_no_nested(fi.node):
            if isinstance(n, (ast.With, ast.AsyncWith)):
                for it in n.items:
                    k, d = self.lock_of(fi, it.context_expr)
                    if k is not None:
                        secs[id(n)] = (n, k, d)
                    elif any(id(x) in self.access_ids for s in n.body for x in ast.walk(s)):
                        nolock[id(n)] = (n, d)
            if isinstance(n, ast.Try) and n.finalbody:
                rel = [c for s in n.finalbody for c in calls_in(s)
                       if isinstance(c.func, ast.Attribute) and c.func.attr == 'release']
                par = getattr(n, '_parent', None)
                for c in rel:
                    k, d = self.lock_of(fi, c.func.value)
                    if k is None:
                        continue
                    for fld in ('body', 'orelse', 'finalbody'):
                        blk = getattr(par, fld, None)
                        if isinstance(blk, list) and n in blk:
                            i = blk.index(n)
                            prev = blk[i - 1] if i else None
                            if isinstance(prev, ast.Expr) and isinstance(prev.value, ast.Call) \
                                    and isinstance(prev.value.func, ast.Attribute) and prev.value.func.attr == 'acquire' \
                                    and self.lock_of(fi, prev.value.func.value)[0] == k:
                                secs[id(n)] = (n, k, d)
        self._cfg.setdefault(key, {})['sections'] = secs
        self._cfg[key]['nolock'] = nolock
        return secs, nolock

    def section_of(self, fi, stmt):
        """innermost lock region whose body holds stmt (the `with` line itself is evaluated outside its region)"""
        secs, _ = self.sections(fi)
        if isinstance(stmt, ast.Try) and id(stmt) in secs:
            return secs[id(stmt)]
        for a in ancestors(stmt):
            if isinstance(a, (ast.FunctionDef, ast.AsyncFunctionDef)):
                break
            if id(a) in secs:
                return secs[id(a)]
        return None

    # ---- symbolic values ------------------------------------------------------
    def param_sym(self, fi, name) -> str:
        """'M' when every resolved call site binds the parameter to the current thread identity"""
        k = (fi.file, fi.qualname, name)
        if k in self._param:
            return self._param[k]
        self._param[k] = 'U'
        sites = self.param_args(fi, name)
        syms = {self._closed_sym(where, arg, _stmt_of(c) if where is caller else None) if arg is not None else 'U'
                for where, c, arg, caller in sites}
        r = 'M' if sites and syms == {'M'} else 'U'
        self._param[k] = r
        return r

    def _closed_sym(self, fi, e, at=None):
        k, d = self.sym(fi, e, at=at)
        return self.param_sym(fi, d) if k == 'P' else k

    def reaching(self, fi, name, ds, at):
        """the definitions of the local `name` (ds, more than one) that can reach statement `at`"""
        ck = (fi.file, fi.qualname)
        memo = self._cfg.setdefault(ck, {}).setdefault('reach', {})
        if name not in memo:
            g = self._cfg[ck].get('g')
            if g is None:
                g = self._cfg[ck]['g'] = CFG(fi.node)
            ids = {id(d): d for d in ds}

            def tr(node, st):
                if node.stmt is not None and id(node.stmt) in ids and node.kind in ('stmt', 'test', 'iter', 'with', 'match'):
                    return frozenset([id(node.stmt)])
                return st
            ins, _ = g.forward(frozenset(['entry']), tr, lambda a, b: a | b)
            memo[name] = (g, ins, ids)
        g, ins, ids = memo[name]
        if set(ids) != {id(d) for d in ds}:
            return ds
        reach = set()
        for n in g.nodes_of(at):
            reach |= ins.get(n, frozenset())
        out = [ids[i] for i in reach if i != 'entry']
        return sorted(out, key=lambda d: (d.lineno, d.col_offset)) if out else ds

    @staticmethod
    def _default_of(fi, name):
        a = fi.node.args
        pos = a.posonlyargs + a.args
        for arg, d in zip(pos[len(pos) - len(a.defaults):], a.defaults):
            if arg.arg == name:
                return d
        for arg, d in zip(a.kwonlyargs, a.kw_defaults):
            if arg.arg == name:
                return d
        return None

    def sym(self, fi, e, depth=0, at=None):
        """('M' | 'N' | 'R' | 'U', binding statement of a snapshot or None).  R = the record's value as read by e.
        `at`: the statement at which e is evaluated (a local bound more than once is followed through the bindings
        that reach it)."""
        if e is None or depth > 6:
            return 'U', None
        if isinstance(e, ast.NamedExpr):
            return self.sym(fi, e.value, depth + 1, at)
        if isinstance(e, ast.Constant):
            return ('N', None) if e.value is None else ('C', None)
        if self.record_read(fi, e):
            return 'R', None
        if isinstance(e, ast.Attribute) and e.attr in ('ident', 'native_id') and isinstance(e.value, ast.Call) \
                and _qual(fi.module, e.value.func, fi) in THREAD_CALLS:
            return 'M', None
        if isinstance(e, ast.Call):
            if _qual(fi.module, e.func, fi) in IDENT_CALLS:
                return 'M', None
            callee = self.resolve(fi, e)
            if callee is not None and callee.name != '__init__':
                rets = [r for r in walk_no_nested(callee.node) if isinstance(r, ast.Return)]
                if rets and all(self.sym(callee, r.value, depth + 1)[0] == 'M' for r in rets):
                    return 'M', None
            return 'U', None
        if isinstance(e, ast.Name):
            a = fi.node.args
            if e.id in [x.arg for x in a.posonlyargs + a.args + a.kwonlyargs]:
                if not local_defs(fi.node, e.id):
                    return 'P', e.id   # a parameter: resolved through the call sites only when it matters
                return 'U', None
            ds = local_defs(fi.node, e.id)
            if at is not None and len(ds) > 1:
                ds = self.reaching(fi, e.id, ds, at)
            vals = []
            for d in ds:
                v = None
                if isinstance(d, ast.Assign) and any(isinstance(t, ast.Name) and t.id == e.id for t in d.targets):
                    v = d.value
                elif isinstance(d, ast.AnnAssign) and isinstance(d.target, ast.Name):
                    v = d.value
                elif not isinstance(d, (ast.Assign, ast.AnnAssign, ast.AugAssign, ast.For, ast.With)):
                    for x in ast.walk(d):
                        if isinstance(x, ast.NamedExpr) and x.target.id == e.id:
                            v = x.value
                if v is None:
                    return 'U', None
                vals.append((self.sym(fi, v, depth + 1, d)[0], d))
            if not vals:
                # a capture pattern of a `match` on the record: `case owner if owner != me`
                caps = [x for x in walk_no_nested(fi.node) if isinstance(x, ast.MatchAs) and x.name == e.id]
                if caps:
                    mts = set()
                    for cp in caps:
                        mc = getattr(cp, '_parent', None)
                        mt = getattr(mc, '_parent', None)
                        if cp.pattern is None and isinstance(mc, ast.match_case) and isinstance(mt, ast.Match) \
                                and self.sym(fi, mt.subject, depth + 1) == ('R', None):
                            mts.add(mt)
                        else:
                            return 'U', None
                    return ('R', next(iter(mts))) if len(mts) == 1 else ('U', None)
                r = self.prog.resolve_name(fi.module, e.id)
                if isinstance(r, tuple) and r[0] == 'const':
                    return self.sym(fi, r[1].constants[r[2]], depth + 1)[0], None
                return 'U', None
            kinds = {k for k, _ in vals}
            if len(kinds) == 1:
                k = next(iter(kinds))
                if k == 'R':
                    return ('R', vals[0][1]) if len(vals) == 1 else ('U', None)
                return k, None
            return 'U', None
        return 'U', None

    def not_identity(self, fi, e, depth=0) -> str | None:
        """a reason when e is certainly not the identity of the current thread"""
        if e is None or depth > 4:
            return None
        if isinstance(e, ast.Constant):
            return f'the constant {e.value!r}'
        if isinstance(e, ast.JoinedStr):
            return 'a string'
        for x in ast.walk(e):
            if isinstance(x, ast.Attribute) and x.attr in ('name', 'getName', 'daemon'):
                return 'a thread name (names are not unique)'
            if isinstance(x, ast.Call) and _qual(fi.module, x.func, fi) in ('os.getpid', 'os.getppid'):
                return 'a process id (shared by all threads)'
        if isinstance(e, ast.Name):
            ds = local_defs(fi.node, e.id)
            if len(ds) == 1 and isinstance(ds[0], (ast.Assign, ast.AnnAssign)) and ds[0].value is not None:
                return self.not_identity(fi, ds[0].value, depth + 1)
        return None

    # ---- narrowing --------------------------------------------------------------
    def _current(self, fi, e, at_stmt, stale=False):
        """kind of e for a test evaluated at at_stmt: 'R' only when it is the record as it is *now* (read in place,
        or a snapshot bound in the same lock region); `stale`: the test was evaluated earlier, in another region"""
        k, d = self.sym(fi, e, at=at_stmt)
        if k == 'P':
            return ('P', d)
        if k == 'U' and isinstance(e, ast.Name) and self._env is not None and self._env[0] == (fi.file, fi.qualname):
            # a local bound more than once: what the flow analysis knows about it at this point
            if e.id in self._env[1]:
                k = 'R'
            elif e.id in self._env[2]:
                return 'stale'
        if k == 'R' and stale:
            return 'stale'
        if k == 'R' and d is not None:
            sa, sb = self.section_of(fi, d), self.section_of(fi, at_stmt)
            if (sa[0] if sa else None) is not (sb[0] if sb else None):
                return 'stale'
        return k

    def _flag_def(self, fi, e: ast.Name, at):
        """(binding statement, expression) when the local e is a flag: bound (as far as `at` is concerned) by one plain
        assignment of a comparison / boolean combination / call whose operands still mean the same at `at`"""
        a = fi.node.args
        if e.id in [x.arg for x in a.posonlyargs + a.args + a.kwonlyargs]:
            return None
        ds = local_defs(fi.node, e.id)
        if len(ds) > 1 and at is not None:
            ds = self.reaching(fi, e.id, ds, at)
        if len(ds) != 1:
            return None
        d = ds[0]
        if isinstance(d, ast.Assign) and len(d.targets) == 1 and isinstance(d.targets[0], ast.Name):
            v = d.value
        elif isinstance(d, ast.AnnAssign) and isinstance(d.target, ast.Name) and d.value is not None:
            v = d.value
        else:
            return None
        if not isinstance(v, (ast.Compare, ast.BoolOp, ast.Call)) \
                and not (isinstance(v, ast.UnaryOp) and isinstance(v.op, ast.Not)):
            return None
        for x in ast.walk(v):
            if isinstance(x, ast.Name) and isinstance(x.ctx, ast.Load):
                xs = local_defs(fi.node, x.id)
                if len(xs) > 1:
                    r1 = {id(y) for y in self.reaching(fi, x.id, xs, d)}
                    r2 = {id(y) for y in self.reaching(fi, x.id, xs, at)} if at is not None else None
                    # the same bindings reach both places: without a loop around the flag's assignment no binding of
                    # the operand lies between the two
                    if r1 != r2 or any(isinstance(p, (ast.For, ast.AsyncFor, ast.While)) for p in ancestors(d)):
                        return None
        return d, v

    def refine(self, fi, e, truth, S, at, stale=False):
        if isinstance(e, ast.UnaryOp) and isinstance(e.op, ast.Not):
            return self.refine(fi, e.operand, not truth, S, at, stale)
        if isinstance(e, ast.NamedExpr):
            return self.refine(fi, e.value, truth, S, at, stale)
        if isinstance(e, ast.Call) and id(e) in self._call_ctx and not self.record_read(fi, e):
            # the truth of what a resolved callee returned: the record as it is on the callee's paths that return so
            callee, held, S_in = self._call_ctx[id(e)]
            t = self._truth.get((callee.file, callee.qualname, held, S_in))
            if t is not None:
                X = t[0] if truth else t[1]
                return S & (X if held and not stale else _stable2(X))
            return S
        if isinstance(e, ast.BoolOp):
            conj = isinstance(e.op, ast.And) == truth
            if conj:  # all operands have truth value `truth`
                for v in e.values:
                    S = self.refine(fi, v, truth, S, at, stale)
                return S
            out = frozenset()
            cur = S
            for v in e.values:  # first operand that decides; the earlier ones had the other value
                out |= self.refine(fi, v, truth, cur, at, stale)
                cur = self.refine(fi, v, not truth, cur, at, stale)
            return out
        if isinstance(e, ast.Compare) and len(e.ops) == 1:
            op = e.ops[0]
            a, b = e.left, e.comparators[0]
            ka, kb = self._current(fi, a, at, stale), self._current(fi, b, at, stale)
            if isinstance(op, (ast.In, ast.NotIn)) and ka == 'R' and isinstance(b, (ast.Tuple, ast.List, ast.Set)):
                ks = {self._current(fi, x, at, stale) for x in b.elts}
                ks = {self.param_sym(fi, x[1]) if isinstance(x, tuple) else x for x in ks}
                if ks <= {'N', 'M'}:
                    sel = frozenset(ks)
                    inside = isinstance(op, ast.In) == truth
                    return S & sel if inside else S - sel
                return S
            if kb in ('R', 'stale') and ka not in ('R', 'stale'):
                ka, kb = kb, ka
            if ka == 'stale':
                # a value the record held at some earlier time: only "it was this thread" survives (nobody else ever
                # stores this thread's identity, nothing resets the record)
                if isinstance(kb, tuple):
                    kb = self.param_sym(fi, kb[1])
                if kb == 'M' and isinstance(op, (ast.Eq, ast.NotEq)) and (isinstance(op, ast.Eq) == truth):
                    return S & ME
                return S
            if ka != 'R':
                return S
            if isinstance(kb, tuple):
                kb = self.param_sym(fi, kb[1])
            if kb == 'N' and isinstance(op, (ast.Is, ast.Eq, ast.IsNot, ast.NotEq)):
                eq = isinstance(op, (ast.Is, ast.Eq)) == truth
                return S & frozenset('N') if eq else S - frozenset('N')
            if kb == 'M' and isinstance(op, (ast.Eq, ast.NotEq)):
                eq = isinstance(op, ast.Eq) == truth
                return S & ME if eq else S - ME
            return S
        k = self._current(fi, e, at, stale)
        if k == 'R':  # truthiness: thread identities are non-zero integers
            return S - frozenset('N') if truth else S & frozenset('N')
        if isinstance(e, ast.Name) and k in ('U', 'C'):
            # a flag computed earlier (`refused = owner != me` under the lock, tested after it): the test it stands for,
            # read as a statement about the past when the lock has been released since
            fd = self._flag_def(fi, e, at)
            if fd is not None:
                d, v = fd
                sa, sb = self.section_of(fi, d), (self.section_of(fi, at) if at is not None else None)
                moved = (sa[0] if sa else None) is not (sb[0] if sb else None)
                return self.refine(fi, v, truth, S, at, stale or moved)
        return S

    def value_effect(self, fi, v, S, at):
        """storing v into the record when its possible values are S: (problem or None, new value set)"""
        if isinstance(v, ast.IfExp):
            p1, s1 = self.value_effect(fi, v.body, self.refine(fi, v.test, True, S, at), at)
            p2, s2 = self.value_effect(fi, v.orelse, self.refine(fi, v.test, False, S, at), at)
            return p1 or p2, s1 | s2
        if isinstance(v, ast.BoolOp) and isinstance(v.op, ast.Or) and len(v.values) == 2:
            p1, s1 = self.value_effect(fi, v.values[0], self.refine(fi, v.values[0], True, S, at), at)
            p2, s2 = self.value_effect(fi, v.values[1], self.refine(fi, v.values[0], False, S, at), at)
            return p1 or p2, s1 | s2
        k = self._current(fi, v, at)
        if isinstance(k, tuple):
            k = self.param_sym(fi, k[1])
        if k == 'R':
            return None, S
        if k == 'M':
            if not S:
                return None, S
            if S <= frozenset('NM'):
                return None, ME
            return 'overwrite', ME
        if k == 'N':
            return 'reset', frozenset('N')
        why = self.not_identity(fi, v)
        return ('notid:' + why) if why else 'unknown', TOP

    # ---- interprocedural plumbing ---------------------------------------------------
    def relevant(self, callee) -> bool:
        k = (callee.file, callee.qualname)
        if k not in self._relevant:
            self._relevant[k] = False
            self._relevant[k] = any((f.file, f.qualname) in self.record_fns for f in closure(self.prog, [callee]))
        return self._relevant[k]

    def touches_files(self, fi, c: ast.Call) -> str | None:
        """the call uses the file libraries (netCDF4 / open / file-system), directly or in its resolved closure"""
        def direct(mod, call):
            q = _qual(mod, call.func)
            if q.split('.')[0] in ('netCDF4', 'nc4', 'h5py', 'xarray') or q in ('open', 'io.open'):
                return q
            return fs_effect_of_call(call)
        d = direct(fi.module, c)
        if d:
            return d
        callee = self.resolve(fi, c)
        if callee is None:
            return None
        k = (callee.file, callee.qualname)
        if k not in self._touch:
            self._touch[k] = None
            for f in closure(self.prog, [callee]):
                for c2 in calls_in(f.node):
                    d = direct(f.module, c2)
                    if d:
                        self._touch[k] = f'{f.qualname}: {d}'
                        break
                if self._touch[k]:
                    break
        return self._touch[k]

    def record_targets(self, fi, stmt):
        """[(reference kind, value expr or None for delete, text, receiver expr)] for every write of the record by a
        simple stmt"""
        out = []
        if isinstance(stmt, ast.Assign):
            for t in stmt.targets:
                elts = t.elts if isinstance(t, (ast.Tuple, ast.List)) else [t]
                for i, x in enumerate(elts):
                    if isinstance(x, ast.Attribute) and x.attr == RECORD:
                        v = stmt.value
                        if isinstance(t, (ast.Tuple, ast.List)):
                            v = v.elts[i] if isinstance(v, (ast.Tuple, ast.List)) and len(v.elts) == len(elts) else ast.Name(id='<unpacked>')
                        out.append((self.class_ref(fi, x.value), v, norm(x), x.value))
        elif isinstance(stmt, ast.AnnAssign) and stmt.value is not None:
            x = stmt.target
            if isinstance(x, ast.Attribute) and x.attr == RECORD:
                out.append((self.class_ref(fi, x.value), stmt.value, norm(x), x.value))
        elif isinstance(stmt, ast.AugAssign):
            x = stmt.target
            if isinstance(x, ast.Attribute) and x.attr == RECORD:
                out.append((self.class_ref(fi, x.value), ast.Name(id='<augmented>'), norm(x), x.value))
        elif isinstance(stmt, ast.Delete):
            for x in stmt.targets:
                if isinstance(x, ast.Attribute) and x.attr == RECORD:
                    out.append((self.class_ref(fi, x.value), None, norm(x), x.value))
        if not isinstance(stmt, (ast.If, ast.While, ast.For, ast.With, ast.Try, ast.Match)):
            for c in calls_in(stmt):
                if isinstance(c.func, ast.Name) and c.func.id in ('setattr', 'delattr') and len(c.args) >= 2 \
                        and self.names_record(fi, c.args[1]):
                    v = c.args[2] if c.func.id == 'setattr' and len(c.args) > 2 else None
                    out.append((self.class_ref(fi, c.args[0]), v, norm(c)[:60], c.args[0]))
        return out

    # ---- the abstract interpretation ------------------------------------------------------
    def analyse(self, fi, inherited: bool, S0, collect: bool):
        """possible values of the record when fi returns normally, entered with S0 (inherited: a caller holds the lock)"""
        key = (fi.file, fi.qualname, inherited, S0)
        if key in self._memo and (not collect or key in self._collected):
            return self._memo[key]
        if key in self._active:
            return S0
        self._active.add(key)
        try:
            return self._analyse(fi, inherited, S0, collect, key)
        finally:
            self._active.discard(key)

    def _analyse(self, fi, inherited, S0, collect, key):
        ck = (fi.file, fi.qualname)
        g = self._cfg.setdefault(ck, {}).get('g')
        if g is None:
            g = self._cfg[ck]['g'] = CFG(fi.node)
        base = ('h',) if inherited else None

        def want(node):
            if node.stmt is None:
                return base
            st = node.stmt
            if node.kind in ('except', 'case'):
                st = getattr(st, '_parent', st)
            sec = self.section_of(fi, st) if not (node.kind == 'with') else self._outer(fi, st)
            return ('w', id(sec[0])) if sec else base

        def sync(node, st):
            tag, S, EQ, PAST = st
            w = want(node)
            if tag != w:
                # what a local was seen to share with the record is, from here on, something the record held earlier
                return (w, _stable(S), NONE, PAST | EQ)
            return st

        def use_env(EQ, PAST):
            self._env = (ck, EQ, PAST)

        def heads(node):
            s = node.stmt
            if node.kind == 'stmt':
                return [s]
            if node.kind == 'test':
                return [s.test]
            if node.kind == 'iter':
                return [s.iter]
            if node.kind == 'with':
                return [i.context_expr for i in s.items]
            if node.kind == 'match':
                return [s.subject]
            if node.kind == 'case':
                return [s.guard] if s.guard is not None else []
            return []

        def transfer(node, st, emit=False):
            tag, S, EQ, PAST = sync(node, st)
            if node.stmt is None or node.kind in ('finally', 'dispatch', 'join', 'except'):
                return (tag, S, EQ, PAST)
            held = tag is not None
            for h in heads(node):
                if h is None:
                    continue
                for c in calls_in(h):
                    callee = self.resolve(fi, c)
                    if callee is not None and self.relevant(callee) and not self.record_read(fi, c):
                        S_in = S if held else _stable(S)
                        S2 = self.analyse(callee, held, S_in, emit)
                        S2 = S2 if held else _stable(S2)
                        self._call_ctx[id(c)] = (callee, held, S_in)
                        # a call in an arm of a conditional expression, after a short-circuit operator, in a
                        # comprehension or in a lambda body may not run at all: what it establishes holds on one
                        # of two paths only
                        S = (S | S2) if _maybe_skipped(c, h) else S2
                        EQ, PAST = NONE, PAST | EQ   # the callee may have written the record
            # locals bound in the head of a compound statement (loop target, `with .. as`, walrus)
            for h in heads(node):
                if h is None or node.kind == 'stmt':
                    continue
                for x in walk_no_nested(h):
                    if isinstance(x, ast.NamedExpr):
                        EQ, PAST = EQ - {x.target.id}, PAST - {x.target.id}
                        if self.record_read(fi, x.value):
                            EQ = EQ | {x.target.id}
            if node.kind == 'iter':
                b = set(assigned_names(node.stmt.target))
                EQ, PAST = EQ - b, PAST - b
            elif node.kind == 'with':
                for it in node.stmt.items:
                    if it.optional_vars is not None:
                        b = set(assigned_names(it.optional_vars))
                        EQ, PAST = EQ - b, PAST - b
            if node.kind == 'stmt':
                stmt = node.stmt
                stored = False
                use_env(EQ, PAST)
                for ref, v, text, recv in self.record_targets(fi, stmt):
                    if v is None:
                        prob, S2 = 'delete', TOP
                    else:
                        use_env(EQ, PAST)
                        prob, S2 = self.value_effect(fi, v, S, stmt)
                    if emit:
                        self._emit_store(fi, node, ref, v, text, held, tag, S, prob, recv)
                    S = S2
                    stored = True
                if emit and isinstance(stmt, ast.Raise) and S and S <= frozenset('O'):
                    self.refusals.append((fi, node.line))
                # which locals hold the value the record has now (EQ) / held at some earlier time (PAST)
                bound, simple, val = set(), set(), None
                if isinstance(stmt, ast.Assign):
                    for t in stmt.targets:
                        bound |= set(assigned_names(t))
                        if isinstance(t, ast.Name):
                            simple.add(t.id)
                    val = stmt.value
                elif isinstance(stmt, (ast.AnnAssign, ast.AugAssign)):
                    bound |= set(assigned_names(stmt.target))
                    if isinstance(stmt, ast.AnnAssign) and isinstance(stmt.target, ast.Name) and stmt.value is not None:
                        simple.add(stmt.target.id)
                        val = stmt.value
                elif isinstance(stmt, ast.Delete):
                    bound |= {t.id for t in stmt.targets if isinstance(t, ast.Name)}
                for x in walk_no_nested(stmt):
                    if isinstance(x, ast.NamedExpr):
                        bound.add(x.target.id)
                vname = val.id if isinstance(val, ast.Name) else None
                if stored:
                    plain = isinstance(stmt, (ast.Assign, ast.AnnAssign)) and val is not None and all(
                        isinstance(t, (ast.Name, ast.Attribute)) for t in (stmt.targets if isinstance(stmt, ast.Assign) else [stmt.target]))
                    PAST = (PAST | EQ) - bound
                    EQ = NONE
                    if plain:   # `record = x = v` / `record = v`: x and v are what the record is now
                        EQ = frozenset(simple | ({vname} if vname and vname not in bound else set()))
                        PAST = PAST - EQ
                elif val is not None and simple and (self.record_read(fi, val) or vname in EQ):
                    EQ, PAST = (EQ - bound) | simple, PAST - bound
                elif val is not None and simple and vname in PAST:
                    EQ, PAST = EQ - bound, (PAST - bound) | simple
                elif bound:
                    EQ, PAST = EQ - bound, PAST - bound
            return (tag, S, frozenset(EQ), frozenset(PAST))

        def branch(node, lab, st):
            tag, S, EQ, PAST = st
            use_env(EQ, PAST)
            if node.kind == 'test':
                return (tag, self.refine(fi, node.stmt.test, lab == 't', S, node.stmt), EQ, PAST)
            if node.kind == 'case':
                mc = node.stmt
                match = getattr(mc, '_parent', None)
                subj = self._current(fi, match.subject, match) if isinstance(match, ast.Match) else 'U'
                pat = mc.pattern
                S2 = S
                if subj == 'R':
                    sel = None
                    if isinstance(pat, ast.MatchSingleton) and pat.value is None:
                        sel = frozenset('N')
                    elif isinstance(pat, ast.MatchValue) and self._current(fi, pat.value, match) == 'M':
                        sel = ME
                    if sel is not None:
                        S2 = S & sel if lab == 't' else (S - sel if mc.guard is None else S)
                if lab == 't' and mc.guard is not None:
                    S2 = self.refine(fi, mc.guard, True, S2, match)
                elif lab == 'f' and mc.guard is not None and isinstance(pat, ast.MatchAs) and pat.pattern is None:
                    S2 = self.refine(fi, mc.guard, False, S2, match)
                return (tag, S2, EQ, PAST)
            return st

        def join(a, b):
            EQ = a[2] & b[2]
            PAST = ((a[3] | a[2]) & (b[3] | b[2])) - EQ
            if a[0] == b[0]:
                return (a[0], a[1] | b[1], EQ, PAST)
            return (('x',), _stable(a[1]) | _stable(b[1]), NONE, PAST | EQ)

        ins, _ = g.forward((base, S0, NONE, NONE), lambda n, s: transfer(n, s), join, branch_transfer=branch)
        # what the record is when the function hands back a true / a false value (a predicate `claimed?` whose caller
        # raises): each return statement's value is decided in the state that reaches it
        St = Sf = frozenset()
        for node in g.nodes:
            if node.id in ins and node.kind == 'stmt' and isinstance(node.stmt, ast.Return):
                tag, S, EQ, PAST = transfer(node, ins[node.id])
                use_env(EQ, PAST)
                v = node.stmt.value
                if v is None or (isinstance(v, ast.Constant) and not v.value):
                    a, b = frozenset(), S
                elif isinstance(v, ast.Constant):
                    a, b = S, frozenset()
                else:
                    a, b = self.refine(fi, v, True, S, node.stmt), self.refine(fi, v, False, S, node.stmt)
                if tag != base:   # the lock is released on the way out
                    a, b = _stable2(a), _stable2(b)
                St, Sf = St | a, Sf | b
        out_all = ins.get(g.exit)
        for pnode, _lab in g.pred[g.exit]:
            pn = g.nodes[pnode]
            if pnode in ins and not (pn.kind == 'stmt' and isinstance(pn.stmt, ast.Return)) and out_all is not None:
                Sf = Sf | sync(g.nodes[g.exit], out_all)[1]   # falls off the end (or leaves through a finally): None
        if not inherited:
            St, Sf = _stable2(St), _stable2(Sf)
        self._truth[key] = (St, Sf)
        if collect:
            self.analysed.add(ck)
            self._collected.add(key)
            for nid, st in ins.items():
                transfer(g.nodes[nid], st, emit=True)
        out = ins.get(g.exit)
        res = sync(g.nodes[g.exit], out)[1] if out is not None else frozenset()
        if not inherited:
            res = _stable(res) if res else res
        self._memo[key] = res
        self._cfg[ck].setdefault('ins', {})[(inherited, S0)] = (g, ins, sync)
        return res

    def _outer(self, fi, with_stmt):
        secs, _ = self.sections(fi)
        for a in ancestors(with_stmt):
            if isinstance(a, (ast.FunctionDef, ast.AsyncFunctionDef)):
                break
            if id(a) in secs:
                return secs[id(a)]
        return None

    def _emit_store(self, fi, node, ref, v, text, held, tag, S, prob, recv=None):
        k = (fi.file, fi.qualname, node.line, text)
        rec = self.store_obs.setdefault(k, {'fi': fi, 'line': node.line, 'text': text, 'ref': ref, 'value': v,
                                            'held': True, 'S': frozenset(), 'prob': None, 'lock': None, 'stmt': node.stmt,
                                            'recv': recv})
        rec['held'] = rec['held'] and held
        rec['S'] = rec['S'] | S
        if prob and not rec['prob']:
            rec['prob'] = prob
        if held and tag and tag[0] == 'w':
            sec = self.section_of(fi, node.stmt)
            if sec:
                rec['lock'] = (sec[1], sec[2])


def run(ctx):
    prog = ctx.prog
    A = Analysis(ctx)
    m, cls = A.m, A.cls
    init = cls.methods.get('__init__')
    if init is None:
        ctx.undecided('C20-R1', (m.relpath, OWNER), '__init__', 'constructor not found')
    if RECORD not in cls.class_assignments():
        ctx.undecided('C20-R1', (m.relpath, OWNER), RECORD, 'owner record is no longer a class-level attribute')

    exec_acc = [(mm, n, kind, fi) for mm, n, kind, fi in A.accesses if fi is not None]
    ctx.floor('C20-R1', len(exec_acc), 1, 'accesses of the owner record in executable code')
    if not any(kind in ('store', 'del') for _mm, _n, kind, _fi in A.accesses):
        # nothing writes the record in a form the rules follow.  Either the claim was dropped (decided below: nothing is
        # ever refused) or it is spelled in a way not followed (the name as a string handed to something else)
        known = {id(n.args[1]) for _mm, n, _k, _fi in A.accesses if isinstance(n, ast.Call)}
        for mm in prog.src_modules():
            for x in ast.walk(mm.tree):
                if isinstance(x, ast.Constant) and x.value == RECORD and id(x) not in known:
                    ctx.undecided('C20-R2', (mm.relpath, '<module>'), f'{RECORD!r} at line {x.lineno}',
                                  'the owner record is not written by an attribute store or setattr, but its name is '
                                  'used as a string here: cannot follow this way of writing it')

    for fi_a, txt, vals, ln in A.ambiguous:
        ctx.undecided('C20-R1', fi_a, f'attribute name `{txt}` at line {ln}',
                      f'the attribute accessed here is named by a value that can be any of {vals}: cannot tell whether this '
                      'is an access of the owner record')

    # ---- run the interpretation: the constructor first (follows resolved callees), then every other writer ----
    S_exit = A.analyse(init, False, TOP, True)
    for mm, n, kind, fi in A.accesses:
        if kind in ('store', 'del') and fi is not None and (fi.file, fi.qualname) not in A.analysed:
            A.analyse(fi, False, TOP, True)

    # module-level writes (outside any function): never part of an atomic claim
    for mm, n, kind, fi in A.accesses:
        if kind in ('store', 'del') and fi is None:
            ctx.ob('C20-R2', (mm.relpath, '<module>'), f'{kind} {norm(n)[:60]} at module level', False,
                   'the owner record is written outside the constructor\'s atomic claim', line=n.lineno)

    # ---- R1 / R2 per store -------------------------------------------------------------------
    n_stores = 0
    for k, rec in sorted(A.store_obs.items(), key=lambda kv: (kv[0][0], kv[0][2])):
        fi, line, text, S, prob = rec['fi'], rec['line'], rec['text'], rec['S'], rec['prob']
        n_stores += 1
        _, nolock = A.sections(fi)
        if not rec['held']:
            why_nolock = ''
            for a in ancestors(rec['stmt']):
                if id(a) in nolock:
                    why_nolock = ' (' + nolock[id(a)][1] + ')'
            if '(?' in why_nolock:
                ctx.undecided('C20-R1', fi, f'store {text} under the lock', why_nolock.strip(' ()?'))
            ctx.ob('C20-R1', fi, f'store {text} under the lock', False,
                   'the owner record is written while no lock created once at class or module level is held' + why_nolock +
                   ': two first constructors can interleave between the test and the set', line=line)
        else:
            if rec['lock']:
                A.lock_keys[rec['lock'][0]] = rec['lock'][1]
            ctx.ob('C20-R1', fi, f'store {text} under the lock', True,
                   'inside a critical section on ' + (rec['lock'][1] if rec['lock'] else 'the lock held by the caller'), line=line)
            # the claim is justified by an observation made under the same hold of the lock
            if prob in (None, 'overwrite'):
                ok = prob is None
                ctx.ob('C20-R1', fi, f'check and set {text} in one critical section', ok,
                       'on every path to the store the record was seen to be unset (or already this thread) while the same '
                       'lock was held' if ok else
                       (f'when the store runs the record may be {_show(S)}: nothing read under this hold of the lock shows that it '
                        'is still unset (the test was made before the lock was taken, in another critical section, or not at '
                        'all), so two threads that both saw "no owner" both record themselves'), line=line)
        # R2 value
        if prob == 'delete':
            ctx.ob('C20-R2', fi, f'{text} deleted', False, 'the owner record is removed: the next thread finds no owner', line=line)
        elif prob == 'reset':
            ctx.ob('C20-R2', fi, f'stored value {norm(rec["value"])} into {text}', False,
                   'the owner record is reset: ownership is permanent for the process, after a reset a second thread is '
                   'accepted while the first one still has (or can make) stores', line=line)
        elif prob and prob.startswith('notid:'):
            ctx.ob('C20-R2', fi, f'stored value {norm(rec["value"])[:60]} into {text}', False,
                   f'the value recorded as owner is {prob[6:]}, not the identity of the current thread: two different threads '
                   'can compare equal to it', line=line)
        elif prob == 'unknown':
            ctx.undecided('C20-R2', fi, f'stored value {norm(rec["value"])[:60]}',
                          'cannot show that the stored value is the current thread identity (threading.get_ident())')
        else:
            ctx.ob('C20-R2', fi, f'stored value {norm(rec["value"])[:60]} into {text}', True,
                   'the current thread identity', line=line)
        # R2 receiver
        ref, how, org = A.class_ref_deep(fi, rec['recv']) if rec['recv'] is not None else (rec['ref'], '', fi)
        ok_ref = ref == 'class'
        why = 'stored on the class that owns the record' + (how if ok_ref else '')
        through = f'`{norm(rec["recv"])}`{how}' if rec['recv'] is not None else f'`{text.rsplit(".", 1)[0]}`'
        if ref == 'cls':
            sites = A.callers(org)
            bad = [c for _, c in sites if not (isinstance(c.func, ast.Attribute) and A.class_ref(_, c.func.value) == 'class')]
            ok_ref = bool(sites) and not bad and org.cls is cls
            why = ('`cls` is always the owning class: every call names it explicitly' if ok_ref else
                   f'the store goes through {through}: `cls` is the class of the object being built when the method is '
                   'reached through an instance or a subclass, so the store creates a new attribute on the subclass and '
                   'leaves the shared record unset: another thread is accepted')
        elif not ok_ref:
            what = {'self': 'the instance', 'type': 'the class of the instance, which can be a subclass',
                    'sub': 'a subclass'}.get(ref, 'something that is not shown to be the class that owns the record')
            why = (f'the store goes through {through}, i.e. {what}: it creates an attribute there and leaves the class-level '
                   f'record {OWNER}.{RECORD} unset, so another thread (building a plain {OWNER} or another subclass) is accepted')
        ctx.ob('C20-R2', fi, f'receiver of the store {text}', ok_ref, why, line=line)
    if n_stores == 0:
        ctx.ob('C20-R2', init, 'owner record is recorded', False,
               'no store of the owner record is left: nothing is ever refused', line=init.node.lineno)
    ok = len(A.lock_keys) <= 1
    ctx.ob('C20-R1', init, f'one lock guards every claim: {sorted(A.lock_keys.values())}', ok,
           'all critical sections that write the record use the same lock object' if ok else
           'the record is written under different locks: they do not exclude each other', nontrivial=False)

    # loads: listed for the evidence; a read outside the lock is harmless as long as no claim rests on it (R1 above)
    for mm, n, kind, fi in exec_acc:
        if kind == 'load':
            st = n
            while not isinstance(st, ast.stmt):
                st = st._parent
            sec = A.section_of(fi, st) if (fi.file, fi.qualname) in A._cfg or True else None
            ctx.ob('C20-R1', fi, f'load {norm(n)[:60]}', True,
                   f'inside a critical section on {sec[2]}' if sec else
                   'read without the lock: never used to justify a claim (see check-and-set)', line=n.lineno, nontrivial=False)

    # ---- R3: no way past the guard ---------------------------------------------------------------
    ck = (init.file, init.qualname)
    g, ins, sync = A._cfg[ck]['ins'][(False, TOP)]
    work = []
    for node in g.nodes:
        if node.id not in ins or node.stmt is None or node.kind in ('finally', 'dispatch', 'join', 'except', 'case'):
            continue
        hs = {'stmt': [node.stmt], 'test': [getattr(node.stmt, 'test', None)], 'iter': [getattr(node.stmt, 'iter', None)],
              'with': [i.context_expr for i in getattr(node.stmt, 'items', [])],
              'match': [getattr(node.stmt, 'subject', None)]}.get(node.kind, [])
        for h in hs:
            if h is None:
                continue
            for c in calls_in(h):
                t = A.touches_files(init, c)
                if t:
                    work.append((node, c, t))
    ctx.floor('C20-R3', len(work), 1, 'uses of the file libraries reachable from the constructor')
    seen = set()
    n_bad = 0
    for node, c, t in sorted(work, key=lambda w: w[0].line):
        S = sync(node, ins[node.id])[1]
        ok = S == ME
        key = call_name(c)
        if key in seen and ok:
            continue
        if not ok:
            n_bad += 1
            if n_bad > 1:   # the first use reached without ownership says it all
                continue
        seen.add(key)
        ctx.ob('C20-R3', init, f'ownership established before {call_name(c)}(…)', ok,
               'on every path the record is the current thread here' if ok else
               (f'this call uses the file libraries ({t}) on a path where the owner record may be {_show(S)}: the '
                'constructor gets this far without having claimed the record or found itself the owner (guard skipped under '
                'a condition, refusal swallowed, or check placed after the work)'), line=node.line)
    ok = S_exit == ME or not S_exit
    ctx.ob('C20-R3', init, 'no construction completes unless the record is the current thread', ok,
           'every path to the end of the constructor has claimed the record under the lock or found it equal to the '
           'current thread; a thread that finds another owner cannot return normally' if ok else
           (f'the constructor can return while the owner record may be {_show(S_exit)}: some path neither claims the record, '
            'nor finds the current thread as owner, nor refuses'), line=init.node.lineno)
    ctx.stats['refusal_sites'] = sorted({f'{f.qualname}:{ln}' for f, ln in A.refusals})

    ctx.stats['record_accesses'] = len(exec_acc)
    ctx.stats['functions_interpreted'] = sorted(q for _, q in A.analysed)
    ctx.assumptions += [
        'threading.Lock provides mutual exclusion; threading.get_ident is unique per live thread and never zero',
        'all TrajectoryStore instances are constructed through TrajectoryStore.__init__ '
        '(no __new__/copy/pickle bypass)',
    ]

    if ctx.tier == 'thorough':
        for c in prog.subclasses_of(OWNER):
            if c is cls:
                continue
            ini = c.methods.get('__init__')
            if ini is None:
                ctx.ob('C20-R4', (c.file, c.name), 'inherits constructor', True, 'no own __init__')
                continue
            delegates = any(
                isinstance(x, ast.Call) and isinstance(x.func, ast.Attribute)
                and x.func.attr == '__init__' and isinstance(x.func.value, ast.Call)
                and call_name(x.func.value) == 'super' for x in ast.walk(ini.node))
            ctx.ob('C20-R4', ini, 'subclass constructor delegates to super().__init__', delegates,
                   'delegates' if delegates else 'subclass bypasses the ownership check')
        for cm in ('__new__', '__copy__', '__deepcopy__', '__reduce__', '__setstate__'):
            ok = cm not in cls.methods
            ctx.ob('C20-R4', (m.relpath, OWNER), f'no {cm} bypass', ok,
                   'not defined' if ok else f'{cm} can construct a store without the ownership check')
